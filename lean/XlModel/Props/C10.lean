/-
C10 — Number-format rendering is total, section-correct, accurate to shown
precision.  Property theorems only; helper lemmas are in `Lemmas/NumFmt.lean`.

All theorems are about `XlModel.NumFmt` (transcription of numfmt.go) over the
regenerated facts `XlModel.Facts.C10` and quantify over *all* token lists,
values and number layers (`NumIn`); none mentions `Float`.  The binary64 layer
is a parameter of the model: the theorems hold for every instance, the exact
decimal instance `Exact.numIn` shows what the property demands, and the
correspondence ties the binary64 instance to the Go code.
-/
import XlModel.Lemmas.NumFmt
import XlModel.Lemmas.NumFmtSerial
import XlModel.Lemmas.NumFmtLit
import XlModel.NumFmtGlue

namespace XlModel.Props.C10
open XlModel XlModel.NumFmt XlModel.Date XlModel.Date.Impl

/-! ## facts the model is defined over -/

/-- the regenerated token-type tables and thresholds are the ones the proofs were written for:
an edit of `supported*TokenTypes`, of the 15/15/2 thresholds of numberHandler, of the
`precision > 11` test of positiveHandler, of the group size or comparisons of printCommaSep, of
the comparisons of getValueSectionType/getNumberPartLen/handleDigitsLiteral/hoursHandler, or of the
system language tags breaks this theorem -/
theorem facts_ok :
    Facts.C10.supportedTokenTypes = ["Alignment", "CurrencyString", "LanguageInfo", "Color", "CurrencyLanguage",
      "DateTimes", "DecimalPoint", "Denominator", "DigitalPlaceHolder", "ElapsedDateTimes", "Exponential", "Fraction",
      "General", "HashPlaceHolder", "Literal", "Percent", "RepeatsChar", "SwitchArgument", "TextPlaceHolder",
      "ThousandsSeparator", "ZeroPlaceHolder"] ∧
    Facts.C10.supportedNumberTokenTypes = ["Denominator", "DigitalPlaceHolder", "Exponential", "Fraction",
      "HashPlaceHolder", "Percent", "ZeroPlaceHolder"] ∧
    Facts.C10.supportedDateTimeTokenTypes = ["DateTimes", "ElapsedDateTimes"] ∧
    Facts.C10.numberHandlerInts = [15, 15, 0, 2, 0, 100, 10] ∧
    Facts.C10.numberHandlerCmps = [">", ">", ">", "!=", ">"] ∧
    Facts.C10.positiveHandlerInts = [1, 11, 10, 64, 1, 1, 0, 1, 1] ∧
    Facts.C10.dateTimeHandlerInts = [3, 3] ∧
    Facts.C10.printCommaSepInts = [0, 0, 0, 3, 0, 2, 1] ∧
    Facts.C10.printCommaSepCmps = ["<", ">", "==", "=="] ∧
    Facts.C10.handleDigitsLiteralCmps = ["==", ">", "<", "<", "<=", "<"] ∧
    Facts.C10.getValueSectionTypeCmps = ["!=", "!=", "==", "==", ">=", "=="] ∧
    Facts.C10.getNumberPartLenCmps = ["==", ">", ">", ">", ">"] ∧
    Facts.C10.hoursHandlerInts = [0, 12, 1, 12, 12, 1, 12, 12, 0, 12, 1] ∧
    Facts.C10.hoursHandlerCmps = [">=", ">", "!=", "==", ">", "=="] ∧
    Facts.C10.currencyLanguageStrs = ["F800", "x-sysdate", "1010000", "", "", "", "409", "F400", "x-systime", "", "", "", "409"] := by
  decide

/-- the built-in ids whose codes are the decimal / thousands / percent / scientific codes of the
accuracy clause resolve to exactly these codes -/
theorem builtin_numeric_codes :
    Facts.C10.builtInNumFmt.lookup 1 = some "0" ∧ Facts.C10.builtInNumFmt.lookup 2 = some "0.00" ∧
    Facts.C10.builtInNumFmt.lookup 3 = some "#,##0" ∧ Facts.C10.builtInNumFmt.lookup 4 = some "#,##0.00" ∧
    Facts.C10.builtInNumFmt.lookup 9 = some "0%" ∧ Facts.C10.builtInNumFmt.lookup 10 = some "0.00%" ∧
    Facts.C10.builtInNumFmt.lookup 11 = some "0.00E+00" ∧ Facts.C10.builtInNumFmt.lookup 49 = some "@" := by
  decide

/-! ## section selection (clause "under the section (positive;negative;zero;text) selected by the value") -/

/-- nfp types sections by position -/
def positional : List String := ["Positive", "Negative", "Zero", "Text"]

def WellTyped (secs : List Sec) : Prop :=
  secs.map (·.ty) = positional.take secs.length ∧ secs.length ≤ 4

/-- what getValueSectionType can see of a value: (numeric, negative, zero) -/
def clsFlags : Spec.Cls → Bool × Bool × Bool
  | .pos => (true, false, false)
  | .zero => (true, false, true)
  | .neg => (true, true, false)
  | .text => (false, false, false)

/-- the section index chosen by `format`'s loop and whether the renderer must print the sign -/
def modelSelect (secs : List Sec) (c : Spec.Cls) : Option (Nat × Bool) :=
  let vs := valueSectionType secs (clsFlags c).1 (clsFlags c).2.1 (clsFlags c).2.2
  (selectSection secs vs.1).map fun p => (p.1, vs.2)

/-- section_select at full strength (after fix "zero section"): for every section count 0..4 and
EVERY class — positive, negative, zero, text — the code selects the section Excel's positional rule
selects; a negative value formatted by the single section keeps its sign (`usePositive`), under a
negative section it is dropped; a zero goes to the third section when there are three or more -/
theorem section_select (secs : List Sec) (h : WellTyped secs) (c : Spec.Cls) :
    modelSelect secs c = Spec.sectionFor secs.length c := by
  obtain ⟨ht, hl⟩ := h
  match secs, ht, hl with
  | [], _, _ => cases c <;> simp [modelSelect, clsFlags, valueSectionType, selectSection, enum, Spec.sectionFor]
  | [a], ht, _ =>
    simp [positional] at ht
    cases c <;> simp [modelSelect, clsFlags, valueSectionType, selectSection, enum, Spec.sectionFor, ht, List.range_succ]
  | [a, b], ht, _ =>
    simp [positional] at ht
    obtain ⟨ha, hb⟩ := ht
    cases c <;> simp [modelSelect, clsFlags, valueSectionType, selectSection, enum, Spec.sectionFor, ha, hb, List.range_succ]
  | [a, b, d], ht, _ =>
    simp [positional] at ht
    obtain ⟨ha, hb, hd⟩ := ht
    cases c <;> simp_all [modelSelect, clsFlags, valueSectionType, selectSection, enum, Spec.sectionFor, List.range_succ]
  | [a, b, d, e], ht, _ =>
    simp [positional] at ht
    obtain ⟨ha, hb, hd, he⟩ := ht
    cases c <;> simp_all [modelSelect, clsFlags, valueSectionType, selectSection, enum, Spec.sectionFor, List.range_succ]
  | _ :: _ :: _ :: _ :: _ :: _, _, hl => simp at hl

/-- regression witness of the former finding: `0.00;-0.00;"zero"` on 0 now selects the third section -/
theorem zero_section_selected :
    modelSelect [⟨"Positive", []⟩, ⟨"Negative", []⟩, ⟨"Zero", []⟩] .zero = some (2, false) := by
  decide

/-- non-vacuity: well-typed section lists of every length exist -/
theorem wellTyped_witness : WellTyped [⟨"Positive", []⟩, ⟨"Negative", []⟩, ⟨"Zero", []⟩, ⟨"Text", []⟩] := by
  constructor <;> decide

/-! ## fall-back (clause "falls back to the stored value when the code is unsupported") -/

/-- no section applies to the value: the stored value is returned verbatim -/
theorem fallback_no_section (secs : List Sec) (value : Str) (cn : Bool) (n : NumIn) (d : DateIn)
    (h : selectSection secs (valueSectionType secs (cn && n.isNum) n.neg n.zero).1 = none) :
    format secs value cn n d = .ok value := by
  unfold format
  simp only []
  rw [h]

/-- a numeric value whose selected section holds a token type outside `supportedTokenTypes`
(conditions, unknown brackets) is not rendered: the result is the stored value VERBATIM — no
alignment padding (after the second fix window) -/
theorem fallback_unsupported_token (secs : List Sec) (value : Str) (cn : Bool) (n : NumIn) (d : DateIn)
    (i : Nat) (sec : Sec) (hnum : (cn && n.isNum) = true)
    (h : selectSection secs (valueSectionType secs (cn && n.isNum) n.neg n.zero).1 = some (i, sec))
    (hu : sec.items.any (fun t => !isSupportedTy t.ty) = true) :
    format secs value cn n d = .ok value := by
  unfold format
  simp only []
  rw [h]
  simp only [hnum, if_true]
  split
  · simp [positiveHandler, hu, Out.finish]
  · have : sec.items.any (fun t => !isSupportedTy t.ty || t.ty = "General" || isDateTok t) = true := by
      rw [List.any_eq_true] at hu ⊢
      obtain ⟨t, ht, hb⟩ := hu
      exact ⟨t, ht, by simp [hb]⟩
    simp [negativeHandler, this, Out.finish]

/-! ## thousands separators (clause "thousands-separated codes") -/

/-- integer parts of one to three digits get no separator -/
theorem comma_grouping_short (s : Str) (h : s.length ≤ 3) : commaLoop true s = s :=
  commaLoop_short s h

/-- every further group of exactly three digits adds exactly one separator in front of it: with
`comma_grouping_short` this determines printCommaSep's integer loop for every length -/
theorem comma_grouping_step (a b : Str) (ha : a ≠ []) (hb : b.length = 3) :
    commaLoop true (a ++ b) = commaLoop true a ++ ',' :: b :=
  commaLoop_append3 b hb a true (Or.inl ha)

/-- the separators are the only change: deleting them gives the digits back -/
theorem comma_preserves_digits (s : Str) (h : ∀ c ∈ s, c ≠ ',') :
    (commaLoop true s).filter (· ≠ ',') = s :=
  commaLoop_strip s h true

/-- non-vacuity / sample: seven digits -/
theorem comma_example : printCommaSep (bs "1234567.5") = bs "1,234,567.5" := by decide +kernel

/-! ## accuracy (clause "within half a unit of the last displayed place") -/

/-- exact decimal layer: the integer `k` rendered with `d` decimals satisfies
`|k/10^d − |x|·100^pct| ≤ ½·10^−d`: with `q = 10^n`, `n = −(e+2pct+d) > 0` digits cut off,
`2qk ≤ 2m+q` and `2m < 2qk+q` (ties go away from zero) -/
theorem round_error_bound_exact (x : Exact.Dec) (pct d : Nat) (hs : x.e + 2 * pct + d < 0) :
    let q := 10 ^ (-(x.e + 2 * (pct : Int) + d)).toNat
    let k := Exact.scaledRound x pct d
    2 * q * k ≤ 2 * x.m + q ∧ 2 * x.m < 2 * q * k + q := by
  intro q k
  have hq : 0 < q := Nat.pow_pos (by decide)
  have hk : k = (2 * x.m + q) / (2 * q) := by
    show Exact.scaledRound x pct d = _
    unfold Exact.scaledRound Exact.roundScaled
    have : ¬ (x.e + 2 * (pct : Int) + d ≥ 0) := by omega
    simp only [this, if_false]
    rfl
  rw [hk]
  exact half_unit x.m q hq

/-- nothing is cut off: the rendered integer is the value itself, scaled -/
theorem round_exact_when_enough_places (x : Exact.Dec) (pct d : Nat) (hs : 0 ≤ x.e + 2 * pct + d) :
    Exact.scaledRound x pct d = x.m * 10 ^ (x.e + 2 * (pct : Int) + d).toNat := by
  unfold Exact.scaledRound Exact.roundScaled
  simp [hs]

/-- samples of the exact layer (ties away from zero, percent scaling) -/
theorem exact_samples :
    Exact.fixed ⟨false, 1005, -3⟩ 0 2 = bs "1.01" ∧ Exact.fixed ⟨false, 25, -1⟩ 0 0 = bs "3" ∧
    Exact.fixed ⟨false, 1234, -2⟩ 1 0 = bs "1234" ∧ Exact.fixed ⟨false, 5, -4⟩ 0 2 = bs "0.00" := by
  decide +kernel

/-- a number layer for the finding witnesses below: only the shortest renderings matter on the
big-number path -/
def bigLayer (short : String) (short100 : String) (prec : Nat) : NumIn where
  isNum := true
  precision := prec
  neg := false
  zero := false
  absShort := bs short
  bigShort := fun p => if p then bs short100 else bs short
  fixed := fun _ _ => []
  sci := fun _ _ => []
  general := []

def noDate : DateIn where
  t0 := ⟨1900, 1, 1, 0, 0, 0, 0, 0⟩
  t1 := ⟨1900, 1, 1, 0, 0, 0, 0, 0⟩
  hour1900 := 0
  loc0 := fun _ => ⟨false, [], [], [], [], [], [], false⟩
  loc1 := fun _ => ⟨false, [], [], [], [], [], [], false⟩

/-- regression witness of the former finding: `[<0]0.0_)` on 5 returns "5", not "5 " -/
theorem fallback_not_padded :
    format [⟨"Positive", [⟨"Condition", bs "<0", []⟩, ⟨"ZeroPlaceHolder", ['0'], []⟩, ⟨"Alignment", [' '], []⟩]⟩]
      ['5'] true (bigLayer "5" "500" 1) noDate = .ok ['5'] := by
  decide +kernel

/-- more than 15 significant digits (former finding, fixed): printBigNumber rounds the decimal
digits half away from zero: 1234567890123.4568 as `0.000` renders …123.457, and a carry runs through
the nines before the separators are inserted -/
theorem bignumber_rounds :
    format [⟨"Positive", [⟨"ZeroPlaceHolder", ['0'], []⟩, ⟨"DecimalPoint", ['.'], []⟩, ⟨"ZeroPlaceHolder", bs "000", []⟩]⟩]
      (bs "1234567890123.4568") true (bigLayer "1234567890123.4568" "123456789012345.67" 17) noDate
      = .ok (bs "1234567890123.457") ∧
    format [⟨"Positive", [⟨"HashPlaceHolder", ['#'], []⟩, ⟨"ThousandsSeparator", [','], []⟩, ⟨"HashPlaceHolder", bs "##", []⟩,
        ⟨"ZeroPlaceHolder", ['0'], []⟩, ⟨"DecimalPoint", ['.'], []⟩, ⟨"ZeroPlaceHolder", bs "00", []⟩]⟩]
      (bs "99999999999999.996") true (bigLayer "99999999999999.996" "9999999999999999.6" 17) noDate
      = .ok (bs "100,000,000,000,000.00") := by
  constructor <;> decide +kernel

/-- more than 15 significant digits: printBigNumber scales by 100 once and prints one percent sign
however many the code has: 1e16 as `0%%` renders 1000000000000000000% -/
theorem finding_bignumber_percent_count :
    format [⟨"Positive", [⟨"ZeroPlaceHolder", ['0'], []⟩, ⟨"Percent", bs "%%", []⟩]⟩]
      (bs "1e16") true (bigLayer "10000000000000000" "1000000000000000000" 17) noDate
      = .ok (bs "1000000000000000000%") := by
  decide +kernel

/-! ## totality (clause "returns a string without panicking") -/

/-- the numeric path (numberHandler: decimal, thousands, percent, scientific, big numbers) has no
panic outcome for any token list, value and number layer -/
theorem number_path_total (items : List Tok) (value : Str) (up : Bool) (n : NumIn) :
    numberHandler items value up n ≠ .panic :=
  numberHandler_ne_panic items value up n

/-- negative sections never panic -/
theorem negative_section_total (items : List Tok) (value : Str) (up : Bool) (n : NumIn) :
    negativeHandler items value up n ≠ .panic := by
  unfold negativeHandler
  split
  · simp
  · exact numberHandler_ne_panic items value up n

/-- `format` has no panic outcome whenever the section selected for the value holds no date/time
token: every decimal, thousands, percent, scientific, General, literal and text code, for all token
lists, values and number layers.  (The date path needs the two data hypotheses shown below.) -/
theorem format_total_partial (secs : List Sec) (value : Str) (cn : Bool) (n : NumIn) (d : DateIn)
    (h : ∀ i sec, selectSection secs (valueSectionType secs (cn && n.isNum) n.neg n.zero).1 = some (i, sec) →
      ∀ t ∈ sec.items, isDateTok t = false) :
    format secs value cn n d ≠ .panic := by
  unfold format
  simp only []
  split
  · simp
  · rename_i i sec hsel
    have hd := h i sec hsel
    split
    · split
      · apply Out.finish_ne_panic
        unfold positiveHandler
        split
        · simp
        · exact positiveLoop_no_date _ _ _ _ _ _ _ hd
      · apply Out.finish_ne_panic
        exact negative_section_total _ _ _ _
    · simp

/-- the two unguarded operations of the date path, as the model has them: `strconv.Itoa(year)[2:]`
panics for a one-digit year … -/
theorem finding_year_slice_unguarded :
    format [⟨"Positive", [⟨"DateTimes", bs "yy", []⟩]⟩] ['1'] true (bigLayer "1" "100" 1)
      { noDate with t0 := ⟨5, 1, 1, 0, 0, 0, 0, 0⟩ } = .panic := by
  decide +kernel

/-- … and `aps[1]` panics when a locale's AM/PM pattern has no '/' and the hour is ≥ 12. Both are
excluded by data (serial ≥ 0 gives year ≥ 1899; every `apFmt` of the language tables contains '/'):
the harness sweeps every language tag at a PM instant on each run -/
theorem finding_ampm_split_unguarded :
    format [⟨"Positive", [⟨"CurrencyLanguage", bs "[$-9999]", [⟨"LanguageInfo", bs "9999", true⟩]⟩, ⟨"DateTimes", bs "AM/PM", []⟩,
        ⟨"DateTimes", bs "h", []⟩]⟩] ['1'] true (bigLayer "1" "100" 1)
      { noDate with t0 := ⟨1900, 1, 1, 13, 0, 0, 0, 0⟩, loc0 := fun _ => ⟨true, bs "noslash", [], [], [], [], [], false⟩ } = .panic := by
  decide +kernel

/-! ## totality at full strength -/

/-- every AM/PM pattern a language-table entry can carry (regenerated from the `apFmt:` fields of
numfmt.go, 398 fields) contains the '/' that `strings.Split(_, "/")[1]` needs -/
theorem apfmt_table_ok : Facts.C10.apFmtFields = 398 ∧ ∀ s ∈ Facts.C10.apFmts, '/' ∈ bytesOf s := by
  decide +kernel

/-- a locale row whose pattern is in the regenerated table satisfies the data predicate -/
theorem apOK_of_table (l : Locale) (h : l.ok = true → ∃ s ∈ Facts.C10.apFmts, l.apFmt = bytesOf s) : ApOK l := by
  intro hok
  obtain ⟨s, hs, he⟩ := h hok
  rw [he]
  exact apfmt_table_ok.2 s hs

/-- `format` has no panic outcome for EVERY section list, value, cell type and number layer —
date/time tokens included — under the data predicate `DateOK`: `strconv.Itoa(year)` has two
characters for the instants read, and the AM/PM pattern of every supported locale contains '/' -/
theorem format_total (secs : List Sec) (value : Str) (cn : Bool) (n : NumIn) (d : DateIn) (h : DateOK d) :
    format secs value cn n d ≠ .panic :=
  format_ne_panic secs value cn n d h

/-- the data predicate holds for every stored number the decoder accepts: any rational within C19's
decoding tolerance of a non-negative serial `D + k/86400`, both date systems, with locale rows drawn
from the regenerated table.  (Real serials give years ≥ 1600; `t+1s` is covered as the next second.) -/
theorem dateOK_of_serial (x : Rat) (s : Bool) (D k : Int) (hD0 : 0 ≤ D) (hk0 : 0 ≤ k) (hk : k < 86400)
    (hx : |x - ((D : Rat) + (k : Rat) / 86400)| ≤ decTol D) (loc0 loc1 : Str → Locale)
    (hl : ∀ c, ApOK (loc0 c) ∧ ApOK (loc1 c)) :
    DateOK (dateInOfSerial x s loc0 loc1) := by
  have hdec := decode_both x s D k hD0 hk0 hk hx
  unfold dateInOfSerial
  simp only [hdec]
  refine ⟨?_, ?_, hl, ⟨by simp, by simp⟩⟩
  · rw [timeFOfInstant_eval s D k hk0 hk]
    apply yearOK_of_ge
    have := year_ge_1600 s D hD0
    simp only [civilTimeF]; omega
  · -- one second later: same day, or second 0 of the next day
    have hns : nsPerSec = 1000000000 := by decide
    rw [hns]
    by_cases hlast : k + 1 < 86400
    · have he : (if s then epoch1904 else epoch1900) + (D * 86400000000000 + k * 1000000000) + 1000000000
          = (if s then epoch1904 else epoch1900) + (D * 86400000000000 + (k + 1) * 1000000000) := by omega
      rw [he, timeFOfInstant_eval s D (k + 1) (by omega) hlast]
      apply yearOK_of_ge
      have := year_ge_1600 s D hD0
      simp only [civilTimeF]; omega
    · have he : (if s then epoch1904 else epoch1900) + (D * 86400000000000 + k * 1000000000) + 1000000000
          = (if s then epoch1904 else epoch1900) + ((D + 1) * 86400000000000 + 0 * 1000000000) := by omega
      rw [he, timeFOfInstant_eval s (D + 1) 0 (by omega) (by omega)]
      apply yearOK_of_ge
      have := year_ge_1600 s (D + 1) (by omega)
      simp only [civilTimeF]; omega

/-! ## date/time fields (clause "rendered year, month, day, hour, minute and second are those of
the serial's calendar instant") -/

def dtTok (s : List Char) : Tok := ⟨"DateTimes", s, []⟩
def litTok (s : List Char) : Tok := ⟨"Literal", s, []⟩
def elTok (s : List Char) : Tok := ⟨"ElapsedDateTimes", s, []⟩

/-- `yyyy-mm-dd hh:mm:ss` as nfp tokenises it -/
def isoItems : List Tok := [dtTok ['y','y','y','y'], litTok ['-'], dtTok ['m','m'], litTok ['-'], dtTok ['d','d'], litTok [' '],
  dtTok ['h','h'], litTok [':'], dtTok ['m','m'], litTok [':'], dtTok ['s','s']]

/-- every field token of `yyyy-mm-dd hh:mm:ss` prints the decimal of the corresponding field of
`nf.t` (the first `mm` is the month, the second the minute), for every instant -/
theorem iso_fields_rendered (value : Str) (d : DateIn) (hn : d.t0.nano < 500000000) :
    dateTimeHandler isoItems value false d =
      .ok (itoaInt d.t0.year ++ ['-'] ++ pad2 d.t0.month ++ ['-'] ++ pad2 d.t0.day ++ [' '] ++
        pad2 d.t0.hour ++ [':'] ++ pad2 d.t0.minute ++ [':'] ++ pad2 d.t0.second) := by
  have hl : ¬ (d.t0.nano ≥ 500000000) := by omega
  simp [dateTimeHandler, hl, isoItems, enum, List.range_succ, dtLoop, dtTok, litTok, dateTimesHandler, inFold, amPm,
    upper, upC, isLo, tokHas, hasC, isMonthToken, timePrevious, secondsNext, apNext, apNextAux]

/-- date_fields_correct: for every stored number within C19's decoding tolerance of the serial
`D + k/86400` (D ≥ 0, k a second of the day), in both date systems, `yyyy-mm-dd hh:mm:ss` renders
the civil date of day `D` after the system's epoch (C19's `civilFromDays`) and the clock reading
`k/3600 : k%3600/60 : k%60` -/
theorem date_fields_correct (x : Rat) (s : Bool) (D k : Int) (hD0 : 0 ≤ D) (hk0 : 0 ≤ k) (hk : k < 86400)
    (hx : |x - ((D : Rat) + (k : Rat) / 86400)| ≤ decTol D) (value : Str) (loc0 loc1 : Str → Locale) :
    dateTimeHandler isoItems value false (dateInOfSerial x s loc0 loc1) =
      .ok (itoaInt (civilFromDays (epochDay s + D)).1 ++ ['-'] ++ pad2 (civilFromDays (epochDay s + D)).2.1.toNat ++ ['-'] ++
        pad2 (civilFromDays (epochDay s + D)).2.2.toNat ++ [' '] ++ pad2 (k / 3600).toNat ++ [':'] ++
        pad2 (k % 3600 / 60).toNat ++ [':'] ++ pad2 (k % 60).toNat) := by
  have hdec := decode_both x s D k hD0 hk0 hk hx
  have ht0 : (dateInOfSerial x s loc0 loc1).t0 = civilTimeF s D k := by
    unfold dateInOfSerial; simp only [hdec]; exact timeFOfInstant_eval s D k hk0 hk
  rw [iso_fields_rendered value _ (by rw [ht0]; simp [civilTimeF]), ht0]
  rfl

/-! ## 12-hour forms (clause "12-hour AM/PM … consistent with the 24-hour value") -/

/-- the 12-hour reading of an hour 0..23 -/
def h12 (h : Nat) : Nat := if h % 12 = 0 then 12 else h % 12
def apOf (h : Nat) : Str := if h ≥ 12 then ['P', 'M'] else ['A', 'M']

/-- the pair (12-hour reading, AM/PM) determines the 24-hour value -/
theorem h12_consistent (h : Nat) (hh : h < 24) :
    1 ≤ h12 h ∧ h12 h ≤ 12 ∧ h12 h % 12 + (if h ≥ 12 then 12 else 0) = h := by
  unfold h12; split <;> split <;> omega

/-- `h:mm AM/PM` (marker after the hour), default locale -/
def apAfterItems : List Tok := [dtTok ['h'], litTok [':'], dtTok ['m','m'], litTok [' '], dtTok ['A','M','/','P','M']]
/-- `AM/PM h:mm` (marker before the hour: the class of the seeded change C10a/1 and of fix 18fb37c) -/
def apBeforeItems : List Tok := [dtTok ['A','M','/','P','M'], litTok [' '], dtTok ['h'], litTok [':'], dtTok ['m','m']]

theorem ampm_consistent_after (value : Str) (d : DateIn) (hn : d.t0.nano < 500000000) (hh : d.t0.hour < 24)
    (hloc : (d.loc0 []).ok = false) :
    dateTimeHandler apAfterItems value false d =
      .ok (itoa (h12 d.t0.hour) ++ [':'] ++ pad2 d.t0.minute ++ [' '] ++ apOf d.t0.hour) := by
  have hl : ¬ (d.t0.nano ≥ 500000000) := by omega
  have fin : ∀ a b : Nat, a = b → itoa a = itoa b := fun _ _ h => by rw [h]
  by_cases hc : 12 ≤ d.t0.hour
  · simp [dateTimeHandler, hl, apAfterItems, enum, List.range_succ, dtLoop, dtTok, litTok, dateTimesHandler, inFold, amPm,
      upper, upC, isLo, tokHas, hasC, isMonthToken, timePrevious, secondsNext, apNext, apNextAux, hoursNext, apParts, hloc,
      splitC, hc, apOf]
    apply fin
    unfold h12
    split_ifs <;> omega
  · simp [dateTimeHandler, hl, apAfterItems, enum, List.range_succ, dtLoop, dtTok, litTok, dateTimesHandler, inFold, amPm,
      upper, upC, isLo, tokHas, hasC, isMonthToken, timePrevious, secondsNext, apNext, apNextAux, hoursNext, apParts, hloc,
      splitC, hc, apOf]
    apply fin
    unfold h12
    split_ifs <;> omega

theorem ampm_consistent_before (value : Str) (d : DateIn) (hn : d.t0.nano < 500000000) (hh : d.t0.hour < 24)
    (hloc : (d.loc0 []).ok = false) :
    dateTimeHandler apBeforeItems value false d =
      .ok (apOf d.t0.hour ++ [' '] ++ itoa (h12 d.t0.hour) ++ [':'] ++ pad2 d.t0.minute) := by
  have hl : ¬ (d.t0.nano ≥ 500000000) := by omega
  have fin : ∀ a b : Nat, a = b → itoa a = itoa b := fun _ _ h => by rw [h]
  by_cases hc : 12 ≤ d.t0.hour
  · simp [dateTimeHandler, hl, apBeforeItems, enum, List.range_succ, dtLoop, dtTok, litTok, dateTimesHandler, inFold, amPm,
      upper, upC, isLo, tokHas, hasC, isMonthToken, timePrevious, secondsNext, apNext, apNextAux, hoursNext, apParts, hloc,
      splitC, hc, apOf]
    apply fin
    unfold h12
    split_ifs <;> omega
  · simp [dateTimeHandler, hl, apBeforeItems, enum, List.range_succ, dtLoop, dtTok, litTok, dateTimesHandler, inFold, amPm,
      upper, upC, isLo, tokHas, hasC, isMonthToken, timePrevious, secondsNext, apNext, apNextAux, hoursNext, apParts, hloc,
      splitC, hc, apOf]
    apply fin
    unfold h12
    split_ifs <;> omega

/-! ## elapsed forms (clause "elapsed [h]/[m]/[s] forms consistent with the 24-hour value") -/

def elapsedItems : List Tok := [elTok ['h'], litTok [':'], dtTok ['m','m'], litTok [':'], dtTok ['s','s']]

/-- `[h]:mm:ss` prints whole elapsed hours, then the minute and second of `nf.t` -/
theorem elapsed_rendered (value : Str) (d : DateIn) (hn : d.t0.nano < 500000000) :
    dateTimeHandler elapsedItems value false d =
      .ok (itoaInt (d.t0.elapsedSec.tdiv 3600) ++ [':'] ++ pad2 d.t0.minute ++ [':'] ++ pad2 d.t0.second) := by
  have hl : ¬ (d.t0.nano ≥ 500000000) := by omega
  simp [dateTimeHandler, hl, elapsedItems, enum, List.range_succ, dtLoop, dtTok, litTok, elTok, dateTimesHandler, inFold, amPm,
    upper, upC, isLo, tokHas, hasC, isMonthToken, timePrevious, secondsNext, elapsed]

/-- elapsed_consistent: for the fields of a serial `D + k/86400` (either date system) the three
elapsed counts and the clock fields denote the same instant: `[h]·3600 + mm·60 + ss = [s]`,
`[m] = [h]·60 + mm`, `[h] mod 24 = hh`, and `[s]` is the serial in seconds -/
theorem elapsed_consistent (s : Bool) (D k : Int) (hD0 : 0 ≤ D) (hk0 : 0 ≤ k) (hk : k < 86400) :
    let t := civilTimeF s D k
    t.elapsedSec = D * 86400 + k ∧
    t.elapsedSec.tdiv 3600 * 3600 + (t.minute : Int) * 60 + (t.second : Int) = t.elapsedSec ∧
    t.elapsedSec.tdiv 60 = t.elapsedSec.tdiv 3600 * 60 + (t.minute : Int) ∧
    (t.elapsedSec.tdiv 3600) % 24 = (t.hour : Int) := by
  intro t
  have he : t.elapsedSec = D * 86400 + k := rfl
  have hm : (t.minute : Int) = k % 3600 / 60 := by show ((k % 3600 / 60).toNat : Int) = _; omega
  have hs : (t.second : Int) = k % 60 := by show ((k % 60).toNat : Int) = _; omega
  have hh : (t.hour : Int) = k / 3600 := by show ((k / 3600).toNat : Int) = _; omega
  have hpos : 0 ≤ D * 86400 + k := by omega
  rw [he, hm, hs, hh, Int.tdiv_eq_ediv_of_nonneg hpos, Int.tdiv_eq_ediv_of_nonneg hpos]
  refine ⟨rfl, ?_, ?_, ?_⟩ <;> omega

/-! ## accuracy of the RENDERED text: digit preservation through printNumberLiteral -/

/-- handleDigitsLiteral's slices tile the pre-formatted text: for every token list with at least one
placeholder token (`0`, `#`, `?` runs of any lengths, any literals in between) and every text, the
concatenated emissions are the text itself — nothing dropped, duplicated or reordered -/
theorem digits_preserved (items : List Tok) (text : Str) (h : items.any isPlaceholder = true) :
    emitted items text = text :=
  emitted_eq_text items text h

/-- … hence the digits and the decimal point of the final string are those of the pre-formatted
text (minus sign, digit-free literals, colours, alignment in between) -/
theorem rendered_digits (items : List Tok) (up : Bool) (text : Str)
    (hph : items.any isPlaceholder = true) (hpl : PlainLits items) :
    digitsOf (printNumberLiteral items up text) = digitsOf text :=
  printNumberLiteral_digits items up text hph hpl

/-- the thousands loop changes no digit -/
theorem comma_digits (s : Str) (f : Bool) : digitsOf (commaLoop f s) = digitsOf s :=
  commaLoop_digits s f

/-- Accuracy, thousands separator, the split at the decimal point (round 5): for a point-free
integer part `p` and fraction `q`, printCommaSep groups `p` only and appends `.q` untouched … -/
theorem comma_sep_split (p q : Str) (hp : '.' ∉ p) (hq : '.' ∉ q) :
    printCommaSep p = commaLoop true p ∧
    printCommaSep (p ++ '.' :: q) = commaLoop true p ++ '.' :: q :=
  ⟨printCommaSep_no_point p hp, printCommaSep_point p q hp hq⟩

/-- … so for EVERY text with at most one decimal point (all that `%.*f` produces) the whole
function, not only its integer loop, keeps the digits and the point … -/
theorem comma_sep_digits (text : Str) (h : text.count '.' ≤ 1) :
    digitsOf (printCommaSep text) = digitsOf text :=
  printCommaSep_digits text h

/-- … and deleting the separators gives the input back, byte for byte. -/
theorem comma_sep_preserves_text (text : Str) (h : text.count '.' ≤ 1) (hc : ∀ c ∈ text, c ≠ ',') :
    (printCommaSep text).filter (· ≠ ',') = text :=
  printCommaSep_strip text h hc

/-- the hypothesis is needed and satisfiable: with a second point the code (`len(subStr) == 2`)
drops everything after the integer part; with one point nothing is lost (both on the `comma`
transcript: `s`, `s.25`, `s.1.2` for every length 0..48) -/
theorem comma_sep_second_point_dropped :
    printCommaSep (bs "1234.5.6") = bs "1,234" ∧
    digitsOf (printCommaSep (bs "1234.5.6")) ≠ digitsOf (bs "1234.5.6") ∧
    (bs "1234.5").count '.' ≤ 1 := by decide +kernel

theorem percents_no_digits (n : Nat) : digitsOf (percents n) = [] := by
  induction n with
  | zero => rfl
  | succ k ih =>
    unfold percents at ih ⊢
    rw [List.replicate_succ]
    show digitsOf (['%'] ++ List.replicate k '%') = []
    rw [digitsOf_append, ih]; decide

/-- round_error_bound for the rendered text, and the exact class of (value, code) pairs for which it
holds on the current code: the selected section has a placeholder, digit-free literals, no
fraction (`/`), denominator or switch token, no exponent token, no thousands separator, and the value does NOT take the
big-number path (`isNum ∧ precision > 15 ∧ intLen+fracLen > 15`: there the digits are those of the
shortest rendering rounded half away from zero, see `bignumber_rendered`; the percent count of that path is
the remaining open finding).  Then numberHandler returns a string whose digits and point
are exactly those of `Sprintf("%0w.{d}f")` of the number layer — percent scaling included in
`fixed pct d` — so with the exact layer they are the zero-padded digits of the integer `k` of
`round_error_bound_exact`. -/
theorem round_error_bound_rendered (items : List Tok) (value : Str) (up : Bool) (n : NumIn)
    (hph : items.any isPlaceholder = true) (hpl : PlainLits items)
    (hun : hasUnmodelled items = false)
    (hsci : (getConf items).useSci = false) (hcomma : (getConf items).useCommaSep = false)
    (hfrac : (getConf items).useFraction = false)
    (hbig : ¬ (n.isNum = true ∧ n.precision > bigPrecision ∧
        (partLen (getConf items) n.absShort).1 + (partLen (getConf items) n.absShort).2 > bigLen)) :
    ∃ s, numberHandler items value up n = .ok s ∧
      digitsOf s = digitsOf (padLeft
        ((partLen (getConf items) n.absShort).1 + (partLen (getConf items) n.absShort).2 +
          (if (partLen (getConf items) n.absShort).2 > 0 then 1 else 0))
        (n.fixed (getConf items).percent (partLen (getConf items) n.absShort).2)) := by
  unfold numberHandler
  simp only [hun, hfrac, Bool.false_eq_true, if_false]
  have hb : ¬ (n.isNum = true ∧ n.precision > bigPrecision ∧
      (partLen (getConf items) n.absShort).1 + (partLen (getConf items) n.absShort).2 > bigLen ∧ (!(getConf items).useSci) = true) := by
    intro h; exact hbig ⟨h.1, h.2.1, h.2.2.1⟩
  simp only [hsci, hcomma, Bool.false_eq_true, if_false]
  rw [hsci] at hb
  rw [if_neg hb]
  refine ⟨_, rfl, ?_⟩
  rw [rendered_digits _ _ _ hph hpl, digitsOf_append, percents_no_digits, List.append_nil]

/-- round_error_bound for the rendered text of THOUSANDS-SEPARATED codes (round 5, second wave): the
same class as `round_error_bound_rendered` with a ThousandsSeparator token in the section.  The only
extra hypothesis is about the number layer (a parameter): its `%.{d}f` text has at most one decimal
point — proved for the exact layer below (`exact_layer_one_point`).  Then the separators and the
split at the point (`comma_sep_digits`) change no digit: the rendered digits and point are still those
of `Sprintf("%0w.{d}f")`. -/
theorem round_error_bound_rendered_comma (items : List Tok) (value : Str) (up : Bool) (n : NumIn)
    (hph : items.any isPlaceholder = true) (hpl : PlainLits items)
    (hun : hasUnmodelled items = false)
    (hsci : (getConf items).useSci = false) (hcomma : (getConf items).useCommaSep = true)
    (hfrac : (getConf items).useFraction = false)
    (hbig : ¬ (n.isNum = true ∧ n.precision > bigPrecision ∧
        (partLen (getConf items) n.absShort).1 + (partLen (getConf items) n.absShort).2 > bigLen))
    (hone : (n.fixed (getConf items).percent (partLen (getConf items) n.absShort).2).count '.' ≤ 1) :
    ∃ s, numberHandler items value up n = .ok s ∧
      digitsOf s = digitsOf (padLeft
        ((partLen (getConf items) n.absShort).1 + (partLen (getConf items) n.absShort).2 +
          (if (partLen (getConf items) n.absShort).2 > 0 then 1 else 0))
        (n.fixed (getConf items).percent (partLen (getConf items) n.absShort).2)) := by
  unfold numberHandler
  simp only [hun, hfrac, Bool.false_eq_true, if_false]
  have hb : ¬ (n.isNum = true ∧ n.precision > bigPrecision ∧
      (partLen (getConf items) n.absShort).1 + (partLen (getConf items) n.absShort).2 > bigLen ∧ (!(getConf items).useSci) = true) := by
    intro h; exact hbig ⟨h.1, h.2.1, h.2.2.1⟩
  simp only [hsci, hcomma, Bool.false_eq_true, if_false, if_true]
  rw [hsci] at hb
  rw [if_neg hb]
  refine ⟨_, rfl, ?_⟩
  rw [rendered_digits _ _ _ hph hpl, digitsOf_append, percents_no_digits, List.append_nil]
  exact comma_sep_digits _ (by rw [padLeft_count_point]; exact hone)

/-- the layer hypothesis of `round_error_bound_rendered_comma` holds for the exact layer, for every
value, percent count and number of decimals (zero padding adds no point either) -/
theorem exact_layer_one_point (x : Exact.Dec) (pct d w : Nat) :
    ((Exact.numIn x).fixed pct d).count '.' ≤ 1 ∧
    (padLeft w ((Exact.numIn x).fixed pct d)).count '.' ≤ 1 := by
  have h : ((Exact.numIn x).fixed pct d).count '.' ≤ 1 := renderFixed_one_point _ d
  exact ⟨h, by rw [padLeft_count_point]; exact h⟩

/-- … so with the exact layer the thousands-separated rendering carries exactly the digits of the
integer `k` of `round_error_bound_exact` printed with `d` decimals: no layer hypothesis left -/
theorem round_error_bound_rendered_comma_exact (items : List Tok) (value : Str) (up : Bool)
    (x : Exact.Dec)
    (hph : items.any isPlaceholder = true) (hpl : PlainLits items)
    (hun : hasUnmodelled items = false)
    (hsci : (getConf items).useSci = false) (hcomma : (getConf items).useCommaSep = true)
    (hfrac : (getConf items).useFraction = false)
    (hbig : ¬ ((Exact.numIn x).isNum = true ∧ (Exact.numIn x).precision > bigPrecision ∧
        (partLen (getConf items) (Exact.numIn x).absShort).1 +
          (partLen (getConf items) (Exact.numIn x).absShort).2 > bigLen)) :
    ∃ s, numberHandler items value up (Exact.numIn x) = .ok s ∧
      digitsOf s = digitsOf (padLeft
        ((partLen (getConf items) (Exact.numIn x).absShort).1 +
          (partLen (getConf items) (Exact.numIn x).absShort).2 +
          (if (partLen (getConf items) (Exact.numIn x).absShort).2 > 0 then 1 else 0))
        (Exact.renderFixed
          (Exact.scaledRound x (getConf items).percent (partLen (getConf items) (Exact.numIn x).absShort).2)
          (partLen (getConf items) (Exact.numIn x).absShort).2)) :=
  round_error_bound_rendered_comma items value up (Exact.numIn x) hph hpl hun hsci hcomma hfrac hbig
    (exact_layer_one_point x _ _ 0).1

/-- non-vacuity of the token-list hypotheses: `#,##0.00` satisfies them -/
theorem comma_code_witness :
    let items : List Tok := [⟨"HashPlaceHolder", ['#'], []⟩, ⟨"ThousandsSeparator", [','], []⟩,
      ⟨"HashPlaceHolder", bs "##", []⟩, ⟨"ZeroPlaceHolder", ['0'], []⟩, ⟨"DecimalPoint", ['.'], []⟩,
      ⟨"ZeroPlaceHolder", bs "00", []⟩]
    items.any isPlaceholder = true ∧ PlainLits items ∧ hasUnmodelled items = false ∧
    (getConf items).useSci = false ∧ (getConf items).useCommaSep = true ∧
    (getConf items).useFraction = false := by
  refine ⟨by decide, ?_, by decide, by decide, by decide, by decide⟩
  intro t ht
  simp only [List.mem_cons, List.not_mem_nil, or_false] at ht
  rcases ht with h | h | h | h | h | h <;> subst h <;> exact ⟨by decide, by decide⟩

/-- the complementary class: on the big-number path (no exponent token) the digits and the point of
the final string are those of printBigNumber's rounded decimal string -/
theorem bignumber_rendered (items : List Tok) (value : Str) (up : Bool) (n : NumIn)
    (hph : items.any isPlaceholder = true) (hpl : PlainLits items)
    (hun : hasUnmodelled items = false) (hsci : (getConf items).useSci = false)
    (hfrac : (getConf items).useFraction = false)
    (hbig : n.isNum = true ∧ n.precision > bigPrecision ∧
        (partLen (getConf items) n.absShort).1 + (partLen (getConf items) n.absShort).2 > bigLen) :
    ∃ s, numberHandler items value up n = .ok s ∧
      digitsOf s = digitsOf (printBigNumber (getConf items) n (partLen (getConf items) n.absShort).2) := by
  unfold numberHandler
  simp only [hun, hfrac, Bool.false_eq_true, if_false]
  have hb : (n.isNum = true ∧ n.precision > bigPrecision ∧
      (partLen (getConf items) n.absShort).1 + (partLen (getConf items) n.absShort).2 > bigLen ∧ (!(getConf items).useSci) = true) := by
    refine ⟨hbig.1, hbig.2.1, hbig.2.2, ?_⟩; rw [hsci]; rfl
  rw [if_pos hb]
  exact ⟨_, rfl, rendered_digits _ _ _ hph hpl⟩

/-- the exact layer plugged in: the rendered digits are those of `k` printed with `d` decimals,
`k` within half a unit of `|x|·100^pct·10^d` (`round_error_bound_exact`) -/
theorem exact_layer_fixed (x : Exact.Dec) (pct d : Nat) :
    (Exact.numIn x).fixed pct d = Exact.renderFixed (Exact.scaledRound x pct d) d := rfl

/-! ## Options: LongDatePattern / LongTimePattern behind the system date/time tags -/

/-- totality with options: if the data predicate holds for the inputs, it holds with the nested
renderings plugged in, so `format` under Options has no panic outcome either -/
theorem format_total_options (secs : List Sec) (value : Str) (cn : Bool) (n : NumIn) (d : DateIn)
    (ld lt : Option (List Sec)) (h : DateOK d) :
    format secs value cn n (applyOptions d ld lt value cn n) ≠ .panic := by
  obtain ⟨h0, h1, hl, _⟩ := h
  have hd0 : DateOK { d with sysDate := none, sysTime := none } := ⟨h0, h1, hl, by simp [NestedOK]⟩
  apply format_ne_panic
  refine ⟨h0, h1, hl, ?_, ?_⟩
  · unfold applyOptions
    cases ld with
    | none => simp
    | some s => simp only [Option.map_some]; intro he; exact format_ne_panic s value cn n _ hd0 (Option.some.inj he)
  · unfold applyOptions
    cases lt with
    | none => simp
    | some s => simp only [Option.map_some]; intro he; exact format_ne_panic s value cn n _ hd0 (Option.some.inj he)

/-- `[$-F800]…` (and x-sysdate, 1010000) as nfp tokenises the bracket -/
def sysDateTok : Tok := ⟨"CurrencyLanguage", bs "[$-F800]", [⟨"LanguageInfo", ['F','8','0','0'], true⟩]⟩

/-- a cell format that starts with the system long-date tag is rendered by the nested call, whatever
follows the tag: the result is `format LongDatePattern` on the SAME value and the SAME date system -/
theorem options_system_tag (rest : List Tok) (value : Str) (ms : Bool) (d : DateIn) (o : Out)
    (h : d.sysDate = some o) :
    dateTimeHandler (sysDateTok :: rest) value ms d = o := by
  unfold dateTimeHandler
  simp only []
  have hen : enum (sysDateTok :: rest) = (0, sysDateTok) :: ((List.range (rest.length + 1)).zip (sysDateTok :: rest)).tail := by
    unfold enum
    simp [List.range_succ_eq_map]
  rw [hen]
  have hc : currencyLanguageO true d.sysTime.isSome sysDateTok.parts [] [] = (.changed true, [], []) := by
    cases d.sysTime.isSome <;> decide +kernel
  split <;> (unfold dtLoop; simp [sysDateTok, h] at hc ⊢; simp [hc])

/-! ## glue: cell style → number format id → code → `format` (clause "every number-format code
(built-in ids, locale variants, arbitrary custom codes)") -/

open XlModel.NumFmt.Glue in
/-- the literals of isLangNumFmt, langNumFmtFunc*, applyBuiltInNumFmt and the CultureName ordinals
the resolution model reads -/
theorem glue_facts_ok :
    Facts.C10.isLangNumFmtInts = [27, 36, 50, 62, 67, 81] ∧
    Facts.C10.langEnUSInts = [32, 35, 27, 31, 50, 58] ∧
    Facts.C10.langEnUSStrs = ["M/d/yy", "h:mm:ss", "", "", ""] ∧
    Facts.C10.langJaJPInts = [30, 32, 33] ∧ Facts.C10.langKoKRInts = [30, 32, 33] ∧
    Facts.C10.langZhCNInts = [30, 32, 33] ∧ Facts.C10.langZhTWInts = [30, 32, 33] ∧
    Facts.C10.applyBuiltInInts = [14, 22] ∧ Facts.C10.applyBuiltInStrs = ["", "%s hh:mm"] ∧
    Facts.C10.cultureNames = ["CultureNameUnknown", "CultureNameEnUS", "CultureNameJaJP", "CultureNameKoKR",
      "CultureNameZhCN", "CultureNameZhTW"] := by
  decide

/-- a cell without a style (index 0) is read as stored -/
theorem resolve_unstyled (customs : List (Nat × Str)) (id : Nat) (o : Glue.GOpts) :
    Glue.resolve customs 0 id o = none := by
  simp [Glue.resolve]

/-- a custom `<numFmt>` with the id wins over every built-in or language code, options included -/
theorem resolve_custom_first (customs : List (Nat × Str)) (s id : Nat) (o : Glue.GOpts) (c : Str)
    (hs : s ≠ 0) (hc : customs.lookup id = some c) : Glue.resolve customs s id o = some c := by
  simp [Glue.resolve, hs, hc]

/-- without a custom code a built-in id resolves to its table code, except that ids 14 and 22 follow
Options.ShortDatePattern when it is set -/
theorem resolve_builtin (customs : List (Nat × Str)) (s id : Nat) (o : Glue.GOpts) (c : String)
    (hs : s ≠ 0) (hc : customs.lookup id = none) (hb : Facts.C10.builtInNumFmt.lookup id = some c) :
    Glue.resolve customs s id o =
      some (if o.short ≠ [] then (if id = 14 then o.short else if id = 22 then o.short ++ bs " hh:mm" else bytesOf c)
            else bytesOf c) := by
  have h14 : Glue.lit Facts.C10.applyBuiltInInts 0 = 14 := by decide
  have h22 : Glue.lit Facts.C10.applyBuiltInInts 1 = 22 := by decide
  have hsf : (Glue.slit Facts.C10.applyBuiltInStrs 1).drop 2 = bs " hh:mm" := by decide +kernel
  simp only [Glue.resolve, hs, if_false, hc, Glue.builtInCode, hb, Option.map_some, Glue.applyShort, h14, h22, hsf]

/-- an id that is neither custom, nor built-in, nor a language id of the file's culture has no code:
the stored value is returned (fall-back) -/
theorem resolve_unknown_raw (customs : List (Nat × Str)) (s id : Nat) (o : Glue.GOpts)
    (hc : customs.lookup id = none) (hb : Facts.C10.builtInNumFmt.lookup id = none)
    (hl : Glue.isLangNumFmt id = false ∨ o.culture = 0 ∨ 6 ≤ o.culture) :
    Glue.resolve customs s id o = none := by
  unfold Glue.resolve
  split
  · rfl
  · simp only [hc, Glue.builtInCode, hb]
    rcases hl with hl | hl | hl
    · simp [hl]
    · simp [hl]
    · split
      · have : ¬ (o.culture = 1 ∨ o.culture = 2 ∨ o.culture = 3 ∨ o.culture = 4 ∨ o.culture = 5) := by omega
        split <;> simp_all
      · rfl

/-- id_resolves_to_code: reading a styled cell IS `format` of the resolved code (or the stored value
when there is none), so every theorem stated over codes covers built-in ids, language ids and custom
codes alike -/
theorem id_resolves_to_code (tok : Str → List Sec) (customs : List (Nat × Str)) (s id : Nat) (o : Glue.GOpts)
    (value : Str) (cn : Bool) (n : NumIn) (d : DateIn) :
    Glue.formatted tok customs s id o value cn n d =
      match Glue.resolve customs s id o with
      | none => .ok value
      | some code => format (tok code) value cn n d := rfl

/-- totality of formatted reading for every style, id, culture, pattern, tokeniser and value -/
theorem formatted_total (tok : Str → List Sec) (customs : List (Nat × Str)) (s id : Nat) (o : Glue.GOpts)
    (value : Str) (cn : Bool) (n : NumIn) (d : DateIn) (h : DateOK d) :
    Glue.formatted tok customs s id o value cn n d ≠ .panic := by
  unfold Glue.formatted
  split
  · simp
  · exact format_ne_panic _ _ _ _ _ h

/-- samples over the regenerated tables: id 14 under a short pattern, id 22, a zh-CN language id,
an EN-US language id with the default pattern, a language id without culture -/
theorem resolve_samples :
    Glue.resolve [] 1 14 ⟨0, bs "yyyy/m/d", []⟩ = some (bs "yyyy/m/d") ∧
    Glue.resolve [] 1 22 ⟨0, bs "yyyy/m/d", []⟩ = some (bs "yyyy/m/d hh:mm") ∧
    Glue.resolve [] 1 14 ⟨0, [], []⟩ = some (bs "mm-dd-yy") ∧
    Glue.resolve [] 1 27 ⟨1, [], []⟩ = some (bs "M/d/yy") ∧
    Glue.resolve [] 1 32 ⟨1, [], bs "hh:mm"⟩ = some (bs "hh:mm") ∧
    Glue.resolve [] 1 27 ⟨0, [], []⟩ = none ∧
    Glue.resolve [(14, bs "0.0")] 1 14 ⟨0, bs "yyyy/m/d", []⟩ = some (bs "0.0") := by
  decide +kernel

/-! ## the cell reader: normalisation of numeric text, then style → code → format -/

/-- the literals of getValueFrom the normalisation model reads (`precision > 15`, `'G', 15`) -/
theorem norm_facts_ok : Facts.C10.getValueFromInts = [0, 1, 64, 15, 15, 64] := by decide

/-- text that is not numeric reaches `format` as it is stored -/
theorem normalize_text (precision : Nat) (short g15 raw : Str) :
    Glue.normalize false precision short g15 raw = raw := by
  simp [Glue.normalize]

/-- numeric text of at most 15 digits is re-rendered as the shortest digits of its binary64 value;
beyond 15 digits as 15 significant digits -/
theorem normalize_numeric (precision : Nat) (short g15 raw : Str) :
    Glue.normalize true precision short g15 raw = if precision ≤ 15 then short else g15 := by
  have h : Glue.normPrecision = 15 := by decide
  unfold Glue.normalize
  rw [h]
  by_cases hp : precision ≤ 15
  · have : ¬ precision > 15 := by omega
    simp [hp, this]
  · have : precision > 15 := by omega
    simp [hp, this]

/-- an unstyled default-type cell reads as its normalised text -/
theorem read_unstyled (tok : Str → List Sec) (customs : List (Nat × Str)) (id : Nat) (o : Glue.GOpts)
    (isNum : Bool) (precision : Nat) (short g15 raw : Str) (n' : NumIn) (d : DateIn) :
    Glue.read tok customs 0 id o isNum precision short g15 raw n' d =
      .ok (Glue.normalize isNum precision short g15 raw) := by
  simp [Glue.read, Glue.formatted, Glue.resolve]

/-- GetCellValue of a default-type cell has no panic outcome for any stored text, style, id,
culture, patterns and tokeniser -/
theorem read_total (tok : Str → List Sec) (customs : List (Nat × Str)) (s id : Nat) (o : Glue.GOpts)
    (isNum : Bool) (precision : Nat) (short g15 raw : Str) (n' : NumIn) (d : DateIn) (h : DateOK d) :
    Glue.read tok customs s id o isNum precision short g15 raw n' d ≠ .panic :=
  formatted_total tok customs s id o _ true n' d h

/-- exact decimal layer of the 15-digit cut: a mantissa of `nd > 15` digits rounded to 15 of them is
within half a unit of the 15th significant digit (`q = 10^(nd-15)` units cut off) -/
theorem normalize_error_bound (m nd : Nat) (h : 15 < nd) :
    let q := 10 ^ (nd - 15)
    let k := Exact.roundScaled m ((15 : Int) - (nd : Int))
    2 * q * k ≤ 2 * m + q ∧ 2 * m < 2 * q * k + q := by
  intro q k
  have hq : 0 < q := Nat.pow_pos (by decide)
  have hk : k = (2 * m + q) / (2 * q) := by
    show Exact.roundScaled m ((15 : Int) - (nd : Int)) = _
    unfold Exact.roundScaled
    have hneg : ¬ ((15 : Int) - (nd : Int) ≥ 0) := by omega
    have he : (-((15 : Int) - (nd : Int))).toNat = nd - 15 := by omega
    simp only [hneg, if_false, he]
    rfl
  rw [hk]
  exact half_unit m q hq

/-- of two custom `<numFmt>` elements with the same id the first in document order is used, whatever
the built-in table says for that id -/
theorem resolve_custom_duplicate (id s : Nat) (c1 c2 : Str) (rest : List (Nat × Str)) (o : Glue.GOpts)
    (hs : s ≠ 0) : Glue.resolve ((id, c1) :: (id, c2) :: rest) s id o = some c1 := by
  simp [Glue.resolve, hs, List.lookup]

/-! ## fraction formats (`# ?/?`): what fractionHandler / newRat / continuedFraction compute -/

/-- the literals of the search loop (5000 iterations, three blanks for a zero fraction) -/
theorem fraction_facts_ok :
    Facts.C10.fractionHandlerInts = [0, 5000, 0, 3, 64] ∧ Facts.C10.continuedFractionInts = [0, 1, 1, 1] ∧
    Facts.C10.newRatInts = [1] := by decide

/-- every truncated continued fraction the search evaluates is a proper fraction in lowest terms
with a positive denominator (so printing numerator and denominator as computed is what big.Rat's
normalised `String()` prints) -/
theorem cf_lowest_terms (terms : List Nat) :
    Nat.gcd (cfEval terms).1 (cfEval terms).2 = 1 ∧ 0 < (cfEval terms).2 ∧ (cfEval terms).1 ≤ (cfEval terms).2 := by
  induction terms with
  | nil => decide
  | cons a rest ih =>
    obtain ⟨hg, hpos, hle⟩ := ih
    simp only [cfEval]
    refine ⟨?_, ?_, ?_⟩
    · rw [Nat.gcd_rec]
      have hm : ((a + 1) * (cfEval rest).2 + (cfEval rest).1) % (cfEval rest).2 = (cfEval rest).1 % (cfEval rest).2 := by
        rw [Nat.add_comm, Nat.add_mul_mod_self_right]
      rw [hm, ← Nat.gcd_rec, Nat.gcd_comm]; exact hg
    · have : (cfEval rest).2 ≤ (a + 1) * (cfEval rest).2 := Nat.le_mul_of_pos_left _ (by omega)
      omega
    · have : (cfEval rest).2 ≤ (a + 1) * (cfEval rest).2 := Nat.le_mul_of_pos_left _ (by omega)
      omega

/-- the exact property the search satisfies: the string it returns is the one it started with, or
it prints a CONVERGENT of the continued fraction (some prefix of the terms) whose denominator fits the
digit budget of the placeholder — three blanks when that convergent is zero.  (Not: the closest
fraction within the budget, see `finding_fraction_not_closest`.) -/
theorem fraction_is_convergent_within_budget (terms : List Nat) (ph : Nat) :
    ∀ (fuel i : Nat) (rat : Str), fracLoop terms ph i fuel rat = rat ∨
      ∃ k, (itoa (cfEval (terms.take k)).2).length ≤ ph ∧
        fracLoop terms ph i fuel rat =
          (if (cfEval (terms.take k)).1 = 0 then [' ', ' ', ' ']
           else itoa (cfEval (terms.take k)).1 ++ '/' :: itoa (cfEval (terms.take k)).2) := by
  intro fuel
  induction fuel with
  | zero => intro i rat; left; rfl
  | succ f ih =>
    intro i rat
    unfold fracLoop
    dsimp only
    split
    · rename_i hfit
      rcases ih (i + 1) (if (cfEval (terms.take (i - 1))).1 = 0 then [' ', ' ', ' ']
          else itoa (cfEval (terms.take (i - 1))).1 ++ '/' :: itoa (cfEval (terms.take (i - 1))).2) with h | ⟨k, hk, he⟩
      · right; exact ⟨i - 1, hfit, h⟩
      · right; exact ⟨k, hk, he⟩
    · left; rfl

/-- terms 7, 15, 1, 25 of 0.14159 (stored as a-1) -/
def piTerms : List Nat := [6, 14, 0, 24]

/-- deviation from Excel (open finding `fraction:not-closest`): for 3.14159 under `# ??/??` the search
stops at the convergent 1/7 because the next convergent 15/106 has three digits, although 14/99 fits
two digits and is closer (|14/99 − x| < |1/7 − x| for x = 14159/100000; Excel shows 3 14/99) -/
theorem finding_fraction_not_closest :
    fractionHandler piTerms ⟨"DigitalPlaceHolder", ['?', '?'], []⟩ = bs "1/7" ∧
    (14159 * 99 - 14 * 100000) * 7 < (1 * 100000 - 14159 * 7) * 99 := by
  constructor
  · decide +kernel
  · decide

/-- deviation (open finding `fraction:improper-concatenated`): a fraction code without an integer
placeholder (`?/?`) prints the integer digits through the numerator placeholder and then the proper
fraction: 3.14159 renders "31/7" (Excel: 22/7) -/
theorem finding_improper_fraction_concatenated :
    format [⟨"Positive", [⟨"DigitalPlaceHolder", ['?'], []⟩, ⟨"Fraction", ['/'], []⟩, ⟨"DigitalPlaceHolder", ['?'], []⟩]⟩]
      (bs "3.14159") true
      { bigLayer "3.14159" "314.159" 6 with cfPred := piTerms, fixedFloor := fun _ _ => ['3'] } noDate
      = .ok (bs "31/7") := by
  decide +kernel

/-- the intended use: `# ?/?` on 1.5 renders "1 1/2" -/
theorem fraction_sample :
    format [⟨"Positive", [⟨"HashPlaceHolder", ['#'], []⟩, ⟨"Literal", [' '], []⟩, ⟨"DigitalPlaceHolder", ['?'], []⟩,
        ⟨"Fraction", ['/'], []⟩, ⟨"DigitalPlaceHolder", ['?'], []⟩]⟩]
      (bs "1.5") true { bigLayer "1.5" "150" 2 with cfPred := [1], fixedFloor := fun _ _ => ['1'] } noDate
      = .ok (bs "1 1/2") := by
  decide +kernel

end XlModel.Props.C10
