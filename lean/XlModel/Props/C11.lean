import XlModel.Lemmas.Stream
namespace XlModel.Props.C11
open XlModel XlModel.Stream

theorem write_appends (w : BW) (s : Bytes) : (w.write s).abs = w.abs ++ s := abs_write w s

end XlModel.Props.C11
