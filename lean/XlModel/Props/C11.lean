import XlModel.Lemmas.Stream2
import XlModel.Lemmas.StreamTree
import XlModel.Lemmas.StreamCols
/-!
C11 — StreamWriter output is equivalent to the in-memory API.

The theorems are about `XlModel.Stream` (transcription of stream.go, see that
file for what is external) and hold for every spill threshold, every call
sequence and every row content; nothing is bounded. `x : Ext` carries the
external `bstrMarshal`/`bstrUnmarshal`; where a reader is involved the law
`ExtLaw x` (`unbstr (bstr s) = s`) is an explicit hypothesis.
-/
namespace XlModel.Props.C11
open XlModel XlModel.Stream XlModel.Ref

/-! ## "The result does not depend on whether the stream stayed in memory or spilled" -/

/-- Buffered writer: whatever the threshold and whether or not a temp file can be
created, `Write`, `Sync`, `Flush` and `Reader` keep `abs = tmp ++ buf` equal to
the concatenation of everything written; `Reader` yields exactly that. -/
theorem bw_content (cfg : Cfg) (w : BW) (s : Bytes) :
    (w.write s).abs = w.abs ++ s ∧ (w.sync cfg).abs = w.abs ∧ w.flush.abs = w.abs ∧
    w.reader.2 = w.abs ∧ w.reader.1.abs = w.abs :=
  ⟨abs_write w s, abs_sync cfg w, abs_flush w, (reader_abs w).1, (reader_abs w).2⟩

/-- The sizes-only machine used for the large-volume transcript is an exact abstraction
of the buffered writer (so a transcript agreement on sizes is an agreement on the spill rule). -/
theorem bw_sizes_exact (cfg : Cfg) (w : BW) (s : Bytes) :
    (w.write s).sizes = w.sizes.write s.length ∧ (w.sync cfg).sizes = w.sizes.sync cfg ∧
    w.flush.sizes = w.sizes.flush :=
  ⟨sizes_write w s, sizes_sync cfg w, sizes_flush w⟩

/-- **spill_independent.** For every two configurations (any spill thresholds, temp file
available or not), every starting state and every call sequence (SetRow, MergeCell,
SetColWidth, SetColStyle, SetPanes, Reader, Flush in any order): every call returns the same
result, and the final states have the same byte content, row counter, flags, merge list,
column styles and accepted rows. The spill point is unobservable. -/
theorem spill_independent (x : Ext) (c1 c2 : Cfg) (s : SW) (ops : List Op) :
    (run x c1 s ops).2 = (run x c2 s ops).2 ∧
    (run x c1 s ops).1.raw.abs = (run x c2 s ops).1.raw.abs ∧
    (run x c1 s ops).1.rows = (run x c2 s ops).1.rows ∧
    (run x c1 s ops).1.sheetWritten = (run x c2 s ops).1.sheetWritten ∧
    (run x c1 s ops).1.mergeCells = (run x c2 s ops).1.mergeCells ∧
    (run x c1 s ops).1.log = (run x c2 s ops).1.log := by
  have h := sim_run x c1 c2 ops (Sim.refl s)
  obtain ⟨⟨h1, h2, h3, _, h5, _, _, _, h9, _⟩, hr⟩ := h
  exact ⟨hr, h1, h2, h3, h5, h9⟩

/-- The threshold the model runs with is the regenerated `StreamChunkSize`, whatever its value
(by `spill_independent` the value is unobservable, so the literal is deliberately not pinned). -/
theorem code_threshold : Cfg.code.chunk = Facts.StreamChunkSize ∧ Cfg.code.tmpOK = true := ⟨rfl, rfl⟩

/-! ## "rows submitted out of order or outside the sheet limits are rejected without damaging what was already written" -/

/-- **rejected_row_noop.** A SetRow call that returns an error — bad reference, row not above
the last written one, height or outline level over the limit, a cell past column XFD, rich text
over the length limit — leaves the whole stream writer state unchanged: buffer, temp file,
row counter, `sheetWritten`, merge list. (Holds for the code after commit `fix: StreamWriter.SetRow
leaves the stream unchanged when it rejects a row`; before it, DESIGN §6's `SetRow("XFD2", {1,2})`
left `<row r="2"><c r="XFD2">…` unclosed in the buffer.) -/
theorem rejected_row_noop (x : Ext) (cfg : Cfg) (s : SW) (cell : Bytes) (values : List Item) (o : RowOpts)
    (e : E) (h : (setRow x cfg s cell values o).2 = some e) : (setRow x cfg s cell values o).1 = s :=
  setRow_rejected x cfg s cell values o e h

/-- The order guard: a row whose number is not above the last accepted one is rejected. -/
theorem out_of_order_rejected (x : Ext) (cfg : Cfg) (s : SW) (cell : Bytes) (values : List Item) (o : RowOpts)
    (col row : Int) (hd : cellNameToCoordinates cell = .ok (col, row)) (hle : row ≤ s.rows) :
    (setRow x cfg s cell values o).2 = some .order := by
  unfold setRow; simp [hd, hle]

/-- The limits: height above `MaxRowHeight` points and outline level above 7 are rejected. -/
theorem over_limit_rejected (o : RowOpts)
    (h : o.h4 > 4 * (Facts.MaxRowHeight : Int) ∨ o.outline > (Facts.C11.MaxOutlineLevel : Int)) :
    ∃ e, marshalAttrs o = .error e := by
  unfold marshalAttrs
  by_cases h1 : o.h4 > 4 * (Facts.MaxRowHeight : Int)
  · exact ⟨.height, by simp [h1]⟩
  · have h2 : o.outline > (Facts.C11.MaxOutlineLevel : Int) := by omega
    exact ⟨.outline, by simp [h1, h2]⟩

/-- An accepted SetRow appends exactly: the pre-data (once, on the first accepted row) and one
complete `<row>…</row>` element; the row counter becomes that row, which is above the old one. -/
theorem accepted_row_appends (x : Ext) (cfg : Cfg) (s : SW) (cell : Bytes) (values : List Item) (o : RowOpts)
    (h : (setRow x cfg s cell values o).2 = none) :
    ∃ col row attrs cells,
      cellNameToCoordinates cell = .ok (col, row) ∧ s.rows < row ∧
      rowCells x s.colStyles o.style row col values = .ok cells ∧
      (setRow x cfg s cell values o).1.rows = row ∧
      (setRow x cfg s cell values o).1.raw.abs =
        s.raw.abs ++ (if s.sheetWritten then [] else s.pre)
          ++ renderRow x { row := row, attrs := attrs, cells := cells } := by
  obtain ⟨col, row, attrs, cells, h1, h2, _, h4, h5, _, _, _, _, h9⟩ := setRow_accepted x cfg s cell values o h
  exact ⟨col, row, attrs, cells, h1, h2, h4, h5, h9⟩

/-- **Order guard, globally.** After any call sequence on a new stream writer the accepted rows
are strictly ascending (pairwise), whatever was rejected in between. -/
theorem rows_strictly_ascending (x : Ext) (cfg : Cfg) (prolog pre : Bytes) (n : Int) (ops : List Op) :
    ((run x cfg (SW.init prolog pre n) ops).1.log).Pairwise (fun a b => a.row < b.row) :=
  (asc_run x cfg ops (SW.init prolog pre n) ⟨by simp [SW.init], by simp [SW.init]⟩).1

/-- **Shape of the saved part.** For any call sequence without Flush followed by one Flush, the
bytes of the worksheet part are: prolog, the pre-data as it was when first written, exactly the
accepted rows in order, then `</sheetData>` + epilog. Rejected calls contribute nothing. -/
theorem stream_output (x : Ext) (cfg : Cfg) (prolog pre : Bytes) (n : Int) (ops : List Op) (e : Epilog)
    (hnf : ∀ op ∈ ops, op.isFlush = false) :
    let s := (run x cfg (SW.init prolog pre n) ops).1
    (run x cfg (SW.init prolog pre n) (ops ++ [.flush e])).1.raw.abs =
      prolog ++ (if s.sheetWritten then s.preW else s.pre) ++ s.log.flatMap (renderRow x)
        ++ epilogBytes (writeSheetData s) e := by
  intro s
  have hout : Out x prolog s :=
    out_run x cfg prolog ops (SW.init prolog pre n) hnf ⟨by simp [SW.init, BW.abs], by simp [SW.init]⟩
  rw [run_append]
  show (Stream.flush s e).raw.abs = _
  rw [abs_flushOp, hout.1]
  cases hb : s.sheetWritten with
  | true => simp
  | false => simp [hout.2 hb]

/-! ## "reads back, cell for cell, the same stored values, value kinds, formulas and explicitly assigned styles" -/

/-- Cell level (`writeCell` vs. the in-memory setters): the record SetRow builds for a non-nil
element, read back (kind class from `f`/`t`, value from `v` or the inline string, formula,
style), is what `SetCellValue` + `SetCellFormula` + `SetCellStyle` store at that position —
including the style inherited from the row and otherwise from the cell's *own* column.
(Holds after commit `fix: StreamWriter.SetRow inherits the column style of each cell's own
column`; before it the style of the row's first column was used for every cell.) -/
theorem cell_eq_memory (x : Ext) (hx : ExtLaw x) (cs : ColStyles) (rowStyle : Int) (ref : Bytes) (col : Int)
    (it : Item) (hskip : it.isSkip = false) (hok : it.ok) (c : XC)
    (h : mkCell x cs rowStyle ref col it = .ok c) :
    some (readCell x c) = Spec.cellObs cs rowStyle col it :=
  (Stream.cell_eq_memory x hx cs rowStyle ref col it hskip hok c h).2

/-- **time.Time values.** `SetRow` stores a time as `SetCellValue` does (same serial text — `timeToExcelTime` is C19's
model and external here — kind number, or the RFC 3339 text when the serial is not positive; same formula); the style is
the same whenever the cell has one (its own, the row's or its column's). Only a time stored as a number in a cell without
any style differs, by design of the two APIs: the stream writer gives it the `NumFmt 22` style (`nf`), the in-memory API
the format `getTimeNumFmt` picks (`nfMem`: 14, 17 or 22) — the property asks for *explicitly assigned* styles only.
(With `nf = nfMem` the general `cell_eq_memory` / `stream_eq_memory` cover time values like every other kind.) -/
theorem time_cell_eq_memory (x : Ext) (hx : ExtLaw x) (cs : ColStyles) (rowStyle : Int) (ref : Bytes) (col : Int)
    (isNum : Bool) (text : Bytes) (nf nfMem : Int) (htext : text ≠ []) (wrap : Option (Int × Bytes)) (c : XC)
    (h : mkCell x cs rowStyle ref col
      (match wrap with | none => .plain (.time isNum text nf nfMem) | some w => .cell w.1 w.2 (.time isNum text nf nfMem)) = .ok c) :
    ∃ o, Spec.cellObs cs rowStyle col
        (match wrap with | none => .plain (.time isNum text nf nfMem) | some w => .cell w.1 w.2 (.time isNum text nf nfMem)) = some o ∧
      (readCell x c).kind = o.kind ∧ (readCell x c).value = o.value ∧ (readCell x c).formula = o.formula ∧
      ((readCell x c).style = o.style ∨ (isNum = true ∧ (readCell x c).style = nf ∧ o.style = nfMem)) := by
  cases wrap with
  | none =>
    have h' : mkCell x cs rowStyle ref col (.plain (.time isNum text nf nf)) = .ok c := h
    have := (Stream.cell_eq_memory x hx cs rowStyle ref col (.plain (.time isNum text nf nf)) (by simp [Item.isSkip])
      (show Val.ok (.time isNum text nf nf) from ⟨htext, rfl⟩) c h').2
    simp only [Spec.cellObs, Option.some.injEq] at this
    refine ⟨_, rfl, ?_⟩
    rw [this]
    generalize (if rowStyle ≠ 0 then rowStyle else colStyleAt cs col) = S
    simp only [Spec.valObs, Spec.valStyle]
    refine ⟨trivial, trivial, trivial, ?_⟩
    cases isNum with
    | false => left; rfl
    | true =>
      by_cases hs : S = 0
      · right; simp [hs]
      · left; simp [hs]
  | some w =>
    have h' : mkCell x cs rowStyle ref col (.cell w.1 w.2 (.time isNum text nf nf)) = .ok c := h
    have := (Stream.cell_eq_memory x hx cs rowStyle ref col (.cell w.1 w.2 (.time isNum text nf nf)) (by simp [Item.isSkip])
      (show Val.ok (.time isNum text nf nf) from ⟨htext, rfl⟩) c h').2
    simp only [Spec.cellObs, Option.some.injEq] at this
    refine ⟨_, rfl, ?_⟩
    rw [this]
    generalize (if w.1 > 0 then w.1 else if rowStyle ≠ 0 then rowStyle else colStyleAt cs col) = S
    simp only [Spec.valObs, Spec.valStyle]
    refine ⟨trivial, trivial, trivial, ?_⟩
    cases isNum with
    | false => left; rfl
    | true =>
      by_cases hs : S = 0
      · right; simp [hs]
      · left; simp [hs]

/-- **time.Duration values.** `SetRow` stores a duration as `SetCellValue` does (the same `FormatFloat(seconds/86400)`
text, kind number, same formula) and gives it whatever style the cell has; the in-memory API additionally assigns a default
duration format (`nfMem`: 20, 21 or 46) to a cell without any style, the stream writer assigns none — again outside
"explicitly assigned styles". (With `nfMem = 0` the general theorems cover durations.) -/
theorem duration_cell_eq_memory (x : Ext) (hx : ExtLaw x) (cs : ColStyles) (rowStyle : Int) (ref : Bytes) (col : Int)
    (text : Bytes) (nfMem : Int) (htext : text ≠ []) (wrap : Option (Int × Bytes)) (c : XC)
    (h : mkCell x cs rowStyle ref col
      (match wrap with | none => .plain (.dur text nfMem) | some w => .cell w.1 w.2 (.dur text nfMem)) = .ok c) :
    ∃ o, Spec.cellObs cs rowStyle col
        (match wrap with | none => .plain (.dur text nfMem) | some w => .cell w.1 w.2 (.dur text nfMem)) = some o ∧
      (readCell x c).kind = o.kind ∧ (readCell x c).value = o.value ∧ (readCell x c).formula = o.formula ∧
      ((readCell x c).style = o.style ∨ ((readCell x c).style = 0 ∧ o.style = nfMem)) := by
  cases wrap with
  | none =>
    have h' : mkCell x cs rowStyle ref col (.plain (.dur text 0)) = .ok c := h
    have := (Stream.cell_eq_memory x hx cs rowStyle ref col (.plain (.dur text 0)) (by simp [Item.isSkip])
      (show Val.ok (.dur text 0) from ⟨htext, rfl⟩) c h').2
    simp only [Spec.cellObs, Option.some.injEq] at this
    refine ⟨_, rfl, ?_⟩
    rw [this]
    generalize (if rowStyle ≠ 0 then rowStyle else colStyleAt cs col) = S
    simp only [Spec.valObs, Spec.valStyle]
    refine ⟨trivial, trivial, trivial, ?_⟩
    by_cases hs : S = 0
    · right; simp [hs]
    · left; simp [hs]
  | some w =>
    have h' : mkCell x cs rowStyle ref col (.cell w.1 w.2 (.dur text 0)) = .ok c := h
    have := (Stream.cell_eq_memory x hx cs rowStyle ref col (.cell w.1 w.2 (.dur text 0)) (by simp [Item.isSkip])
      (show Val.ok (.dur text 0) from ⟨htext, rfl⟩) c h').2
    simp only [Spec.cellObs, Option.some.injEq] at this
    refine ⟨_, rfl, ?_⟩
    rw [this]
    generalize (if w.1 > 0 then w.1 else if rowStyle ≠ 0 then rowStyle else colStyleAt cs col) = S
    simp only [Spec.valObs, Spec.valStyle]
    refine ⟨trivial, trivial, trivial, ?_⟩
    by_cases hs : S = 0
    · right; simp [hs]
    · left; simp [hs]

/-- **stream_eq_memory.** Take any starting state without rows (any SetColStyle/SetColWidth/
SetPanes/MergeCell history) and any sequence of SetRow calls that are all accepted (hence
ascending), with arbitrary gaps, nil cells, starting columns and widths. Reading the written
rows back — find the row, decode each cell reference with `CellNameToCoordinates` — gives at
every position (`r`, `c`) of the grid exactly what the in-memory sheet built from the same rows
holds there (`Spec.lookup`): same presence, kind, stored value, formula and style. -/
theorem stream_eq_memory (x : Ext) (hx : ExtLaw x) (cfg : Cfg) (s : SW) (hlog : s.log = [])
    (calls : List (Bytes × Spec.RowIn))
    (hcalls : ∀ p ∈ calls, cellNameToCoordinates p.1 = .ok (p.2.col, p.2.row) ∧ ∀ it ∈ p.2.items, it.ok)
    (hacc : ∀ res ∈ (run x cfg s (rowOps calls)).2, res = none) (r c : Int) :
    lookupLog x (run x cfg s (rowOps calls)).1.log r c = Spec.lookup s.colStyles (calls.map (·.2)) r c := by
  have h0 : Agree x s.colStyles s [] := by
    refine ⟨?_, ?_, ?_, rfl⟩
    · intro r c; simp [lookupLog, Spec.lookup, hlog]
    · intro rr hrr; simp [hlog] at hrr
    · intro q hq; simp at hq
  have := agree_run x hx cfg s.colStyles calls s [] hcalls h0 hacc
  simpa using this.1 r c

/-- Every reference SetRow writes decodes back to the position it was computed from
(the reader finds each cell where the in-memory API would have put it). -/
theorem written_ref_decodes {col row : Int} {ref : Bytes}
    (h : coordinatesToCellName col row false = .ok ref) : cellNameToCoordinates ref = .ok (col, row) :=
  encode_decode_int h

/-! ## `writeCell` against the marshaller used everywhere else (`why_tests_cant`: "hand-assembled XML … separate from the marshaller") -/

/-- The bytes `writeCell` writes are the serialisation of the element tree `writeCellTree`
(attributes in order, `f`/`v` text through `xml.EscapeText`, inline text escaped with line feeds kept). -/
theorem writeCell_renders_tree (x : Ext) (c : XC) : renderCell (writeCellTree x c) = writeCell x c :=
  render_writeCellTree x c

/-- **writeCell_eq_marshal.** For every cell record with a reference — every value kind, with or without style,
formula, `xml:space`, rich text with or without runs — the element `writeCell` writes is the element `encoding/xml`
marshals for the same `xlsxC`: same attributes in the same order (`xml:space`, `r`, `s`, `t`), same children
(`f`, `v`, `is` › `t` | runs), same text. (Full strength since `fix: StreamWriter.writeCell writes one inline string
element…`; before it rich text without runs produced no `<is>` where the marshaller writes an empty one.) -/
theorem writeCell_eq_marshal (x : Ext) (c : XC) (hr : c.r ≠ []) : writeCellTree x c = marshalTree x c :=
  tree_eq_marshal x c hr

/-- Every cell an accepted SetRow writes satisfies the hypothesis (its reference is not empty). -/
theorem setRow_cells_eq_marshal (x : Ext) (cs : ColStyles) (rs row col : Int) (items : List Item) (cells : List XC)
    (h : rowCells x cs rs row col items = .ok cells) :
    ∀ c ∈ cells, writeCellTree x c = marshalTree x c :=
  fun c hc => tree_eq_marshal x c (rowCells_r_ne_nil x cs rs row items col cells h c hc)

/-- The struct tags the marshaller model is written against (regenerated): field order, `attr`, `omitempty`,
`chardata` of `xlsxC`, `xlsxSI`, `xlsxT`, `xlsxR`, and the leading fields of `xlsxF`. -/
theorem marshal_tags_ok :
    Facts.C11.tags_xlsxC = [("XMLName", "xml.Name", "xml:\"c\""), ("XMLSpace", "xml.Attr", "xml:\"space,attr,omitempty\""),
      ("R", "string", "xml:\"r,attr,omitempty\""), ("S", "int", "xml:\"s,attr,omitempty\""),
      ("T", "string", "xml:\"t,attr,omitempty\""), ("Cm", "*uint", "xml:\"cm,attr\""), ("Vm", "*uint", "xml:\"vm,attr\""),
      ("Ph", "*bool", "xml:\"ph,attr\""), ("F", "*xlsxF", "xml:\"f\""), ("V", "string", "xml:\"v,omitempty\""),
      ("IS", "*xlsxSI", "xml:\"is\""), ("f", "string", "")] ∧
    Facts.C11.tags_xlsxSI = [("T", "*xlsxT", "xml:\"t,omitempty\""), ("R", "[]xlsxR", "xml:\"r\""),
      ("RPh", "[]*xlsxPhoneticRun", "xml:\"rPh\""), ("PhoneticPr", "*xlsxPhoneticPr", "xml:\"phoneticPr\"")] ∧
    Facts.C11.tags_xlsxT = [("XMLName", "xml.Name", "xml:\"t\""), ("Space", "xml.Attr", "xml:\"space,attr,omitempty\""),
      ("Val", "string", "xml:\",chardata\"")] ∧
    Facts.C11.tags_xlsxR = [("XMLName", "xml.Name", "xml:\"r\""), ("RPr", "*xlsxRPr", "xml:\"rPr\""), ("T", "*xlsxT", "xml:\"t\"")] ∧
    Facts.C11.tags_xlsxF.take 2 = [("Content", "string", "xml:\",chardata\""), ("T", "string", "xml:\"t,attr,omitempty\"")] ∧
    (Facts.C11.tags_xlsxF.drop 1).all (fun f => f.2.2.endsWith ",attr,omitempty\"" || f.2.1.startsWith "*") = true := by
  refine ⟨by decide, by decide, by decide, by decide, by decide, by decide +kernel⟩

/-! ## row attributes (height, hidden, outline level, style) -/

/-- **row_attrs_eq_memory.** An accepted SetRow writes, on its `<row>` element, exactly the serialisation of
`rowAttrList o`; and as a finite map (attribute name → value) that list equals what `encoding/xml` marshals for the
`xlsxRow` the in-memory setters build from the same options (`SetRowStyle` → `s`+`customFormat`, `SetRowHeight` →
`ht`+`customHeight`, `SetRowOutlineLevel` → `outlineLevel`, `SetRowVisible(false)` → `hidden`), whose struct order differs
(`hidden` precedes `customHeight`). -/
theorem row_attrs_eq_memory (x : Ext) (cfg : Cfg) (s : SW) (cell : Bytes) (values : List Item) (o : RowOpts)
    (h : (setRow x cfg s cell values o).2 = none) :
    (∃ rec_ ∈ (setRow x cfg s cell values o).1.log, rec_.attrs = renderAttrs (rowAttrList o)) ∧
    ∀ k, attrOf (rowAttrList o) k = attrOf (marshalRowAttrs (Spec.rowRec o)) k := by
  obtain ⟨col, row, attrs, cells, _, _, hm, _, _, _, _, _, hlog, _⟩ := setRow_accepted x cfg s cell values o h
  refine ⟨⟨{ row := row, attrs := attrs, cells := cells }, by rw [hlog]; simp, ?_⟩, rowAttrs_eq_memory o⟩
  exact marshalAttrs_renders o attrs hm

/-- the struct tags of `xlsxRow` the row marshaller model follows (regenerated) -/
theorem row_tags_ok :
    (Facts.C11.tags_xlsxRow.map (fun f => (f.1, f.2.2))).take 9 =
      [("C", "xml:\"c\""), ("R", "xml:\"r,attr,omitempty\""), ("Spans", "xml:\"spans,attr,omitempty\""),
       ("S", "xml:\"s,attr,omitempty\""), ("CustomFormat", "xml:\"customFormat,attr,omitempty\""),
       ("Ht", "xml:\"ht,attr\""), ("Hidden", "xml:\"hidden,attr,omitempty\""),
       ("CustomHeight", "xml:\"customHeight,attr,omitempty\""), ("OutlineLevel", "xml:\"outlineLevel,attr,omitempty\"")] := by
  decide

/-! ## column widths and styles -/

/-- **`SetColWidth` refines last-writer-wins.** `ws.setColWidth` / `flatCols` (col.go, transcribed and compared byte for
byte through the `<cols>` element): seen as a map column → entry, the columns after the call are the columns before,
updated pointwise on `lo..hi` with the new width (`customWidth`), keeping each column's style; other columns are untouched.
Holds for every column list the stream writer can hold (`Good`: flat, or the single range the first call stores). -/
theorem col_width_refines_map (cols : List Col) (hg : Good cols) (lo hi : Int) (w : Bytes) :
    Good (wsSetColWidth cols lo hi w) ∧
    ∀ j, absCols (wsSetColWidth cols lo hi w) j = Spec.setWidth (absCols cols) lo hi w j :=
  wsSetColWidth_refines cols hg lo hi w

/-- **`SetColStyle` refines last-writer-wins**: pointwise on `lo..hi` the new style, keeping each column's width (the
default column width for a column that had no entry). -/
theorem col_style_refines_map (cols : List Col) (hg : Good cols) (lo hi st : Int) :
    Good (wsSetColStyle cols lo hi st) ∧
    ∀ j, absCols (wsSetColStyle cols lo hi st) j = Spec.setStyle (absCols cols) lo hi st j :=
  wsSetColStyle_refines cols hg lo hi st

/-- The column style a cell inherits (`prepareCellStyle`, used by `cell_eq_memory` / `stream_eq_memory`) is the style
of that map's entry for the cell's own column: the earlier "pointwise last-writer-wins column-style map" is no longer
an assumption of the model but a consequence of `flatCols`. -/
theorem col_style_lookup (cs : List Col) (hg : Good cs) (j : Int) :
    colStyleAt cs j = match absCols cs j with | some o => o.style | none => 0 :=
  colStyleAt_abs cs hg j

/-- For every call sequence on a new stream writer: the column list stays well-shaped, the pre-data is always
(fields 4..5) ++ `<cols>` of the current columns ++ `<sheetData>`, and what was written is the pre-data as it is
(no column or pane call can change it afterwards). -/
theorem cols_invariant (x : Ext) (cfg : Cfg) (prolog sv : Bytes) (n : Int) (ops : List Op) :
    let s := (run x cfg (SW.init prolog (preData sv []) n) ops).1
    Good s.colStyles ∧ (∃ sv', s.pre = preData sv' s.colStyles) ∧ (s.sheetWritten = true → s.preW = s.pre) :=
  colInv_run x cfg ops _ ⟨Or.inl ⟨fun e he => by simp [SW.init] at he, by simp [SW.init]⟩, ⟨sv, rfl⟩, by simp [SW.init]⟩

/-- **Element order of the whole worksheet part.** For any call sequence without Flush followed by one Flush the bytes
are, in this order: prolog (XML header, worksheet start tag, `sheetPr`, `dimension`), `sheetViews`+`sheetFormatPr`
(fields 4..5), the `<cols>` element of the current columns, `<sheetData>`, the accepted rows ascending, `</sheetData>`,
fields 8..15, the merge block, fields 17..39, one table-parts element, the extension list, `</worksheet>`. -/
theorem worksheet_part_order (x : Ext) (cfg : Cfg) (prolog sv : Bytes) (n : Int) (ops : List Op) (e : Epilog)
    (hnf : ∀ op ∈ ops, op.isFlush = false) :
    let s := (run x cfg (SW.init prolog (preData sv []) n) ops).1
    ∃ sv', (run x cfg (SW.init prolog (preData sv []) n) (ops ++ [.flush e])).1.raw.abs =
      prolog ++ sv' ++ renderCols s.colStyles ++ lit "<sheetData>" ++ s.log.flatMap (renderRow x)
        ++ lit "</sheetData>" ++ bulk e (8, 15) ++ mergeBlock s ++ bulk e (17, 39)
        ++ (if e.tableParts ≠ [] then e.tableParts else bulk e (40, 40)) ++ bulk e (41, 41) ++ lit "</worksheet>" := by
  intro s
  have hout := stream_output x cfg prolog (preData sv []) n ops e hnf
  have hinv := cols_invariant x cfg prolog sv n ops
  obtain ⟨_, ⟨sv', hpre⟩, hpw⟩ := hinv
  refine ⟨sv', ?_⟩
  have hm : mergeBlock (writeSheetData s) = mergeBlock s := by
    unfold writeSheetData mergeBlock; split <;> rfl
  have hpd : (if s.sheetWritten then s.preW else s.pre) = sv' ++ renderCols s.colStyles ++ lit "<sheetData>" := by
    cases hb : s.sheetWritten with
    | true => simp only [if_true]; rw [hpw hb, hpre]; rfl
    | false => simp only [Bool.false_eq_true, if_false]; rw [hpre]; rfl
  have hep : epilogBytes (writeSheetData s) e = lit "</sheetData>" ++ bulk e (8, 15) ++ mergeBlock (writeSheetData s)
      ++ bulk e (17, 39) ++ (if e.tableParts ≠ [] then e.tableParts else bulk e (40, 40)) ++ bulk e (41, 41)
      ++ lit "</worksheet>" := rfl
  have hout' : (run x cfg (SW.init prolog (preData sv []) n) (ops ++ [.flush e])).1.raw.abs =
      prolog ++ (if s.sheetWritten then s.preW else s.pre) ++ s.log.flatMap (renderRow x)
        ++ epilogBytes (writeSheetData s) e := hout
  rw [hout', hep, hm, hpd]
  simp only [List.append_assoc]

/-! ## panes -/

/-- **SetPanes content.** Before the first row, `SetPanes(p)` makes the pre-data: `<sheetViews><sheetView` + the view's own
attributes + `>` + the pane element + the selections + `</sheetView></sheetViews>`, then `sheetFormatPr`, the columns and the
`sheetData` start tag. (`panesSV` is compared byte for byte with the real rendering on every SetPanes of the transcript.) -/
theorem setPanes_content (s : SW) (hsw : s.sheetWritten = false) (va f5 : Bytes) (p : PaneOpts) :
    (setPanes s true (panesSV va f5 p)).2 = none ∧
    (setPanes s true (panesSV va f5 p)).1.pre =
      lit "<sheetViews><sheetView" ++ va ++ lit ">" ++ paneElem p ++ p.selection.flatMap selectionElem
        ++ lit "</sheetView></sheetViews>" ++ f5 ++ renderCols s.colStyles ++ lit "<sheetData>" := by
  simp [setPanes, hsw, preData, panesSV]

/-- The pane element is absent exactly when the options neither freeze nor split (`setPanes` removes the pane then);
otherwise its attributes are, as a finite map, exactly the options: `state="frozen"` only for a frozen pane, `xSplit` /
`ySplit` when non-zero, `topLeftCell` / `activePane` when non-empty. The in-memory `SetPanes` builds the same `xlsxPane`
(`ws.setPanes` is shared) and the same encoder writes it, so `GetPanes` agrees on both sides. -/
theorem pane_element (p : PaneOpts) :
    (paneElem p = [] ↔ (p.freeze = false ∧ p.split = false)) ∧
    attrOf (paneAttrs p) (lit "state") = (if p.freeze then some (lit "frozen") else none) ∧
    attrOf (paneAttrs p) (lit "xSplit") = (if p.xSplit ≠ 0 then some (itoaInt p.xSplit) else none) ∧
    attrOf (paneAttrs p) (lit "ySplit") = (if p.ySplit ≠ 0 then some (itoaInt p.ySplit) else none) ∧
    attrOf (paneAttrs p) (lit "topLeftCell") = (if p.topLeftCell ≠ [] then some (escapeText p.topLeftCell) else none) ∧
    attrOf (paneAttrs p) (lit "activePane") = (if p.activePane ≠ [] then some (escapeText p.activePane) else none) :=
  ⟨paneElem_nil_iff p, paneAttrs_map p⟩

/-- the struct tags of `xlsxPane` and `xlsxSelection` the pane rendering follows (regenerated) -/
theorem pane_tags_ok :
    Facts.C11.tags_xlsxPane.map (fun f => (f.1, f.2.2)) =
      [("ActivePane", "xml:\"activePane,attr,omitempty\""), ("State", "xml:\"state,attr,omitempty\""),
       ("TopLeftCell", "xml:\"topLeftCell,attr,omitempty\""), ("XSplit", "xml:\"xSplit,attr,omitempty\""),
       ("YSplit", "xml:\"ySplit,attr,omitempty\"")] ∧
    Facts.C11.tags_xlsxSelection.map (fun f => (f.1, f.2.2)) =
      [("ActiveCell", "xml:\"activeCell,attr,omitempty\""), ("ActiveCellID", "xml:\"activeCellId,attr\""),
       ("Pane", "xml:\"pane,attr,omitempty\""), ("SQRef", "xml:\"sqref,attr,omitempty\"")] := by
  constructor <;> decide

/-! ## Flush: the part after `sheetData` in schema order -/

/-- indices of the `xlsxWorksheet` fields in the order the stream writer emits them: prolog, pre-data, `cols` and
`sheetData` by hand, the first Flush range, `mergeCells` by hand, the second range, the table parts (AddTable's element
or the worksheet's own field — one of the two), the extension list -/
def emittedFields : List Nat :=
  let rg := fun (r : Nat × Nat) => List.range' r.1 (r.2 + 1 - r.1)
  Facts.C11.bulk_NewStreamWriter.flatMap rg ++ Facts.C11.bulk_writeSheetData.flatMap rg ++ [6, 7]
    ++ (match Facts.C11.bulk_Flush with
        | [r1, r2, r3, r4] => rg r1 ++ [16] ++ rg r2 ++ rg r3 ++ rg r4
        | _ => [])

/-- **Schema order, exactly once.** The stream writer emits the worksheet children in the order of the
`xlsxWorksheet` struct (= the order of the schema): the indices are strictly increasing, i.e. every field from
`SheetPr` (2) to `ExtLst` (41) is emitted exactly once — `Cols` 6, `SheetData` 7, `MergeCells` 16 by hand, `TableParts` 40
once, before `ExtLst` 41, after `mc:AlternateContent` 39; page breaks (`RowBreaks` 25, `ColBreaks` 26) in the second
range. Index 42 (`DecodeAlternateContent`) is the decode-side alias of 39 and is never set on a loaded worksheet. -/
theorem flush_schema_order :
    emittedFields = List.range' 2 40 ∧
    emittedFields.Pairwise (· < ·) ∧
    (∀ i, 2 ≤ i → i ≤ 41 → emittedFields.count i = 1) ∧
    Facts.C11.worksheetFields[6]? = some "Cols" ∧ Facts.C11.worksheetFields[7]? = some "SheetData" ∧
    Facts.C11.worksheetFields[16]? = some "MergeCells" ∧ Facts.C11.worksheetFields[25]? = some "RowBreaks" ∧
    Facts.C11.worksheetFields[26]? = some "ColBreaks" ∧ Facts.C11.worksheetFields[39]? = some "AlternateContent" ∧
    Facts.C11.worksheetFields[40]? = some "TableParts" ∧ Facts.C11.worksheetFields[41]? = some "ExtLst" ∧
    Facts.C11.worksheetFields[42]? = some "DecodeAlternateContent" ∧ Facts.C11.worksheetFields.length = 43 := by
  have h : emittedFields = List.range' 2 40 := by decide +kernel
  refine ⟨h, by rw [h]; decide +kernel, ?_, by decide, by decide, by decide, by decide, by decide, by decide,
    by decide, by decide, by decide, by decide⟩
  intro i h1 h2
  have : ∀ j : Fin 42, 2 ≤ j.val → emittedFields.count j.val = 1 := by rw [h]; decide +kernel
  exact this ⟨i, by omega⟩ h1

/-- Flush writes, after the rows: `</sheetData>`, fields 8..15, the merge block (once, with the count of the accepted
MergeCell calls and their references in call order), fields 17..39, one table-parts element (AddTable's if there is one,
else field 40), the extension list (field 41), `</worksheet>` — nothing else. -/
theorem flush_epilogue (s : SW) (e : Epilog) :
    epilogBytes s e = lit "</sheetData>" ++ bulk e (8, 15) ++ mergeBlock s ++ bulk e (17, 39)
      ++ (if e.tableParts ≠ [] then e.tableParts else bulk e (40, 40)) ++ bulk e (41, 41) ++ lit "</worksheet>" := by
  rfl

/-- Every accepted MergeCell adds its `<mergeCell ref="tl:br"/>` exactly once at the end of the merge list and counts
one; a rejected one changes nothing. -/
theorem mergeCell_once (s : SW) (tl br : Bytes) :
    ((mergeCell s tl br).2 = none →
      (mergeCell s tl br).1.mergeCells = s.mergeCells ++ lit "<mergeCell ref=\"" ++ tl ++ lit ":" ++ br ++ lit "\"/>" ∧
      (mergeCell s tl br).1.mergeCount = s.mergeCount + 1) ∧
    (∀ e, (mergeCell s tl br).2 = some e → (mergeCell s tl br).1 = s) := by
  unfold mergeCell
  constructor
  · intro h
    split at h
    · simp at h
    · split at h
      · simp at h
      · rename_i h1 _ _ h2; simp [h1, h2]
  · intro e h
    split
    · rfl
    · split
      · rfl
      · rename_i h1 _ _ h2; simp [h1, h2] at h

/-- No other call touches the merge list: SetRow (accepted or rejected), column/pane calls, Reader and Flush leave
`mergeCells` and `mergeCount` as they are. -/
theorem merge_list_only_by_mergeCell (x : Ext) (cfg : Cfg) (s : SW) (op : Op) (h : ∀ tl br, op ≠ .merge tl br) :
    (step x cfg s op).1.mergeCells = s.mergeCells ∧ (step x cfg s op).1.mergeCount = s.mergeCount := by
  cases op with
  | merge tl br => exact absurd rfl (h tl br)
  | setRow cell vals o =>
    simp only [step]
    cases hres : (setRow x cfg s cell vals o).2 with
    | some e => rw [setRow_rejected x cfg s cell vals o e hres]; exact ⟨rfl, rfl⟩
    | none =>
      unfold setRow at hres ⊢
      split
      · exact ⟨rfl, rfl⟩
      · split
        · exact ⟨rfl, rfl⟩
        · split
          · exact ⟨rfl, rfl⟩
          · split
            · exact ⟨rfl, rfl⟩
            · simp only [writeSheetData]; split <;> exact ⟨rfl, rfl⟩
  | colWidth a b w p => simp only [step, setColWidth]; repeat' split
                        all_goals exact ⟨rfl, rfl⟩
  | colStyle a b st p => simp only [step, setColStyle]; repeat' split
                         all_goals exact ⟨rfl, rfl⟩
  | panes ok p => simp only [step, setPanes]; repeat' split
                  all_goals exact ⟨rfl, rfl⟩
  | reader => exact ⟨rfl, rfl⟩
  | flush e => simp only [step, flush, writeSheetData]; split <;> exact ⟨rfl, rfl⟩

/-! ## ordering of column / pane calls relative to SetRow -/

/-- Once a row has been accepted, SetColWidth, SetColStyle and SetPanes are refused and change nothing. -/
theorem col_calls_after_row_refused (s : SW) (h : s.sheetWritten = true) (a b v : Int) (ok : Bool) (p : Bytes) :
    setColWidth s a b v p = (s, some .colOrder) ∧ setColStyle s a b v p = (s, some .colOrder) ∧
    setPanes s ok p = (s, some .colOrder) := by
  simp [setColWidth, setColStyle, setPanes, h]

/-- A rejected SetRow does not switch the writer to "rows started": column and pane calls stay possible. -/
theorem rejected_row_keeps_col_calls (x : Ext) (cfg : Cfg) (s : SW) (cell : Bytes) (values : List Item) (o : RowOpts)
    (e : E) (h : (setRow x cfg s cell values o).2 = some e) :
    (setRow x cfg s cell values o).1.sheetWritten = s.sheetWritten := by
  rw [rejected_row_noop x cfg s cell values o e h]

/-! ## the roll-back of a row that is rejected after it has started -/

/-- **`SetRow`'s `rollback` closure restores the whole writer state.** `setRowRaw` runs `SetRow` in the code's own order:
remember `sheetWritten` and `buf.Len()`, `writeSheetData` (which on the very first row writes the pre-data and sets the
latch), the row start tag, one cell after the other — and on a rejected cell (past column XFD, over-long rich text)
`sw.sheetWritten = sheetWritten; sw.rawData.buf.Truncate(size)`. For every state (first row or not), every spill
configuration and every row this is the effect `setRow` states, and a rejected call returns exactly the old state: latch,
buffer (hence its length), temp file, counters, columns, accepted rows. -/
theorem rollback_restores (x : Ext) (cfg : Cfg) (s : SW) (cell : Bytes) (values : List Item) (o : RowOpts) :
    setRowRaw x cfg s cell values o = setRow x cfg s cell values o ∧
    ∀ e, (setRowRaw x cfg s cell values o).2 = some e →
      (setRowRaw x cfg s cell values o).1 = s ∧
      (setRowRaw x cfg s cell values o).1.sheetWritten = s.sheetWritten ∧
      (setRowRaw x cfg s cell values o).1.raw.buf.length = s.raw.buf.length := by
  refine ⟨setRowRaw_eq_setRow x cfg s cell values o, fun e h => ?_⟩
  rw [setRowRaw_eq_setRow] at h ⊢
  rw [rejected_row_noop x cfg s cell values o e h]
  exact ⟨rfl, rfl, rfl⟩

/-! ## guards of the column calls; the `<cols>` element is never empty -/

/-- **Guard of `SetColWidth`, both directions.** The call is accepted exactly when no row has been written yet, both
column numbers lie in `MinColumns..MaxColumns` and the width (in quarters) is at most `MaxColumnWidth` (regenerated
limits); there is no other reason for a refusal. -/
theorem col_width_accepted_iff (s : SW) (a b w4 : Int) (p : Bytes) :
    (setColWidth s a b w4 p).2 = none ↔
      s.sheetWritten = false ∧ (Facts.MinColumns : Int) ≤ a ∧ a ≤ (Facts.MaxColumns : Int) ∧
      (Facts.MinColumns : Int) ≤ b ∧ b ≤ (Facts.MaxColumns : Int) ∧ w4 ≤ 4 * (Facts.MaxColumnWidth : Int) := by
  simp only [setColWidth, badCol]
  repeat' split
  all_goals simp_all
  all_goals omega

/-- **Guard of `SetColStyle`, both directions**: no row written yet, both columns in range, and the style id one of
the workbook's `nStyles` cell formats. -/
theorem col_style_accepted_iff (s : SW) (a b st : Int) (p : Bytes) :
    (setColStyle s a b st p).2 = none ↔
      s.sheetWritten = false ∧ (Facts.MinColumns : Int) ≤ a ∧ a ≤ (Facts.MaxColumns : Int) ∧
      (Facts.MinColumns : Int) ≤ b ∧ b ≤ (Facts.MaxColumns : Int) ∧ 0 ≤ st ∧ st < s.nStyles := by
  simp only [setColStyle, badCol]
  repeat' split
  all_goals simp_all
  all_goals omega

/-- **A refused column / pane call is a no-op**, whatever the reason of the refusal (order, column number, width,
style id, pane options): the whole writer state — bytes, columns, pre-data, counters — is unchanged. -/
theorem rejected_col_call_noop (s : SW) (a b v : Int) (ok : Bool) (p : Bytes) :
    ((setColWidth s a b v p).2 ≠ none → (setColWidth s a b v p).1 = s) ∧
    ((setColStyle s a b v p).2 ≠ none → (setColStyle s a b v p).1 = s) ∧
    ((setPanes s ok p).2 ≠ none → (setPanes s ok p).1 = s) := by
  refine ⟨?_, ?_, ?_⟩
  · simp only [setColWidth]; repeat' split
    all_goals simp
  · simp only [setColStyle]; repeat' split
    all_goals simp
  · simp only [setPanes]; repeat' split
    all_goals simp

/-- **The `<cols>` element is never empty** (the schema's `CT_Cols` needs at least one `<col>`): an accepted
SetColWidth / SetColStyle leaves at least one column entry, a non-empty column list is rendered as `<cols>` followed by
its first `<col …/>`, and a worksheet without column entries gets no `<cols>` element at all. -/
theorem cols_element_nonempty (s : SW) (hg : Good s.colStyles) (a b v : Int) (p : Bytes) :
    ((setColWidth s a b v p).2 = none → (setColWidth s a b v p).1.colStyles ≠ []) ∧
    ((setColStyle s a b v p).2 = none → (setColStyle s a b v p).1.colStyles ≠ []) ∧
    renderCols [] = [] ∧
    ∀ c cs, ∃ rest, renderCols (c :: cs) = lit "<cols>" ++ renderCol c ++ rest := by
  refine ⟨?_, ?_, rfl, fun c cs => ⟨cs.flatMap renderCol ++ lit "</cols>", by simp [renderCols]⟩⟩
  · simp only [setColWidth]; repeat' split
    all_goals simp
    all_goals exact wsSetColWidth_ne_nil _ hg _ _ (by omega) _
  · simp only [setColStyle]; repeat' split
    all_goals simp
    all_goals exact wsSetColStyle_ne_nil _ hg _ _ _ (by omega)

/-! ## non-vacuity -/

def x0 : Ext := { bstr := id, unbstr := id }
def s0 : SW := SW.init (lit "<worksheet>") (lit "<sheetData>") 2
def a1 : Bytes := lit "A1"
def xfd2 : Bytes := lit "XFD2"

theorem ext_law_satisfiable : ExtLaw x0 := ⟨fun _ => rfl, rfl⟩

/-- a row is accepted … -/
theorem witness_accepted :
    (setRow x0 Cfg.code s0 a1 [.plain (.int 1), .skip, .cell 1 (lit "1+2") (.str (lit "a<b"))] RowOpts.zero).2 = none := by
  decide +kernel

/-- … the reconnaissance witness `SetRow("XFD2", {1, 2})` is rejected (and by `rejected_row_noop` leaves no trace) … -/
theorem witness_rejected :
    (setRow x0 Cfg.code s0 xfd2 [.plain (.int 1), .plain (.int 2)] RowOpts.zero).2 = some (.ref .colNumber) := by
  decide +kernel

/-- … a very FIRST row that is rejected mid-way (`SetRow("XFD1", {1, 2})` on a new writer): the loop had already written
the pre-data, the row start and one cell (the buffer grew) when the second cell was refused, and the roll-back returns the
new writer, latch still open … -/
theorem witness_first_row_rolled_back :
    let w1 := (writeSheetData s0).raw.write (lit "<row r=\"1\">")
    let r := rowLoop x0 s0.colStyles 0 1 16384 [.plain (.int 1), .plain (.int 2)] w1
    r.2 = some (.ref .colNumber) ∧ s0.raw.buf.length < r.1.buf.length ∧ s0.sheetWritten = false ∧
    setRowRaw x0 Cfg.code s0 (lit "XFD1") [.plain (.int 1), .plain (.int 2)] RowOpts.zero = (s0, some (.ref .colNumber)) := by
  decide +kernel

/-- … and a tiny threshold really spills: the two configurations of `spill_independent` can differ in `tmp`. -/
theorem witness_spills :
    ((setRow x0 { chunk := 8, tmpOK := true } s0 a1 [.plain (.int 1)] RowOpts.zero).1.raw.tmp.isSome = true) ∧
    ((setRow x0 Cfg.code s0 a1 [.plain (.int 1)] RowOpts.zero).1.raw.tmp.isSome = false) := by
  constructor <;> decide +kernel

/-! ## regenerated facts: the source still has the shape the model transcribes -/

/-- skeleton of the Go function (calls, literals, comparison operators, field writes, returns in source order) -/
theorem skel_SetRow_ok : Facts.C11.skel_SetRow = ["call CellNameToCoordinates", "if", "op !=", "return", "if", "op <=", "return", "call newStreamSetRowError", "call parseRowOpts", "call marshalAttrs", "if", "op !=", "return", "call Len", "set sw.sheetWritten", "call Truncate", "return", "call writeSheetData", "call WriteString", "lit <row r=\"", "call WriteString", "call Itoa", "call WriteString", "lit \"", "call WriteString", "call String", "call WriteString", "lit >", "range", "if", "op ==", "continue", "call CoordinatesToCellName", "arg0 col+i", "if", "op !=", "return", "call rollback", "call prepareCellStyle", "arg0 col+i", "if", "call setCellFormula", "if", "op &&", "op !=", "call setCellFormula", "if", "op >", "if", "op !=", "call setCellValFunc", "return", "call rollback", "call writeCell", "set sw.rows", "call WriteString", "lit </row>", "return", "call Sync"] := by decide
/-- skeleton of the Go function (calls, literals, comparison operators, field writes, returns in source order) -/
theorem skel_marshalAttrs_ok : Facts.C11.skel_marshalAttrs = ["if", "op ==", "return", "if", "op >", "return", "if", "op >", "return", "if", "op >", "call WriteString", "lit  s=\"", "call WriteString", "call Itoa", "call WriteString", "lit \" customFormat=\"1\"", "if", "op >", "call WriteString", "lit  ht=\"", "call WriteString", "call FormatFloat", "call WriteString", "lit \" customHeight=\"1\"", "if", "op >", "call WriteString", "lit  outlineLevel=\"", "call WriteString", "call Itoa", "call WriteString", "lit \"", "if", "call WriteString", "lit  hidden=\"1\"", "return"] := by decide
/-- skeleton of the Go function (calls, literals, comparison operators, field writes, returns in source order) -/
theorem skel_writeCell_ok : Facts.C11.skel_writeCell = ["call WriteString", "lit <c", "if", "op !=", "lit ", "call WriteString", "lit  xml:", "call WriteString", "call WriteString", "lit =\"", "call WriteString", "call WriteString", "lit \"", "call WriteString", "lit  r=\"", "call WriteString", "call WriteString", "lit \"", "if", "op !=", "call WriteString", "lit  s=\"", "call WriteString", "call Itoa", "call WriteString", "lit \"", "if", "op !=", "lit ", "call WriteString", "lit  t=\"", "call WriteString", "call WriteString", "lit \"", "call WriteString", "lit >", "if", "op !=", "call WriteString", "lit <f>", "call EscapeText", "call WriteString", "lit </f>", "if", "op !=", "lit ", "call WriteString", "lit <v>", "call EscapeText", "call WriteString", "lit </v>", "if", "op !=", "call WriteString", "lit <is>", "if", "op !=", "call WriteString", "lit <t", "if", "op !=", "lit ", "call WriteString", "lit  xml:", "call WriteString", "call WriteString", "lit =\"", "call WriteString", "call WriteString", "lit \"", "call WriteString", "lit >", "call Write", "call WriteString", "lit </t>", "if", "op >", "call len", "call Marshal", "call Write", "call WriteString", "lit </is>", "call WriteString", "lit </c>"] := by decide
/-- skeleton of the Go function (calls, literals, comparison operators, field writes, returns in source order) -/
theorem skel_setCellFormula_ok : Facts.C11.skel_setCellFormula = ["if", "op !=", "lit ", "lit str"] := by decide
/-- skeleton of the Go function (calls, literals, comparison operators, field writes, returns in source order) -/
theorem skel_setCellValFunc_ok : Facts.C11.skel_setCellValFunc = ["call setCellIntFunc", "call setCellFloat", "call float64", "call setCellFloat", "call setCellValue", "call setCellValue", "call string", "call setCellDuration", "call setCellTime", "call setCellBool", "return", "lit inlineStr", "call setRichText", "call setCellValue", "call Sprint", "return"] := by decide
/-- skeleton of the Go function (calls, literals, comparison operators, field writes, returns in source order) -/
theorem skel_writeSheetData_ok : Facts.C11.skel_writeSheetData = ["if", "op !", "call bulkAppendFields", "if", "op !=", "call WriteString", "lit <cols>", "range", "call WriteString", "lit <col min=\"", "call WriteString", "call Itoa", "call WriteString", "lit \" max=\"", "call WriteString", "call Itoa", "call WriteString", "lit \"", "if", "op !=", "call WriteString", "lit  width=\"", "call WriteString", "call FormatFloat", "call WriteString", "lit \" customWidth=\"1\"", "if", "op !=", "call WriteString", "lit  style=\"", "call WriteString", "call Itoa", "call WriteString", "lit \"", "call WriteString", "lit />", "call WriteString", "lit </cols>", "call WriteString", "lit <sheetData>", "set sw.sheetWritten"] := by decide
/-- skeleton of the Go function (calls, literals, comparison operators, field writes, returns in source order) -/
theorem skel_Flush_ok : Facts.C11.skel_Flush = ["call writeSheetData", "call WriteString", "lit </sheetData>", "call bulkAppendFields", "if", "op >", "call WriteString", "lit <mergeCells count=\"", "call WriteString", "call Itoa", "call WriteString", "lit \">", "call WriteString", "call String", "call WriteString", "lit </mergeCells>", "call WriteString", "call String", "call bulkAppendFields", "if", "op !=", "lit ", "call WriteString", "call bulkAppendFields", "call bulkAppendFields", "call WriteString", "lit </worksheet>", "if", "op !=", "call Flush", "return", "call Delete", "call Delete", "call Delete", "return"] := by decide
/-- skeleton of the Go function (calls, literals, comparison operators, field writes, returns in source order) -/
theorem skel_MergeCell_ok : Facts.C11.skel_MergeCell = ["call cellRefsToCoordinates", "if", "op !=", "return", "set sw.mergeCellsCount", "call WriteString", "lit <mergeCell ref=\"", "call WriteString", "call WriteString", "lit :", "call WriteString", "call WriteString", "lit \"/>", "return"] := by decide
/-- skeleton of the Go function (calls, literals, comparison operators, field writes, returns in source order) -/
theorem skel_SetColWidth_ok : Facts.C11.skel_SetColWidth = ["if", "return", "if", "op <", "op ||", "op >", "op ||", "op <", "op ||", "op >", "return", "if", "op >", "return", "if", "op >", "call setColWidth", "return"] := by decide
/-- skeleton of the Go function (calls, literals, comparison operators, field writes, returns in source order) -/
theorem skel_SetColStyle_ok : Facts.C11.skel_SetColStyle = ["if", "return", "if", "op <", "op ||", "op >", "op ||", "op <", "op ||", "op >", "return", "if", "op <", "call stylesReader", "if", "op !=", "return", "if", "op <", "op ||", "op ==", "op ||", "op <=", "call len", "return", "call newInvalidStyleID", "call setColStyle", "return"] := by decide
/-- skeleton of the Go function (calls, literals, comparison operators, field writes, returns in source order) -/
theorem skel_SetPanes_ok : Facts.C11.skel_SetPanes = ["if", "return", "return", "call setPanes"] := by decide
/-- skeleton of the Go function (calls, literals, comparison operators, field writes, returns in source order) -/
theorem skel_bw_Write_ok : Facts.C11.skel_bw_Write = ["return", "call Write"] := by decide
/-- skeleton of the Go function (calls, literals, comparison operators, field writes, returns in source order) -/
theorem skel_bw_WriteString_ok : Facts.C11.skel_bw_WriteString = ["return", "call WriteString"] := by decide
/-- skeleton of the Go function (calls, literals, comparison operators, field writes, returns in source order) -/
theorem skel_bw_Sync_ok : Facts.C11.skel_bw_Sync = ["if", "op <", "call Len", "return", "if", "op ==", "set bw.tmp", "call CreateTemp", "call TempDir", "lit excelize-", "if", "op !=", "return", "return", "call Flush"] := by decide
/-- skeleton of the Go function (calls, literals, comparison operators, field writes, returns in source order) -/
theorem skel_bw_Flush_ok : Facts.C11.skel_bw_Flush = ["if", "op ==", "return", "call WriteTo", "if", "op !=", "return", "call Reset", "return"] := by decide
/-- skeleton of the Go function (calls, literals, comparison operators, field writes, returns in source order) -/
theorem skel_bw_Reader_ok : Facts.C11.skel_bw_Reader = ["if", "op ==", "return", "call NewReader", "call Bytes", "if", "op !=", "call Flush", "return", "call Stat", "if", "op !=", "return", "return", "call NewSectionReader", "call Size"] := by decide
/-- skeleton of the Go function (calls, literals, comparison operators, field writes, returns in source order) -/
theorem skel_setCellValue_ok : Facts.C11.skel_setCellValue = ["if", "op !=", "call setStr", "return", "call setInlineStr"] := by decide
/-- skeleton of the Go function (calls, literals, comparison operators, field writes, returns in source order) -/
theorem skel_setInlineStr_ok : Facts.C11.skel_setInlineStr = ["lit inlineStr", "lit ", "call trimCellValue"] := by decide
/-- skeleton of the Go function (calls, literals, comparison operators, field writes, returns in source order) -/
theorem skel_setStr_ok : Facts.C11.skel_setStr = ["lit str", "call trimCellValue"] := by decide
/-- skeleton of the Go function (calls, literals, comparison operators, field writes, returns in source order) -/
theorem skel_trimCellValue_ok : Facts.C11.skel_trimCellValue = ["if", "op >", "call RuneCountInString", "call string", "if", "op !=", "lit ", "call len", "range", "if", "op ==", "op ||", "op ==", "lit space", "lit preserve", "break", "call bstrMarshal", "if", "op &&", "op !=", "lit ", "call EscapeText", "call ReplaceAll", "call String", "lit &#xA;", "lit \n", "return"] := by decide
/-- skeleton of the Go function (calls, literals, comparison operators, field writes, returns in source order) -/
theorem skel_prepareCellStyle_ok : Facts.C11.skel_prepareCellStyle = ["if", "op !=", "return", "if", "op <=", "call len", "if", "op !=", "return", "if", "op !=", "range", "if", "op <=", "op &&", "op <=", "op &&", "op !=", "return", "return"] := by decide

/-- skeleton of the Go function (calls, literals, comparison operators, field writes, returns in source order) -/
theorem skel_setCellTime_ok : Facts.C11.skel_setCellTime = ["call workbookReader", "if", "op !=", "return", "if", "op !=", "op &&", "op !=", "if", "op ==", "op &&", "op &&", "op ==", "call setCellTime", "call NewStyle", "kv NumFmt=22", "return"] := by decide

end XlModel.Props.C11
