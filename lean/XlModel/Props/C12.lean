import XlModel.Lemmas.Store
namespace XlModel.Props.C12
open XlModel XlModel.Store

theorem placeholder : (1 : Nat) = 1 := rfl

end XlModel.Props.C12
