/-
C12 — Opening is independent of unzip/memory limits and cleans up its temp
files.  Property theorems only; helper lemmas are in `Lemmas/Store*.lean`.

All theorems are about `XlModel.Store` (transcription of lib.go ReadZipReader /
unzipToTemp / readBytes / readTemp, excelize.go OpenReader / checkOpenReaderOptions,
cell.go sharedStringsLoader, rows.go getFromStringItem / Rows, file.go Close /
writeToZip) defined over the regenerated facts `Facts.C12`; `facts_ok` pins
the facts the proofs were written for.
-/
import XlModel.Lemmas.Store12
import XlModel.Lemmas.ZipList
import XlModel.Lemmas.Sst

namespace XlModel.Props.C12
open XlModel XlModel.Store

/-- the regenerated facts are the ones the model and proofs rely on: the three guards use `>`,
the directory exclusion is on the worksheet guard only, the size guard comes after the
accumulation and before anything is inflated, OpenReader cleans up on the ReadZipReader error
path, a later entry replaces an earlier one of the same name, Close removes every tempFiles
entry, writeToZip loads the spilled shared strings before writing them, readBytes promotes,
and every consumer of the decoded shared string table calls the loader first. -/
theorem facts_ok :
    Facts.C12.sizeGuardOp = ">" ∧ Facts.C12.sizeGuardRejectsNegative = true ∧ Facts.C12.sstGuardOp = ">" ∧ Facts.C12.sheetGuardOp = ">" ∧
    Facts.C12.sstGuardExcludesDir = false ∧ Facts.C12.sheetGuardExcludesDir = true ∧
    Facts.C12.sizeAccumulatedBeforeGuard = true ∧ Facts.C12.sizeGuardBeforeInflate = true ∧
    Facts.C12.openErrCleanup = true ∧ Facts.C12.dupReplaces = true ∧
    Facts.C12.closeRemovesTemp = true ∧ Facts.C12.deleteSheetDeletesPkg = true ∧
    Facts.C12.deleteSheetDropsTemp = true ∧ Facts.C12.deleteSheetRemovesFile = true ∧
    Facts.C12.zipTempBranchSkipsStreams = true ∧ Facts.C12.zipPkgBranchSkipsStreams = true ∧
    Facts.C12.readBytesPromotes = true ∧
    Facts.C12.zipTempBranchViaReadBytes = true ∧ Facts.C12.saveFileListPrependsHeader = true ∧
    Facts.C12.sstLoaderPromotesThenRemoves = true ∧
    Facts.C12.loaderBeforeReader.all (·.2) = true ∧
    Facts.C12.sstPath = "xl/sharedStrings.xml" ∧ Facts.C12.sstTempKey = "sharedStrings" ∧
    Facts.C12.sheetPrefix = "xl/worksheets/sheet" := by decide

/-- writeToZip calls workSheetWriter, then sharedStringsLoader, then sharedStringsWriter: the
spilled shared strings are promoted (and the placeholder table dropped) before the table is
written back -/
theorem save_order_ok :
    Facts.C12.saveOrder.filter (fun c => c = "workSheetWriter" || c = "sharedStringsLoader" || c = "sharedStringsWriter")
      = ["workSheetWriter", "sharedStringsLoader", "sharedStringsWriter"] := by decide

/-! ## "A package whose declared uncompressed size exceeds UnzipSizeLimit is rejected rather than inflated" -/

/-- `limit_rejects`: for a package whose entries can be opened and declare non-negative sizes,
ReadZipReader fails with the size error **iff** some non-empty prefix of the entries has a
declared total greater than UnzipSizeLimit (comparison `>` exactly as in the code), for every
UnzipXMLSizeLimit; and otherwise it succeeds. -/
theorem limit_rejects (l : Limits) (es : List Entry)
    (hio : ∀ e ∈ es, e.io ≠ .open) (hnn : ∀ e ∈ es, 0 ≤ e.declared) :
    ((∃ s, readZip l {} 0 0 es = .sizeErr s) ↔
      ∃ k, 1 ≤ k ∧ k ≤ es.length ∧ declSum (es.take k) > l.size) ∧
    ((∃ s w, readZip l {} 0 0 es = .ok s w) ∨ (∃ s, readZip l {} 0 0 es = .sizeErr s)) := by
  have h := readZip_verdict l es {} 0 0 hio hnn
  simpa using h

/-- the verdict of ReadZipReader is a function of the limits and the zip directory alone —
`verdictOf` never looks at the store — for **arbitrary** entry lists: a declared size of 2^63 or
more (negative `FileInfo().Size()`) or a running total above the limit gives the size error, an
entry whose `Open` fails gives the read error, exactly at the first entry where something goes wrong -/
theorem verdict_state_free (l : Limits) (es : List Entry) (st : St) (t : Int) (ws : Nat) :
    (readZip l st t ws es).verdict = verdictOf l t es := readZip_verdictOf l es st t ws

/-- after the repair of the size guard **no panic outcome is left**: for every entry list, every
limit pair and every starting state ReadZipReader returns ok, the size error or a read error
(before the `fix:` commit an entry declaring >= 2^63 bytes reached `make([]byte, 0, negative)`) -/
theorem open_never_panics (l : Limits) (es : List Entry) (st : St) (t : Int) (ws : Nat) :
    (readZip l st t ws es).verdict ≠ .panic := by
  rw [readZip_verdictOf]; exact verdictOf_ne_panic l es t

theorem openReader_never_panics (l : Limits) (es : List Entry) (d : Disk) : openReader l es ≠ .panic d := by
  intro h
  unfold openReader at h
  cases hc : checkOptions l with
  | none => simp [hc] at h
  | some l' =>
    simp only [hc] at h
    have np := open_never_panics l' es {} 0 0
    cases hr : readZip l' {} 0 0 es with
    | ok s w => rw [hr] at h; cases h
    | sizeErr s => rw [hr] at h; simp at h
    | readErr s => rw [hr] at h; simp at h
    | panic s => rw [hr] at np; exact np rfl

/-- `limit_rejects` without hypotheses on the entries: the size error is returned **iff** there is
a first entry at which the guard fires — its declared size is negative as an int64 (>= 2^63 declared
bytes) or the declared total up to and including it is `>` UnzipSizeLimit — and every entry before
it was processed (spilled or read; its `Open` did not fail) without the guard firing -/
theorem limit_rejects_full (l : Limits) (es : List Entry) :
    (∃ s, readZip l {} 0 0 es = .sizeErr s) ↔
      ∃ k e, es[k]? = some e ∧ over l (totalBefore 0 es k) e ∧
        (∀ j e', j < k → es[j]? = some e' → ¬ over l (totalBefore 0 es j) e' ∧ entryOutcome l e' = .ok) := by
  rw [← verdictOf_sizeErr l es 0, ← readZip_verdictOf l es {} 0 0]
  cases readZip l {} 0 0 es <;> simp [ZRes.verdict]

/-- success is total now: ReadZipReader succeeds **iff** the guard fires at no entry and no
entry's `Open` fails — there is no third possibility besides the size error and the read error -/
theorem open_ok_iff (l : Limits) (es : List Entry) :
    (∃ s w, readZip l {} 0 0 es = .ok s w) ↔ verdictOf l 0 es = .ok := by
  rw [← readZip_verdictOf l es {} 0 0]
  cases readZip l {} 0 0 es <;> simp [ZRes.verdict]

theorem open_ok_or_error (l : Limits) (es : List Entry) :
    verdictOf l 0 es = .ok ∨ verdictOf l 0 es = .sizeErr ∨ verdictOf l 0 es = .readErr := by
  have := verdictOf_ne_panic l es 0
  cases h : verdictOf l 0 es <;> simp_all

/-- the exact-integer guard of the model is the wrapped 64-bit guard of the code for int64-valued
sizes and limits (`unzipSize < 0 || unzipSize > limit` after `unzipSize += fileSize`) -/
theorem guard_matches_int64 (t d size : Int) (ht0 : 0 ≤ t) (ht : t < 9223372036854775808) (hd0 : 0 ≤ d)
    (hd : d < 9223372036854775808) (hs : size < 9223372036854775808) :
    (wrap64 (t + d) < 0 ∨ wrap64 (t + d) > size) ↔ t + d > size := guard_wrap_exact t d size ht0 ht hd0 hd hs

/-- the verdict does not depend on UnzipXMLSizeLimit (which parts are spilled) -/
theorem limit_verdict_independent_of_xml_limit (x1 x2 size : Int) (es : List Entry)
    (hio : ∀ e ∈ es, e.io ≠ .open) (hnn : ∀ e ∈ es, 0 ≤ e.declared) :
    (∃ s, readZip ⟨x1, size⟩ {} 0 0 es = .sizeErr s) ↔ (∃ s, readZip ⟨x2, size⟩ {} 0 0 es = .sizeErr s) := by
  rw [(limit_rejects ⟨x1, size⟩ es hio hnn).1, (limit_rejects ⟨x2, size⟩ es hio hnn).1]

/-- `rejected rather than inflated`: when the running declared total passes the limit at an
entry, the loop returns at once with the state it had before that entry — neither this entry
nor any later one is inflated (to memory or to a temp file) -/
theorem rejected_entry_not_inflated (l : Limits) (st : St) (t : Int) (ws : Nat) (e : Entry) (rest : List Entry)
    (h : e.declared < 0 ∨ t + e.declared > l.size) : readZip l st t ws (e :: rest) = .sizeErr st := by
  have hge : sizeGuard l t e = true := by
    rw [sizeGuard_eq]; exact decide_eq_true h
  rw [readZip_cons, if_pos hge]

/-! ## "after Close no temporary file created on behalf of the workbook remains on disk" -/

/-- every successful open establishes the accounting invariant: each file on disk is
referenced by exactly one tempFiles entry (all packages, including duplicate entry names,
directory entries, CRC failures; all limits) -/
theorem open_establishes_inv (l : Limits) (es : List Entry) (st : St) (h : openReader l es = .ok st) : Inv st := by
  unfold openReader at h
  cases hc : checkOptions l with
  | none => simp [hc] at h
  | some l' =>
    simp only [hc] at h
    have i := readZip_inv0 l' es {} 0 0 Inv0.init
    cases hr : readZip l' {} 0 0 es with
    | ok s w => rw [hr] at h i; injection h with h; subst h; exact i.inv
    | sizeErr s => rw [hr] at h; simp at h
    | readErr s => rw [hr] at h; simp at h
    | panic s => rw [hr] at h; cases h

/-- `close_cleans`: for every package, every limit setting and **every** history of modelled
operations after a successful open (reads with promotion, first touch of a spilled sheet by a
write, by a streaming read or by a save, shared-string index creation, loader, saves in any
number and order), Close removes every temp file and reports no error -/
theorem close_cleans (l : Limits) (es : List Entry) (st : St) (h : openReader l es = .ok st) (ops : List Op) :
    (close (run st ops).1).1.disk = [] ∧ (close (run st ops).1).2 = false :=
  close_clean (run_inv ops (open_establishes_inv l es st h))

/-- `open_error_cleans`: when OpenReader fails after ReadZipReader has started (size limit
exceeded at any entry, unreadable entry) no temp file is left behind — for every package and
every limit setting.  (Before the `fix:` commit this was `finding_open_error_leaks`.) -/
theorem open_error_cleans (l : Limits) (es : List Entry) (d : Disk) (h : openReader l es = .err d) : d = [] := by
  have hf : Facts.C12.openErrCleanup = true := by decide
  unfold openReader at h
  cases hc : checkOptions l with
  | none => simp [hc] at h
  | some l' =>
    simp only [hc, hf, if_true] at h
    have i := readZip_inv0 l' es {} 0 0 Inv0.init
    cases hr : readZip l' {} 0 0 es with
    | ok s w => rw [hr] at h; cases h
    | panic s => rw [hr] at h; cases h
    | sizeErr s =>
      rw [hr] at h i; injection h with h; subst h
      exact (close_clean i.inv).1
    | readErr s =>
      rw [hr] at h i; injection h with h; subst h
      exact (close_clean i.inv).1

/-- why the cleanup in OpenReader is needed (and what the pre-fix code did): ReadZipReader on
its own leaves the temp files of the entries it had already spilled when it fails.  Witness:
two worksheets of 100 declared bytes, UnzipXMLSizeLimit 10, UnzipSizeLimit 150. -/
theorem readZip_error_leaves_files :
    ∃ s, readZip ⟨10, 150⟩ {} 0 0
      [⟨"xl/worksheets/sheet1.xml", 100, false, .none, ⟨"a", 100⟩⟩,
       ⟨"xl/worksheets/sheet2.xml", 100, false, .none, ⟨"b", 100⟩⟩] = .sizeErr s ∧ s.disk.length = 1 := by
  refine ⟨_, rfl, ?_⟩
  decide

/-! ## "The observable content of an opened workbook is the same for every admissible UnzipXMLSizeLimit/UnzipSizeLimit setting" -/

/-- `store_refines_map`, open part: after every successful open — any package (duplicate names,
directory entries, CRC failures), any limit pair — what `readBytes` delivers for each part name is
exactly the plain map of the package entries (later entry wins), which does not mention a limit:
whether a part sits in memory, in a temp file, or in both is invisible to readers. -/
theorem open_refines_map (l : Limits) (es : List Entry) (st : St) (h : openReader l es = .ok st) (n : String) :
    absAt st n = AMap.load (Spec.parts es []) n := by
  unfold openReader at h
  cases hc : checkOptions l with
  | none => simp [hc] at h
  | some l' =>
    simp only [hc] at h
    cases hr : readZip l' {} 0 0 es with
    | ok s w =>
      rw [hr] at h; injection h with h; subst h
      exact readZip_agree l' es {} 0 0 [] Inv0.init Agree.init s w hr n
    | sizeErr s => rw [hr] at h; simp at h
    | readErr s => rw [hr] at h; simp at h
    | panic s => rw [hr] at h; cases h

/-- two opens of the same package under different admissible limits deliver the same bytes for every part -/
theorem open_independent_of_limits (l1 l2 : Limits) (es : List Entry) (s1 s2 : St)
    (h1 : openReader l1 es = .ok s1) (h2 : openReader l2 es = .ok s2) (n : String) : absAt s1 n = absAt s2 n := by
  rw [open_refines_map l1 es s1 h1, open_refines_map l2 es s2 h2]

/-! ## "… and stays the same through subsequent reads, edits and saves" -/

/-- a successful open puts the store in the refinement relation with the plain map of the entries -/
theorem open_R (l : Limits) (es : List Entry) (st : St) (h : openReader l es = .ok st) :
    R st { m := Spec.parts es [] } := by
  have hfl : Fresh st := by
    unfold openReader at h
    cases hc : checkOptions l with
    | none => simp [hc] at h
    | some l' =>
      simp only [hc] at h
      have fr := readZip_fresh l' es {} 0 0 ⟨rfl, rfl, rfl⟩
      cases hr : readZip l' {} 0 0 es with
      | ok s w => rw [hr] at h fr; injection h with h; subst h; exact fr
      | sizeErr s => rw [hr] at h; simp at h
      | readErr s => rw [hr] at h; simp at h
      | panic s => rw [hr] at h; cases h
  refine ⟨open_establishes_inv l es st h, fun n _ => open_refines_map l es st h n, hfl.1, hfl.2.1, Or.inl hfl.2.2, ?_⟩
  intro hd; rw [hfl.2.1] at hd; cases hd

/-- after open only worksheets and the shared strings part can sit in tempFiles -/
theorem open_named (l : Limits) (es : List Entry) (st : St) (h : openReader l es = .ok st) : Named st := by
  unfold openReader at h
  cases hc : checkOptions l with
  | none => simp [hc] at h
  | some l' =>
    simp only [hc] at h
    have nm := readZip_named l' es {} 0 0 (fun k hk => by simp [AMap.load] at hk)
    cases hr : readZip l' {} 0 0 es with
    | ok s w => rw [hr] at h nm; injection h with h; subst h; exact nm
    | sizeErr s => rw [hr] at h; simp at h
    | readErr s => rw [hr] at h; simp at h
    | panic s => rw [hr] at h; cases h

/-- `store_refines_map`: for every package, every admissible limit pair and **every** history of
modelled operations (promoting reads, worksheet reads, flushes, streaming reads, shared-string
reader / index file / loader / first string write, saves, and — after the repair of DeleteSheet — sheet deletions, in any number and order) the two-tier
store stays a refinement of the limit-free plain-map machine: after the history each part reads
as the plain map says, and every read along the way returned the bytes the plain map returns.
Hypotheses (`AdmAll`, stated on the plain-map run, hence independent of the limits): part names
are not the key of the index file; serialisations written by flush/save are non-empty
(`saveFileList` prepends the XML header); and the serialisation law — re-marshalling an
*unmodified* shared string table yields the bytes it was decoded from. -/
theorem store_refines_map (l : Limits) (es : List Entry) (st : St) (h : openReader l es = .ok st)
    (ops : List Op) (adm : AdmAll { m := Spec.parts es [] } ops) :
    R (run st ops).1 (Spec.run { m := Spec.parts es [] } ops).1 ∧
    (∀ n, n ≠ sstKey → absAt (run st ops).1 n = AMap.load (Spec.run { m := Spec.parts es [] } ops).1.m n) ∧
    outsOk (run st ops).2 (Spec.run { m := Spec.parts es [] } ops).2 := by
  have rr := run_refines ops (open_R l es st h) (open_named l es st h) adm
  exact ⟨rr.1, rr.1.abs, rr.2⟩

/-- the blobs returned by the reads of a history -/
def blobsOf : List Out → List (Option Blob)
  | [] => []
  | .blob b :: r => some b :: blobsOf r
  | _ :: r => none :: blobsOf r

theorem blobsOf_eq : ∀ (a s : List Out), outsOk a s → blobsOf a = blobsOf s
  | [], [], _ => rfl
  | [], _ :: _, h => by cases h
  | _ :: _, [], h => by cases h
  | x :: r, y :: r', h => by
    have ih := blobsOf_eq r r' h.2
    have h1 : outOk x y := h.1
    cases x <;> cases y <;> simp [outOk] at h1 <;> simp [blobsOf, ih, h1]

/-- the property's first sentence, for whole histories: two opens of the same package under
different admissible limits, followed by the same history, read the same bytes at every read
and end with the same content for every part -/
theorem content_independent_of_limits (l1 l2 : Limits) (es : List Entry) (s1 s2 : St)
    (h1 : openReader l1 es = .ok s1) (h2 : openReader l2 es = .ok s2)
    (ops : List Op) (adm : AdmAll { m := Spec.parts es [] } ops) :
    (∀ n, n ≠ sstKey → absAt (run s1 ops).1 n = absAt (run s2 ops).1 n) ∧
    blobsOf (run s1 ops).2 = blobsOf (run s2 ops).2 := by
  have a := store_refines_map l1 es s1 h1 ops adm
  have b := store_refines_map l2 es s2 h2 ops adm
  exact ⟨fun n hn => (a.2.1 n hn).trans (b.2.1 n hn).symm,
    (blobsOf_eq _ _ a.2.2).trans (blobsOf_eq _ _ b.2.2).symm⟩

/-- non-vacuity of the admissibility hypothesis: a history with a read, a first-touch write of a
spilled sheet, a string write and a save (dirty table, so the law is not needed) is admissible -/
theorem nonvacuous_history :
    AdmAll ⟨Spec.parts
      [⟨"xl/sharedStrings.xml", 50, false, .none, ⟨"s", 50⟩⟩,
       ⟨"xl/worksheets/sheet1.xml", 100, false, .none, ⟨"a", 100⟩⟩] [], [], false, false⟩
      [.wsRead "xl/worksheets/sheet1.xml", .sstRead, .sstItem ⟨"f", 9⟩, .stream "xl/worksheets/sheet1.xml", .sstSet,
       .save [("xl/worksheets/sheet1.xml", ⟨"a2", 120⟩)] ⟨"s2", 60⟩ []] := by
  have k : "xl/worksheets/sheet1.xml" ≠ sstKey := by decide
  refine ⟨k, trivial, trivial, k, trivial, ⟨?_, ?_, by decide, ?_⟩, trivial⟩
  · intro p hp; simp at hp; subst hp; decide
  · intro p hp; cases hp
  · intro hd; exact absurd hd (by decide)

/-! ## the shared-string table as an object: "decoded from memory or streamed from temporary files" -/

/-- `sst_refines_list`: the shared-string machine (decoded part in memory or in a temp file,
`File.SharedStrings` incl. the empty placeholder decoded while the part is spilled, the index temp
file, `sharedStringsMap`, loader / reader / getValueFrom / setSharedString / writer) refines a
plain list of items: for **every** history of reads (cell, Rows, Cols), loader calls, string
writes and saves, every string returned, every index assigned by a write, and the resulting table
are those of the plain list -/
theorem sst_refines_list (st : Sst.St) (i : Sst.Inv st) (ops : List Sst.Op) :
    (Sst.run st ops).2 = (Sst.Spec.run (Sst.abs st) ops).2 ∧
    Sst.abs (Sst.run st ops).1 = (Sst.Spec.run (Sst.abs st) ops).1 :=
  ⟨(Sst.run_refines ops i).1, (Sst.run_refines ops i).2.1⟩

/-- the same history on the same shared strings part gives the same strings and the same indexes
whether the part was spilled at open (small UnzipXMLSizeLimit) or kept in memory -/
theorem sst_tier_independent (part : Sst.Tab) (ops : List Sst.Op) :
    (Sst.run { part := part, spilled := true, inPkg := false } ops).2 =
    (Sst.run { part := part, spilled := false, inPkg := true } ops).2 := by
  have a := Sst.run_refines ops (Sst.Inv.init part true false (fun h => by cases h))
  have b := Sst.run_refines ops (Sst.Inv.init part false true (fun _ h => by cases h))
  rw [a.1, b.1]
  rfl

/-- the i-th string read is independent of the tier, of the table object currently held and of
everything read or written before: in every reachable state it is the i-th item of the abstract table -/
theorem string_read_independent (st : Sst.St) (i : Sst.Inv st) (n : Nat) :
    (Sst.getStr (Sst.sstRead st) n).2 = (((Sst.abs st)[n]?).map (·.text)).getD (Sst.fallback n) :=
  Sst.getStr_spec i n

/-- a **live iterator** (Rows / Cols kept open across writes, loader calls and saves) returns, for a
shared-string index, the item of the table **at read time** — the plain list after everything that
happened since the iterator was created — not the table at creation time: `Rows.Columns` / `Cols.Rows`
fetch the table on every call and hold no table state (tied by the `siter` lines of the live-iterator
tokens `slo`/`sln`; seeded change C12a/2, which caches the table on the iterator, shows up as
transcript differences) -/
theorem live_iterator_reads_current_table (st : Sst.St) (i : Sst.Inv st) (between : List Sst.Op) (n : Nat) :
    (Sst.step (Sst.run st between).1 (.get n)).2 =
      .str ((((Sst.Spec.run (Sst.abs st) between).1[n]?).map (·.text)).getD (Sst.fallback n)) := by
  have r := Sst.run_refines between i
  have s := Sst.step_refines r.2.2 (.get n)
  rw [s.2.2, r.2.1]
  rfl

/-- `loader_promotion_resets_table` (round 5/2): sharedStringsLoader on a spilled shared strings part promotes it
(Pkg has the bytes, tempFiles entry gone) **and resets File.SharedStrings** — whatever the cached table was (e.g. the
empty placeholder decoded by a numeric-only read) and **whether or not the reader-index temp file exists** (`x`);
the reset sits in the promotion branch (fact `sstLoaderPromotesThenRemoves`, pinned by `facts_ok`) -/
theorem loader_promotion_resets_table (st : Sst.St) (hs : st.spilled = true) (x : Option (List String)) :
    (Sst.sstLoad { st with index := x }).table = none ∧ (Sst.sstLoad { st with index := x }).spilled = false ∧
    (Sst.sstLoad { st with index := x }).inPkg = true ∧ (Sst.sstLoad { st with index := x }).index = none ∧
    (Sst.sstLoad { st with index := x }).part = st.part := by
  simp [Sst.sstLoad, hs]

/-- `loader_promotion_keeps_content` (round 5/2): in every state reachable from an open (any part, either tier,
any history of reads / iterator reads / loader calls / string writes / saves) the promotion does not change the
abstract table, and the reader that follows it decodes exactly that table (not a stale placeholder) -/
theorem loader_promotion_keeps_content (part : Sst.Tab) (spilled inPkg : Bool)
    (h : spilled = false → inPkg = false → part = []) (ops : List Sst.Op) :
    Sst.abs (Sst.sstLoad (Sst.run { part := part, spilled := spilled, inPkg := inPkg } ops).1) =
      Sst.abs (Sst.run { part := part, spilled := spilled, inPkg := inPkg } ops).1 ∧
    (Sst.sstRead (Sst.sstLoad (Sst.run { part := part, spilled := spilled, inPkg := inPkg } ops).1)).table =
      some (Sst.abs (Sst.run { part := part, spilled := spilled, inPkg := inPkg } ops).1) := by
  have i := (Sst.run_refines ops (Sst.Inv.init part spilled inPkg h)).2.2
  have l := Sst.loadRead_spec i
  exact ⟨(Sst.sstLoad_spec i).2.1, l.2.2.2.2⟩

/-- `write_after_numeric_read_uses_real_table` (round 5/2): the history of the C12b/1 class for **every** part and
every written string: small UnzipXMLSizeLimit (part spilled), a numeric-only read first (caches the empty table,
builds no index file), then a string write, then anything — every result is that of the plain list of the part's
items (general form of the witness `first_write_after_numeric_read`) -/
theorem write_after_numeric_read_uses_real_table (part : Sst.Tab) (key text : String) (ops : List Sst.Op) :
    (Sst.sstRead { part := part, spilled := true, inPkg := false }).table = some [] ∧
    (Sst.sstRead { part := part, spilled := true, inPkg := false }).index = none ∧
    (Sst.run { part := part, spilled := true, inPkg := false } (.read :: .set key text :: ops)).2 =
      (Sst.Spec.run part (.read :: .set key text :: ops)).2 := by
  refine ⟨rfl, rfl, ?_⟩
  exact (Sst.run_refines _ (Sst.Inv.init part true false (fun h => by cases h))).1

/-- the first string write after numeric-only reads of a spilled table appends to the *real* table:
witness of the C12b/1 / C02a/2 class (a placeholder table that survives the loader) being excluded -/
theorem first_write_after_numeric_read :
    (Sst.run { part := [⟨some "a", "a"⟩, ⟨some "b", "b"⟩], spilled := true, inPkg := false }
      [.read, .set "c" "c", .get 0, .get 2]).2 = [.none, .idx 2, .str "a", .str "c"] := by decide

/-! ## the zip entry list of a saved package (writeToZip: Pkg branch and temp branch) -/

/-- Pkg keys are unique after every successful open -/
theorem open_pk (l : Limits) (es : List Entry) (st : St) (h : openReader l es = .ok st) : PK st := by
  unfold openReader at h
  cases hc : checkOptions l with
  | none => simp [hc] at h
  | some l' =>
    simp only [hc] at h
    have pk := readZip_pk l' es {} 0 0 List.nodup_nil
    cases hr : readZip l' {} 0 0 es with
    | ok s w => rw [hr] at h pk; injection h with h; subst h; exact pk
    | sizeErr s => rw [hr] at h; simp at h
    | readErr s => rw [hr] at h; simp at h
    | panic s => rw [hr] at h; cases h

/-- `saved_zip_no_duplicates`: for every package, every limit pair and every history of modelled
operations, a save writes **no two entries with the same name** — whatever was spilled, promoted,
rewritten or deleted before (the Pkg branch lists each Pkg key once, the temp branch only names that
are spilled and not in Pkg) -/
theorem saved_zip_no_duplicates (l : Limits) (es : List Entry) (st : St) (h : openReader l es = .ok st)
    (ops : List Op) (w : Map Blob) (s : Blob) (o : Map Blob) :
    (AMap.keys (save (run st ops).1 w s o).2).Nodup :=
  (save_zip_struct (run_inv ops (open_establishes_inv l es st h))
    (run_pk ops (open_establishes_inv l es st h) (open_pk l es st h)) w s o).1

/-- `saved_zip_lookup`: in every reachable state the entry written for a name is the Pkg content if Pkg
has the name, else — for a name that is only spilled — the bytes of its temp file, else nothing:
**no orphan entry** (every listed name is a Pkg key or a tempFiles key) and **nothing missing** -/
theorem saved_zip_lookup (l : Limits) (es : List Entry) (st : St) (h : openReader l es = .ok st)
    (ops : List Op) (w : Map Blob) (s : Blob) (o : Map Blob) (n : String) :
    AMap.load (save (run st ops).1 w s o).2 n =
      match AMap.load (saveMid (run st ops).1 w s o).pkg n with
      | some b => some b
      | none => if n ∈ AMap.keys (saveMid (run st ops).1 w s o).temp
                then some ((absAt (saveMid (run st ops).1 w s o) n).getD emptyBlob) else none :=
  (save_zip_struct (run_inv ops (open_establishes_inv l es st h))
    (run_pk ops (open_establishes_inv l es st h) (open_pk l es st h)) w s o).2 n

/-- no part is an empty Pkg entry next to a temp file with other bytes — after every successful open -/
theorem open_nse (l : Limits) (es : List Entry) (st : St) (h : openReader l es = .ok st) : NSE st := by
  unfold openReader at h
  cases hc : checkOptions l with
  | none => simp [hc] at h
  | some l' =>
    simp only [hc] at h
    have ns := readZip_nse l' es {} 0 0 Inv0.init (fun n _ b c hb _ _ => by simp [AMap.load] at hb)
    cases hr : readZip l' {} 0 0 es with
    | ok s w => rw [hr] at h ns; injection h with h; subst h; exact ns
    | sizeErr s => rw [hr] at h; simp at h
    | readErr s => rw [hr] at h; simp at h
    | panic s => rw [hr] at h; cases h

/-- `saved_zip_refines_map` (full; was `…_partial` with the hypothesis `NoStaleEmpty`, which is now the
invariant `NSE`, established by open and preserved by every admissible step): the package written by a
save after any admissible history lists, for every part name, exactly the bytes of the limit-free
plain map after that save — the same entries under every limit pair, no orphan, nothing missing -/
theorem saved_zip_refines_map (l : Limits) (es : List Entry) (st : St) (h : openReader l es = .ok st)
    (ops : List Op) (adm : AdmAll { m := Spec.parts es [] } ops) (w : Map Blob) (s : Blob) (o : Map Blob)
    (a : Adm (Spec.run { m := Spec.parts es [] } ops).1 (.save w s o)) (n : String) (hn : n ≠ sstKey) :
    AMap.load (save (run st ops).1 w s o).2 n =
      AMap.load (Spec.step (Spec.run { m := Spec.parts es [] } ops).1 (.save w s o)).1.m n :=
  save_zip_refines (store_refines_map l es st h ops adm).1
    (run_pk ops (open_establishes_inv l es st h) (open_pk l es st h))
    (run_nse ops (open_establishes_inv l es st h) (open_nse l es st h) adm) w s o a n hn

/-- two opens under different limits, the same admissible history, the same save: the two saved
packages have the same entry for every part name -/
theorem saved_zip_independent_of_limits (l1 l2 : Limits) (es : List Entry) (s1 s2 : St)
    (h1 : openReader l1 es = .ok s1) (h2 : openReader l2 es = .ok s2)
    (ops : List Op) (adm : AdmAll { m := Spec.parts es [] } ops) (w : Map Blob) (s : Blob) (o : Map Blob)
    (a : Adm (Spec.run { m := Spec.parts es [] } ops).1 (.save w s o)) (n : String) (hn : n ≠ sstKey) :
    AMap.load (save (run s1 ops).1 w s o).2 n = AMap.load (save (run s2 ops).1 w s o).2 n := by
  rw [saved_zip_refines_map l1 es s1 h1 ops adm w s o a n hn, saved_zip_refines_map l2 es s2 h2 ops adm w s o a n hn]

/-! ## all three loops of writeToZip (stream parts, Pkg, tempFiles) -/

/-- `zip_three_loops_no_duplicates`: whatever File.streams, File.Pkg and File.tempFiles hold (each a
map: unique keys), writeToZip writes no entry name twice — the Pkg loop skips stream parts and the
temp loop skips Pkg parts **and** stream parts (regenerated facts `zipPkgBranchSkipsStreams`,
`zipTempBranchSkipsStreams`) -/
theorem zip_three_loops_no_duplicates (streams pkg temp : List String)
    (hs : streams.Nodup) (hp : pkg.Nodup) (ht : temp.Nodup) : (ZipList.zipNames streams pkg temp).Nodup :=
  ZipList.zipNames_nodup hs hp ht

/-- no orphan, nothing missing: the names written are exactly those held in one of the three collections -/
theorem zip_three_loops_names (streams pkg temp : List String) (n : String) :
    n ∈ ZipList.zipNames streams pkg temp ↔ n ∈ streams ∨ n ∈ pkg ∨ n ∈ temp :=
  ZipList.mem_zipNames streams pkg temp n

/-- `zip_three_loops_perm_union` (round 5): the entry names written by the three loops of writeToZip are,
with multiplicity, the union of the key sets of File.streams, File.Pkg and File.tempFiles — a permutation
of every duplicate-free list holding exactly those names; in particular as many entries as distinct names -/
theorem zip_three_loops_perm_union (streams pkg temp u : List String)
    (hs : streams.Nodup) (hp : pkg.Nodup) (ht : temp.Nodup) (hu : u.Nodup)
    (h : ∀ n, n ∈ u ↔ n ∈ streams ∨ n ∈ pkg ∨ n ∈ temp) :
    List.Perm (ZipList.zipNames streams pkg temp) u ∧ (ZipList.zipNames streams pkg temp).length = u.length :=
  ⟨ZipList.zipNames_perm_of_union hs hp ht hu h, (ZipList.zipNames_perm_of_union hs hp ht hu h).length_eq⟩

/-- `zip_three_loops_tier_independent` (round 5): limit-independence of the three-loop listing — two stores
with the same stream parts whose File.Pkg / File.tempFiles hold the same part names *between them* (which
tier holds a part is what UnzipXMLSizeLimit and the history of promotions decide) write the same entry
names with the same multiplicity, whatever the split -/
theorem zip_three_loops_tier_independent (streams pkg1 temp1 pkg2 temp2 : List String)
    (hs : streams.Nodup) (hp1 : pkg1.Nodup) (ht1 : temp1.Nodup) (hp2 : pkg2.Nodup) (ht2 : temp2.Nodup)
    (h : ∀ n, (n ∈ pkg1 ∨ n ∈ temp1) ↔ (n ∈ pkg2 ∨ n ∈ temp2)) :
    List.Perm (ZipList.zipNames streams pkg1 temp1) (ZipList.zipNames streams pkg2 temp2) :=
  ZipList.zipNames_tier_independent hs hp1 ht1 hp2 ht2 h

/-- the order of the entries does depend on the tier split (witness), so "same names with the same
multiplicity" is the full-strength tier-independent statement, not a weakening of list equality -/
theorem zip_order_depends_on_tier :
    ZipList.zipNames [] ["xl/a.xml", "xl/z.xml"] [] ≠ ZipList.zipNames [] ["xl/a.xml"] ["xl/z.xml"] :=
  ZipList.order_depends_on_tier

/-- the temp loop without the stream test (the code before the second fix window) wrote a
stream-rewritten spilled worksheet twice -/
theorem zip_old_temp_loop_duplicates :
    ¬ (ZipList.zipNamesOld ["xl/worksheets/sheet1.xml"] ["xl/workbook.xml"] ["xl/worksheets/sheet1.xml"]).Nodup :=
  ZipList.old_temp_loop_duplicates

/-! ## DeleteSheet after a spilled open -/

/-- `close_cleans` over histories with sheet deletions: the repaired DeleteSheet (`Op.forget`)
deletes the tempFiles entry of a spilled worksheet **and** removes its file (facts
`deleteSheetDropsTemp`, `deleteSheetRemovesFile`), which keeps the accounting invariant, so Close
leaves nothing — for every package, limit pair and history in which deletions are interleaved with
all other modelled operations.  (Dropping the entry without removing the file — seeded change
C12d/2 — flips the second fact and breaks `forget_inv`.) -/
theorem close_cleans_with_deletes (l : Limits) (es : List Entry) (st : St) (h : openReader l es = .ok st)
    (ops1 ops2 : List Op) (n rels : String) :
    (close (run st (ops1 ++ [.forget n rels] ++ ops2)).1).1.disk = [] :=
  (close_cleans l es st h (ops1 ++ [.forget n rels] ++ ops2)).1

/-- DeleteSheet is limit-independent after the repair (was `finding_deleted_spilled_part_survives`):
the part of a deleted worksheet is gone whether it was spilled at open or not, and the file of the
spilled one is removed at once -/
theorem deleted_part_gone_under_every_limit :
    ∃ s1 s2,
      openReader ⟨10, 0⟩ [⟨"xl/worksheets/sheet1.xml", 100, false, .none, ⟨"a", 100⟩⟩,
                          ⟨"xl/worksheets/sheet2.xml", 5, false, .none, ⟨"b", 5⟩⟩] = .ok s1 ∧
      openReader ⟨0, 0⟩ [⟨"xl/worksheets/sheet1.xml", 100, false, .none, ⟨"a", 100⟩⟩,
                         ⟨"xl/worksheets/sheet2.xml", 5, false, .none, ⟨"b", 5⟩⟩] = .ok s2 ∧
      s1.disk.length = 1 ∧
      (step s1 (.forget "xl/worksheets/sheet1.xml" "xl/worksheets/_rels/sheet1.xml.rels")).1.disk.length = 0 ∧
      absAt (step s1 (.forget "xl/worksheets/sheet1.xml" "xl/worksheets/_rels/sheet1.xml.rels")).1
        "xl/worksheets/sheet1.xml" = none ∧
      absAt (step s2 (.forget "xl/worksheets/sheet1.xml" "xl/worksheets/_rels/sheet1.xml.rels")).1
        "xl/worksheets/sheet1.xml" = none := by
  refine ⟨_, _, rfl, rfl, ?_, ?_, ?_, ?_⟩ <;> decide

/-- the admissibility hypothesis of `store_refines_map` is inhabited by a history that deletes a
spilled worksheet between a read and a save -/
theorem nonvacuous_history_with_delete :
    AdmAll ⟨Spec.parts
      [⟨"xl/worksheets/sheet1.xml", 100, false, .none, ⟨"a", 100⟩⟩,
       ⟨"xl/worksheets/sheet2.xml", 100, false, .none, ⟨"b", 100⟩⟩] [], [], false, false⟩
      [.wsRead "xl/worksheets/sheet2.xml", .forget "xl/worksheets/sheet1.xml" "xl/worksheets/_rels/sheet1.xml.rels",
       .sstSet, .save [("xl/worksheets/sheet2.xml", ⟨"b2", 120⟩)] ⟨"s2", 60⟩ []] := by
  have k : "xl/worksheets/sheet2.xml" ≠ sstKey := by decide
  refine ⟨k, ⟨by decide, by decide, by decide, by decide, by decide, by decide⟩, trivial, ⟨?_, ?_, by decide, ?_⟩, trivial⟩
  · intro p hp; simp at hp; subst hp; decide
  · intro p hp; cases hp
  · intro hd; exact absurd hd (by decide)

/-! ## non-vacuity -/

/-- the hypotheses of `close_cleans` are satisfiable with spilled parts: a package with a
spilled worksheet and spilled shared strings opens under UnzipXMLSizeLimit = 10, two files are
on disk, and after a history that touches both (string read creating the index file, write,
save) Close leaves nothing -/
theorem nonvacuous_spill :
    ∃ st, openReader ⟨10, 0⟩
      [⟨"xl/sharedStrings.xml", 50, false, .none, ⟨"s", 50⟩⟩,
       ⟨"xl/worksheets/sheet1.xml", 100, false, .none, ⟨"a", 100⟩⟩,
       ⟨"xl/workbook.xml", 5, false, .none, ⟨"w", 5⟩⟩] = .ok st ∧ st.disk.length = 2 ∧
      (run st [.wsRead "xl/worksheets/sheet1.xml", .sstRead, .sstItem ⟨"f", 9⟩]).1.disk.length = 3 ∧
      (close (run st [.wsRead "xl/worksheets/sheet1.xml", .sstRead, .sstItem ⟨"f", 9⟩, .sstSet,
        .save [("xl/worksheets/sheet1.xml", ⟨"a2", 120⟩)] ⟨"s2", 60⟩ []]).1).1.disk = [] := by
  refine ⟨_, rfl, ?_, ?_, ?_⟩ <;> decide

/-- the rejection side is inhabited too, and leaves nothing behind -/
theorem nonvacuous_reject :
    ∃ d, openReader ⟨10, 150⟩
      [⟨"xl/worksheets/sheet1.xml", 100, false, .none, ⟨"a", 100⟩⟩,
       ⟨"xl/worksheets/sheet2.xml", 100, false, .none, ⟨"b", 100⟩⟩] = .err d ∧ d.length = 0 := by
  refine ⟨_, rfl, ?_⟩
  decide

end XlModel.Props.C12
