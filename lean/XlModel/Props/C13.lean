import XlModel.Lemmas.Cfb
import XlModel.Lemmas.CfbRead
namespace XlModel.Props.C13
open XlModel.Cfb

theorem placeholder : locate [] ≠ none := by decide

end XlModel.Props.C13
