/-
C13 — "Password protection round-trips and gates access".

Property theorems about the model `XlModel.Cfb` (transcription of crypt.go's
compound-file writer and of the Encrypt/standardDecrypt framing; constants
from `XlModel.Facts.C13`, regenerated from crypt.go on every run).

Clauses of the property and where they are settled:
* "for every package size, because the layout of the encrypted container
  (mini-stream, FAT and DIFAT sectors) changes with size"
    → `locate_total`, `locate_covers`, `difat_covers`, `difat_sectors_wellformed`,
      `tables_fill_their_sectors`, `chains_wellformed`, `chain_capacity`,
      `stream_start_recorded` (all sizes, all stream lists; no bound);
* "Encrypt followed by Decrypt returns the original bytes"
    → `encrypt_decrypt_package` (framing, any lawful block cipher, any length < 2^64),
      `encrypt_decrypt_file_partial` (whole file, reader round trip as explicit hypothesis);
* "opens with that password to exactly the same content", wrong/missing password,
  Office fixtures → direct oracles on the Go code only (see design.d/C13.md).
-/
import XlModel.Lemmas.Cfb
import XlModel.Lemmas.CfbRead
import XlModel.Lemmas.CfbRW
import XlModel.Lemmas.Crypt
import XlModel.Lemmas.CryptFull

namespace XlModel.Props.C13
open XlModel.Cfb XlModel.Crypt XlModel.CryptFull XlModel.Facts.C13

/-- *every package size*: `locate`'s FAT/DIFAT loop terminates for every list of stream sizes
(the model's fuel `sectors + 2` is never exhausted). -/
theorem locate_total (sizes : List Nat) : ∃ l, locate sizes = some l := locate_some sizes

/-- *FAT covers the container*: for every size the FAT sectors × 128 entries cover all sectors of
the file including the FAT and DIFAT sectors themselves, and no FAT sector is superfluous
(`fat = ⌈sectors / 128⌉`), and the recorded file length is header + those sectors. -/
theorem locate_covers {sizes : List Nat} {l : Loc} (h : locate sizes = some l) :
    l.sectors ≤ l.fat * 128 ∧ l.fat * 128 < l.sectors + 128 ∧ l.total = 1 + l.sectors := by
  obtain ⟨_, _, _, _, _, _, h7, _, h9, h10⟩ := locate_spec h
  exact ⟨h9, h10, h7⟩

/-- *DIFAT threshold*: the 109 header entries plus 127 entries per DIFAT sector list every FAT
sector, and no DIFAT sector is superfluous — for every size, across the 109-FAT-sector threshold. -/
theorem difat_covers {sizes : List Nat} {l : Loc} (h : locate sizes = some l) :
    l.fat ≤ msatHdr + msatPer * l.difat ∧ (0 < l.difat → msatHdr + msatPer * (l.difat - 1) < l.fat) := by
  obtain ⟨_, _, _, _, h5, _⟩ := locate_spec h
  rw [h5]; exact difat_cover l.fat

/-- *DIFAT sectors*: each DIFAT sector written by `writeMSAT` holds the next 127 FAT-sector ids
followed by the id of the next DIFAT sector (ENDOFCHAIN in the last), the DIFAT region is a whole
number of sectors, and entry `i < fat` names sector `difat + i`. -/
theorem difat_sectors_wellformed (loc : Loc) :
    (∀ n offset, msatTail loc (n + 1) offset (msatHdr + msatPer * offset)
      = (List.range' (msatHdr + msatPer * offset) msatPer).map (msatEntry loc)
        ++ [if offset = loc.difat - 1 then endOfChain else ((offset + 1 : Nat) : Int)]
        ++ msatTail loc n (offset + 1) (msatHdr + msatPer * (offset + 1))) ∧
    (msatTail loc loc.difat 0 msatHdr).length = 128 * loc.difat ∧
    (msatHead loc).length = 109 ∧
    (∀ i, i < loc.fat → msatEntry loc i = ((loc.difat + i : Nat) : Int)) :=
  ⟨fun n o => msatTail_block loc n o, msatTail_length loc loc.difat 0, msatHead_length loc, msatEntry_fat loc⟩

/-- *tables land where the header says*: at the positions at which `write` emits them, the FAT has
one entry per sector and is padded to exactly `fat` sectors, and the mini FAT to exactly `minifat`
sectors — hence first-miniFAT = difat+fat and first-directory = difat+fat+minifat are correct. -/
theorem tables_fill_their_sectors {sizes : List Nat} {l : Loc} (h : locate sizes = some l) :
    let tail := msatTail l l.difat 0 msatHdr
    let fat := padWords (19 + msatHdr + tail.length) (fatWords l sizes)
    (fatWords l sizes).length = l.sectors ∧ fat.length = l.fat * 128 ∧
    (padWords (19 + msatHdr + tail.length + fat.length) (miniFatWords sizes)).length = l.minifat * 128 := by
  intro tail fat
  have ht : tail.length = 128 * l.difat := msatTail_length l l.difat 0
  have hf : fat.length = l.fat * 128 :=
    fat_exact_sectors h _ (by rw [ht]; simp only [msatHdr]; omega)
  refine ⟨fatWords_length h, hf, ?_⟩
  exact minifat_exact_sectors h _ (by rw [ht, hf]; simp only [msatHdr]; omega)

/-- *chains well-formed*: in the FAT written by `writeSectorChains` (whatever the padding), following
the chain of the mini FAT, of the directory, of every stream at or above the cutoff and of the mini
stream container from its recorded start visits exactly the consecutive sectors reserved for it and
ends with ENDOFCHAIN; likewise every stream below the cutoff in the mini FAT. All sizes, any number
of streams. -/
theorem chains_wellformed (loc : Loc) (sizes : List Nat) (p : Nat) :
    (0 < loc.minifat →
      followChain (padWords p (fatWords loc sizes)) ((padWords p (fatWords loc sizes)).length + 1)
        ((loc.difat + loc.fat : Nat) : Int) = .ok (List.range' (loc.difat + loc.fat) loc.minifat)) ∧
    (0 < loc.dir →
      followChain (padWords p (fatWords loc sizes)) ((padWords p (fatWords loc sizes)).length + 1)
        ((loc.difat + loc.fat + loc.minifat : Nat) : Int)
        = .ok (List.range' (loc.difat + loc.fat + loc.minifat) loc.dir)) ∧
    (∀ (j sz st : Nat), sizes[j]? = some sz → (chainStarts chBig sizes (fatBase loc))[j]? = some st → 0 < chBig sz →
      followChain (padWords p (fatWords loc sizes)) ((padWords p (fatWords loc sizes)).length + 1)
        ((st : Nat) : Int) = .ok (List.range' st (chBig sz))) ∧
    (0 < shr (loc.mini + chMssAdd) chMssShift →
      followChain (padWords p (fatWords loc sizes)) ((padWords p (fatWords loc sizes)).length + 1)
        ((fatBase loc + sumBig sizes : Nat) : Int)
        = .ok (List.range' (fatBase loc + sumBig sizes) (shr (loc.mini + chMssAdd) chMssShift))) ∧
    (∀ (j sz st : Nat), sizes[j]? = some sz → (chainStarts chMini sizes 0)[j]? = some st → 0 < chMini sz →
      followChain (padWords p (miniFatWords sizes)) ((padWords p (miniFatWords sizes)).length + 1)
        ((st : Nat) : Int) = .ok (List.range' st (chMini sz))) := by
  refine ⟨fat_minifat_chain loc sizes p, fat_dir_chain loc sizes p,
    fun j sz st h1 h2 h3 => fat_stream_chain loc sizes p j sz st h1 h2 h3, ?_,
    fun j sz st h1 h2 h3 => minifat_stream_chain sizes p j sz st h1 h2 h3⟩
  intro h
  have := fat_container_chain loc sizes p h
  rw [chainEnd_big] at this
  exact this

/-- *chains hold the data*: the chain reserved for a stream is long enough for its recorded size with
less than one (mini) sector of slack, the cutoffs of `locate`, `writeSectorChains` agree, and the
root entry's size is the whole mini stream, held by its chain. -/
theorem chain_capacity :
    (∀ sz, chCutoffBig ≤ sz → sz ≤ 512 * chBig sz ∧ 512 * chBig sz < sz + 512) ∧
    (∀ sz, 0 < sz → sz < chCutoffMini → sz ≤ 64 * chMini sz ∧ 64 * chMini sz < sz + 64) ∧
    (∀ sz, chBig sz = locBig sz ∧ chMini sz = locMini sz) ∧
    (∀ sizes l, locate sizes = some l →
      l.rootSize = 64 * sumMini sizes ∧ l.rootSize ≤ 512 * shr (l.mini + chMssAdd) chMssShift) :=
  ⟨chBig_capacity, chMini_capacity, fun sz => ⟨chBig_eq_locBig sz, chMini_eq_locMini sz⟩,
   fun _ _ h => container_capacity h⟩

/-- *which variable receives `start`*: the start written to a stream's directory entry is the head
of its FAT chain (size ≥ cutoff) or of its mini FAT chain (0 < size < cutoff). Holds because
`writeSectorChains` stores the mini start in `c.sectors[j]` (fact `chMiniStartStored`); on the
tree before the fix the mini case was `0` for every stream. -/
theorem stream_start_recorded (sz b m : Nat) :
    (chCutoffBig ≤ sz → streamStart sz b m = b) ∧ (0 < sz → sz < chCutoffMini → streamStart sz b m = m) := by
  have hs : chMiniStartStored = true := rfl
  constructor
  · intro h
    have := (chBig_capacity sz h).1
    unfold streamStart
    have : chBig sz ≠ 0 := by
      intro h0; rw [h0] at this
      simp only [chCutoffBig] at h; omega
    rw [if_pos this]
  · intro h0 h
    have hc := (chMini_capacity sz h0 h).1
    have hm : chMini sz ≠ 0 := by intro hz; rw [hz] at hc; omega
    have hb : ¬ (chBig sz ≠ 0) := by
      unfold chBig; simp only [chCutoffBig, chCutoffMini] at *
      rw [if_neg (by omega), if_pos (by omega)]; simp
    unfold streamStart
    rw [if_neg hb, if_pos hm, hs]; rfl

/-- *Encrypt followed by Decrypt returns the original bytes* (framing): for every block cipher that
is a length-preserving bijection on 16-byte blocks and every plaintext (length < 2^64, any
remainder mod 16), `standardDecrypt` applied to the EncryptedPackage stream built by `Encrypt`
returns exactly the plaintext: the 8-byte length prefix is read back and the zero padding removed. -/
theorem encrypt_decrypt_package (c : Cipher) (hc : c.Lawful) (raw : List Byte) (hn : raw.length < 2 ^ 64) :
    standardDecryptPkg c (encryptedPackage c raw) = .ok raw :=
  standardDecrypt_encryptedPackage c hc raw hn

/-- *every package size* (container round trip): for **every** list of streams (any number, any
names, any sizes — empty, below the 4096-byte cutoff, above it, across every FAT and DIFAT
threshold) `write` succeeds (`locate` terminates, no stream is misplaced) and the [MS-CFB]
reference reader — header → DIFAT chain → FAT → directory chain → mini FAT → mini stream
container → per-stream FAT / mini FAT chain from the directory entry's start, cut to the recorded
size — returns exactly the streams that were put in, in order. -/
theorem cfb_read_write (streams : List Stream) :
    ∃ img, write streams = .ok img ∧ read img = .ok streams := read_write streams

/-- *Encrypt followed by Decrypt returns the original bytes* (whole file, full strength): for every
lawful block cipher, every EncryptionInfo content the decryptor classifies as standard and every
plaintext (< 2^64 bytes): `Encrypt` produces a compound file and `Decrypt` — reference reader,
stream lookup by name, mechanism check, `standardDecrypt` — returns exactly the plaintext. -/
theorem encrypt_decrypt_file (c : Cipher) (hc : c.Lawful) (isStd : List Byte → Bool)
    (info raw : List Byte) (hn : raw.length < 2 ^ 64) (hi : isStd info = true) :
    ∃ img, encryptFile c info raw = .ok img ∧ decryptFile c isStd img = .ok raw := by
  obtain ⟨img, hw, hr⟩ := read_write [⟨infoName, info⟩, ⟨pkgName, encryptedPackage c raw⟩]
  refine ⟨img, hw, ?_⟩
  unfold decryptFile
  rw [hr]
  have h1 : findStream infoName [⟨infoName, info⟩, ⟨pkgName, encryptedPackage c raw⟩] = info := by
    simp [findStream]
  have h2 : findStream pkgName [⟨infoName, info⟩, ⟨pkgName, encryptedPackage c raw⟩] = encryptedPackage c raw := by
    have : infoName ≠ pkgName := by decide
    simp [findStream, this]
  simp only [h1, h2, hi, if_true]
  exact standardDecrypt_encryptedPackage c hc raw hn

/-- *interoperability parameters*: the ECMA-376 standard-encryption constants `Encrypt` and
`standardDecrypt` use (spin count 50000, AES-128, 16-byte blocks, 8-byte length prefix), and the two
sides agree on prefix and block size. -/
theorem standard_parameters :
    iterCount = 50000 ∧ encBlock = 16 ∧ encKeyBits = 128 ∧ encPrefix = 8 ∧ decOffset = encPrefix ∧
    decPrefix = encPrefix ∧ decBlock = encBlock ∧ packageOffset = 8 := by decide

/-- *agile documents decrypt to valid packages* (segment loop, full strength): for **every**
EncryptedPackage stream length `N + 8` — empty, shorter than a segment, any number of segments,
cipher text a multiple of 4096 or not, block aligned or not — `decryptPackage` takes exactly the
chunks the format prescribes: `input[8:]` cut into consecutive 4096-byte segments (the last holds
the rest), every byte visited exactly once, segment `i` decrypted with the IV built from index `i`;
no slice is ever inverted (the model has no panic outcome left). A stream shorter than the 8-byte
size prefix is rejected. -/
theorem agile_segments_partition (N : Nat) :
    decryptPackageSegs (N + packageOffset) = .ok (specSegs N) ∧
    (∀ L, L < packageOffset → decryptPackageSegs L = .err) := by
  constructor
  · unfold decryptPackageSegs
    rw [if_neg (by omega), Nat.add_sub_cancel]
    have h := agileLoop_spec N ((N + (packageEncryptionChunkSize - 1)) / packageEncryptionChunkSize) 0 (N + 1)
      (by omega) (by simp only [packageEncryptionChunkSize]; omega)
    simp only [Nat.mul_zero] at h
    rw [h, specSegs_eq]
  · intro L hL
    unfold decryptPackageSegs
    rw [if_pos hL]

/-- *agile documents decrypt to valid packages* (output length of the segment loop, every cipher-text
length): the bytes `decryptPackage` appends over all segments — each chunk zero-padded to the AES block —
add up to the cipher-text length `N` rounded up to 16: never fewer bytes than the cipher text holds
(so a declared package size `≤ N` is always covered), fewer than `N + 16`, a whole number of blocks,
and exactly `N` for block-aligned cipher text (what a conforming encryptor writes). -/
theorem agile_output_length (N : Nat) :
    ∃ segs, decryptPackageSegs (N + packageOffset) = .ok segs ∧
      outLen segs = pad16 N ∧ N ≤ outLen segs ∧ outLen segs < N + 16 ∧ outLen segs % 16 = 0 ∧
      (N % 16 = 0 → outLen segs = N) := by
  refine ⟨specSegs N, (agile_segments_partition N).1, ?_⟩
  have h := outLen_segs N ((N + (packageEncryptionChunkSize - 1)) / packageEncryptionChunkSize) 0 (by omega)
  rw [← specSegs_eq, Nat.mul_zero, Nat.sub_zero] at h
  rw [h]
  unfold pad16
  omega

/-- *documents protected with agile encryption decrypt to valid packages* (data flow, full
strength): for every CBC cipher that is a length-preserving bijection on block-aligned messages for
each IV index, and every plaintext, `decryptPackage` — segment loop, zero padding, decryption of
segment `i` with IV `i`, concatenation — applied to the EncryptedPackage stream the format's
encryptor produces (8-byte length, 4096-byte segments, last one padded, segment `i` under IV `i`)
returns the plaintext followed only by the zero padding to the block; cutting to the recorded
length gives exactly the plaintext. -/
theorem agile_encrypt_decrypt (c : Cbc) (hc : c.Lawful) (plain : List Nat) :
    agileDecryptPkg c (agileEncryptPkg c plain) = some (pad16l plain) ∧
    (pad16l plain).take plain.length = plain := by
  constructor
  · unfold agileDecryptPkg agileEncryptPkg
    have hl8 : (le64n plain.length).length = 8 := by simp [le64n]
    have hlen : (le64n plain.length ++ agileEncData c plain.length 0 plain).length
        = (agileEncData c plain.length 0 plain).length + packageOffset := by
      simp only [List.length_append, hl8, packageOffset]; omega
    rw [hlen, (agile_segments_partition _).1]
    simp only []
    rw [specSegs_eq]
    have h2 := agileDecData_eq_segs c (le64n plain.length) (agileEncData c plain.length 0 plain) hl8
      (((agileEncData c plain.length 0 plain).length + (packageEncryptionChunkSize - 1)) / packageEncryptionChunkSize)
      0 ((agileEncData c plain.length 0 plain).length + 1) (by omega)
      (by simp only [packageEncryptionChunkSize]; omega)
    simp only [Nat.mul_zero, List.drop_zero] at h2
    rw [← h2]
    exact congrArg some (agileDec_enc c hc plain.length 0 plain (Nat.le_refl _) _ (by omega))
  · unfold pad16l; simp

/-- *wrong or damaged input returns an error, never a crash* (standard-encryption descriptor): for
every EncryptionInfo content and every EncryptedPackage length, each slice expression of
`standardDecrypt` / `standardEncryptionVerifier` (header-size field, header block and its fields,
verifier blob: salt, encrypted verifier, hash size, encrypted hash `[40:60]` for RC4 / `[40:72]` for
AES, `encryptedPackageBuf[8:]`) is in range once the guards in front of it have passed — the model's
panic outcome is unreachable. Relies on the per-algorithm guard table `{RC4: 60, AES: 72}` covering
the last slice of `standardEncryptionVerifier` (both are regenerated facts). -/
theorem standard_guards_no_panic (info : List Nat) (pkgLen : Nat) :
    standardGuards info pkgLen ≠ .panic ∧
    (∀ alg, verifierEnd alg ≤ verifierMin alg) := by
  refine ⟨standardGuards_no_panic info pkgLen, ?_⟩
  intro alg
  unfold verifierEnd verifierMin
  split <;> decide

/-- *every password the API accepts … any Unicode text*: the UTF-16LE conversion applied to the
password before key derivation (BMP code units, surrogate pairs above U+FFFF) is injective on
Unicode scalar sequences, so two different passwords never feed the same bytes into the hash. -/
theorem password_encoding_injective (a b : List Char) (h : utf16le a = utf16le b) : a = b :=
  utf16le_injective a b h

/-- *gates access* (what the key derivation is fed): `hashing("sha1", verifier.Salt, passwordBuffer)` and
the agile `salt ‖ passwordBuffer` hash the salt followed by the UTF-16LE password; for a fixed salt two
different passwords always give different hash inputs. That different inputs give different keys, and a
different key no valid package, is the cryptographic assumption of the trusted base (exercised by the
wrong-password oracles), not a theorem. -/
theorem derivation_input_injective (salt : List Nat) (a b : List Char)
    (h : salt ++ utf16le a = salt ++ utf16le b) : a = b :=
  utf16le_injective a b (List.append_cancel_left h)

/-- *key derivation: 50000 SHA-1 iterations over the UTF-16LE password* (structure, hash abstract): for
every hash function `H`, `standardConvertPasswdToKey` and the agile `convertPasswdToKey` compute the
composition [MS-OFFCRYPTO] prescribes — H₀ = H(salt ‖ pw), Hₙ = H(le32(n−1) ‖ Hₙ₋₁) for `iterCount`
/ `spinCount` rounds, then H(Hₙ ‖ le32 0) and the 0x36 / 0x5c derivation cut to `keyBits/8` bytes
(standard), or H(Hₙ ‖ blockKey) cut or extended to `keyBits/8` (agile) — as a function of
(salt, UTF-16LE password, rounds, key bits) only. -/
theorem key_derivation_spec (H : List Nat → List Nat) (salt pw16 blockKey : List Nat) (spinCount keyBits : Nat) :
    standardKey H salt pw16 keyBits =
      (let hFinal := H (specIterate H iterCount (H (salt ++ pw16)) ++ le32b 0)
       let x3 := H (xorPad hFinal 0x36) ++ H (xorPad hFinal 0x5c)
       if keyBits / 8 > x3.length then none else some (x3.take (keyBits / 8))) ∧
    agileKey H salt pw16 blockKey spinCount keyBits =
      (let key := H (specIterate H spinCount (H (salt ++ pw16)) ++ blockKey)
       if key.length < keyBits / 8 then key ++ List.replicate 0x36 0
       else if key.length > keyBits / 8 then key.take (keyBits / 8) else key) := by
  constructor
  · unfold standardKey standardHFinal; rw [spin_eq_spec]
  · unfold agileKey; rw [spin_eq_spec]

/-- *the hash is a function* (what lets the models treat `hashing` as `H : bytes → digest`): `hashing`
allocates its hash objects on every call — there is no package-level hash state that consecutive or
concurrent key derivations (Encrypt/Decrypt/OpenReader in other goroutines) could share — and
`standardXORBytes` returns a fresh slice without writing to its arguments, so the final hash feeds X1
and X2 unchanged. Both are facts regenerated from crypt.go; the concurrent witness (`conc`) and the
AES-192/256 documents (`stdsyn`) exercise them on the Go code. -/
theorem hash_is_a_pure_function : hashingPerCall = true ∧ xorBytesPure = true := ⟨rfl, rfl⟩

/-- *gates access* (one step further than `derivation_input_injective`): if the hash is injective
(collision freeness, the assumption recorded in the trusted base) then for a fixed salt two different
passwords give different final hashes `hFinal` after all `iterCount` rounds — every round and the
final block-index hash preserve the difference. The cut of X1‖X2 to the key size and "a different key
yields no zip" remain assumptions. -/
theorem derived_hash_separates_passwords (H : List Nat → List Nat) (hH : Function.Injective H)
    (salt : List Nat) (a b : List Char)
    (h : standardHFinal H salt (utf16le a) = standardHFinal H salt (utf16le b)) : a = b :=
  utf16le_injective a b (standardHFinal_injective H hH salt _ _ h)

/-- *gates access* (agile counterpart of `derived_hash_separates_passwords`): under collision freeness
of the hash, for a fixed salt, block key and spin count, two different passwords give different
`H(Hₙ ‖ blockKey)` in `convertPasswdToKey`, for every number of rounds; and when the digest has exactly
`keyBits/8` bytes (no cut, no extension) the derived agile keys themselves differ. -/
theorem agile_hash_separates_passwords (H : List Nat → List Nat) (hH : Function.Injective H)
    (salt blockKey : List Nat) (spinCount keyBits : Nat) (a b : List Char) :
    (H (spin H spinCount 0 (H (salt ++ utf16le a)) ++ blockKey) =
       H (spin H spinCount 0 (H (salt ++ utf16le b)) ++ blockKey) → a = b) ∧
    ((H (spin H spinCount 0 (H (salt ++ utf16le a)) ++ blockKey)).length = keyBits / 8 →
     (H (spin H spinCount 0 (H (salt ++ utf16le b)) ++ blockKey)).length = keyBits / 8 →
       agileKey H salt (utf16le a) blockKey spinCount keyBits =
         agileKey H salt (utf16le b) blockKey spinCount keyBits → a = b) := by
  have key : H (spin H spinCount 0 (H (salt ++ utf16le a)) ++ blockKey) =
       H (spin H spinCount 0 (H (salt ++ utf16le b)) ++ blockKey) → a = b := by
    intro h
    have h1 := List.append_cancel_right (hH h)
    have h2 := hH (spin_injective H hH _ _ _ _ h1)
    exact utf16le_injective a b (List.append_cancel_left h2)
  refine ⟨key, ?_⟩
  intro hla hlb h
  apply key
  simpa [agileKey, hla, hlb] using h

/-- *key derivation … AES-128* (the cut of X1‖X2): whenever `standardConvertPasswdToKey` returns a key it
has exactly `keyBits/8` bytes; for a hash with 20-byte digests (SHA-1) it returns one iff
`keyBits/8 ≤ 40`, in particular 16 / 24 / 32 bytes for AES-128 / 192 / 256 — the lengths
`aes.NewCipher` accepts — and ErrWorkbookFileFormat (`none`) beyond two digests. -/
theorem standard_key_length (H : List Nat → List Nat) (salt pw16 : List Nat) (keyBits : Nat) :
    (∀ k, standardKey H salt pw16 keyBits = some k → k.length = keyBits / 8) ∧
    ((∀ x, (H x).length = 20) →
       ((standardKey H salt pw16 keyBits).isSome = true ↔ keyBits / 8 ≤ 40)) := by
  constructor
  · intro k h
    unfold standardKey at h
    dsimp only at h
    split at h
    · cases h
    · cases h
      rw [List.length_take]; omega
  · intro hlen
    unfold standardKey
    dsimp only
    rw [List.length_append, hlen, hlen]
    split <;> simp <;> omega

/-- non-vacuity of `standard_key_length` (a hash with 20-byte digests exists; AES-256 gets 32 bytes) and of
the length hypotheses of `agile_hash_separates_passwords` (`H = id` is injective; digests of 32 bytes). -/
example : (∀ x, ((fun _ => List.replicate 20 0 : List Nat → List Nat) x).length = 20) ∧
    (standardKey (fun _ => List.replicate 20 0) [] [] 256).map List.length = some 32 ∧
    Function.Injective (id : List Nat → List Nat) ∧
    ((id : List Nat → List Nat) (spin id 0 0 (id ([] ++ utf16le ['a'])) ++ List.replicate 30 0)).length = 256 / 8 := by
  refine ⟨fun _ => by simp, by decide, fun _ _ h => h, by decide⟩

/-- *opening with a wrong or missing password returns an error, never content* (control flow of
`OpenReader`): a `*File` is returned only if the input was not a compound file or `Decrypt`
succeeded, **and** the resulting bytes are a zip, **and** the package was read; a failing `Decrypt`
is reported as ErrWorkbookFileFormat; bytes that are not a zip as ErrWorkbookPassword when a
password was supplied and as the zip error otherwise — in particular the wrong-password case
(decrypts to garbage) and the missing-password case never return a file. -/
theorem open_gates_access (i : OpenIn) :
    ((openReader i).1 = true → (i.hasOle = true → i.decOk = true) ∧ i.zipOk = true ∧ i.readOk = true) ∧
    (i.hasOle = true → i.decOk = false → openReader i = (false, some .fileFormat)) ∧
    (i.decOk = true → i.zipOk = false → i.pwGiven = true → openReader i = (false, some .password)) ∧
    (i.decOk = true → i.zipOk = false → i.pwGiven = false → openReader i = (false, some .zipErr)) := by
  obtain ⟨o, d, z, p, r, q⟩ := i
  cases o <;> cases d <;> cases z <;> cases p <;> cases r <;> cases q <;> simp [openReader]

/-- **Encrypt followed by Decrypt returns the original bytes** — the whole pipeline as one theorem.
For every keyed block cipher that is a length-preserving bijection on 16-byte blocks under each key,
every hash with 20-byte digests, every 16-byte salt and verifier input, every password the API
accepts (1..255 UTF-8 bytes, any Unicode scalar sequence) and every plaintext below 2^64 bytes:
`Encrypt` succeeds — password guard, key derivation (50000 rounds over the UTF-16LE password, 128-bit
cut), EncryptionInfo construction (fixed header fields, provider name, salt, encrypted verifier and
verifier hash), 8-byte length prefix and zero-padded ECB blocks, compound-file container — and
`Decrypt` with the same password — reference reader, stream lookup, `encryptionMechanism` and every
guard of `standardDecrypt`, salt and key size read back from the descriptor, the same key
derivation, block loop, cut to the recorded length — returns exactly the plaintext. -/
theorem encrypt_decrypt (kc : KCipher) (hkc : ∀ k, (kc k).Lawful) (H : List Nat → List Nat)
    (hlen : ∀ x, (H x).length = 20) (salt vin : List Nat) (hs : salt.length = 16) (hv : vin.length = 16)
    (pw : List Char) (hp : 1 ≤ utf8Len pw ∧ utf8Len pw ≤ Facts.MaxFieldLength)
    (raw : List Nat) (hn : raw.length < 2 ^ 64) :
    ∃ img, encryptFull kc H salt vin pw raw = .ok img ∧ decryptFull kc H img pw = .ok raw :=
  decrypt_encrypt_full kc hkc H hlen salt vin hs hv pw hp raw hn

/-- passwords outside 1..255 UTF-8 bytes are rejected by `Encrypt` before anything is written -/
theorem encrypt_rejects_bad_password_length (kc : KCipher) (H : List Nat → List Nat) (salt vin : List Nat)
    (pw : List Char) (raw : List Nat) (h : utf8Len pw = 0 ∨ utf8Len pw > Facts.MaxFieldLength) :
    encryptFull kc H salt vin pw raw = .error .pwLen := by
  unfold encryptFull; rw [if_pos h]

/-- **opens with that password to the same content; any other password is rejected** (on top of
`encrypt_decrypt` and the `OpenReader` mapping). With the right password `OpenReader` hands
`zip.NewReader` exactly the bytes that were protected, so it returns a file iff opening the
unprotected bytes does. With any password `pw'` for which decryption does not yield a zip package —
the cryptographic assumption for `pw' ≠ pw`: a different key produces no valid package (`hsep`) —
no file is returned, whatever the later stages would do. -/
theorem protected_workbook_opens_only_with_password (kc : KCipher) (hkc : ∀ k, (kc k).Lawful)
    (H : List Nat → List Nat) (hlen : ∀ x, (H x).length = 20) (salt vin : List Nat)
    (hs : salt.length = 16) (hv : vin.length = 16) (pw : List Char)
    (hp : 1 ≤ utf8Len pw ∧ utf8Len pw ≤ Facts.MaxFieldLength) (raw : List Nat) (hn : raw.length < 2 ^ 64)
    (isZip : List Nat → Bool) :
    ∃ img, encryptFull kc H salt vin pw raw = .ok img ∧
      (∀ r q, (openReader ⟨true, decryptFull kc H img pw matches .ok _,
                  (match decryptFull kc H img pw with | .ok out => isZip out | _ => false), true, r, q⟩).1
              = (openReader ⟨false, true, isZip raw, false, r, q⟩).1) ∧
      (∀ pw' g r q, (∀ out, decryptFull kc H img pw' = .ok out → isZip out = false) →
        (openReader ⟨true, decryptFull kc H img pw' matches .ok _,
            (match decryptFull kc H img pw' with | .ok out => isZip out | _ => false), g, r, q⟩).1 = false) := by
  obtain ⟨img, he, hd⟩ := decrypt_encrypt_full kc hkc H hlen salt vin hs hv pw hp raw hn
  refine ⟨img, he, ?_, ?_⟩
  · intro r q
    rw [hd]
    cases hz : isZip raw <;> cases r <;> cases q <;> simp [openReader, hz]
  · intro pw' g r q hsep
    cases hx : decryptFull kc H img pw' with
    | ok out =>
      have := hsep out hx
      simp [openReader, this]
    | err => simp [openReader]
    | panic => simp [openReader]

/-- the hypotheses of `agile_encrypt_decrypt` are satisfiable -/
theorem cbc_lawful_exists : ∃ c : Cbc, c.Lawful := ⟨⟨fun _ x => x, fun _ x => x⟩, fun _ _ _ => ⟨rfl, rfl⟩⟩

deriving instance DecidableEq for Except

/-! non-vacuity -/

/-- a lawful cipher exists (the hypotheses of `encrypt_decrypt_package` are satisfiable) -/
theorem lawful_exists : ∃ c : Cipher, c.Lawful := ⟨⟨id, id⟩, fun _ h => ⟨rfl, h⟩⟩

/-- the hypothesis `hr` of `encrypt_decrypt_file_partial` holds on a concrete small file (two mini
streams — the case that was broken before the fix) and on one above the cutoff -/
theorem reader_roundtrip_witness_mini :
    (match write [⟨infoName, [1, 2, 3]⟩, ⟨pkgName, List.replicate 70 9⟩] with
      | .ok img => read img
      | .error _ => .error .badDir)
      = .ok [⟨infoName, [1, 2, 3]⟩, ⟨pkgName, List.replicate 70 9⟩] := by
  decide +kernel

end XlModel.Props.C13
