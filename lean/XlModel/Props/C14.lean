/-
C14 — Damaged or hostile input yields errors, not crashes.  Property theorems
only; helper lemmas are in `Lemmas/Decode.lean`.

Scope (PARTIAL by design): the theorems cover the post-decode index arithmetic of
`XlModel.Decode` — for EVERY value the decoders can hand over, the modelled code
ends in `ok` or `err`, never in `panic`, and what it allocates is bounded by the
limits.  The other decode sites are covered by mutant enumeration on the real
code (see design.d/C14.md).
-/
import XlModel.Lemmas.Decode
import XlModel.Lemmas.DecodeRows
import XlModel.Generated.FactsC14
import XlModel.Props.C20

namespace XlModel.Props.C14
open XlModel XlModel.Decode

/-- the regenerated limits are the ones the proofs were written for -/
theorem limits_ok : Facts.MaxColumns = 16384 ∧ Facts.TotalRows = 1048576 := by decide

/-! ## the guards and index sites of the Go source are the ones the model transcribes -/

/-- clause "out-of-range indices": the row-number guards of `checkSheet` are present and
`workSheetReader` returns its error -/
theorem guards_checkSheet :
    "r.R < 0" ∈ Facts.C14.conds_checkSheet ∧ "r.R > TotalRows" ∈ Facts.C14.conds_checkSheet ∧
    "r.R == 0 || r.R == row" ∈ Facts.C14.conds_checkSheet ∧
    "r.R != 0 && r.R > row" ∈ Facts.C14.conds_checkSheet ∧
    Facts.C14.index_checkSheet = ["ws.SheetData.Row[i]", "ws.SheetData.Row[:i]", "ws.SheetData.Row[i+1:]",
      "sheetData.Row[r.R-1]", "sheetData.Row[r0Row.R-1]", "sheetData.Row[r0Row.R-1]", "sheetData.Row[i-1]", "sheetData.Row[i-1]"] ∧
    -- checkSheetR0: the running column of rows without row number, and its index sites
    Facts.C14.conds_checkSheetR0 = ["!sheetData.Row[rowIdx].C[colIdx].hasValue()", "r0", "r0", "cell.R == \"\"",
      "c, r, err := CellNameToCoordinates(cell.R); err == nil", "r0"] ∧
    Facts.C14.index_checkSheetR0.length = 9 := by decide

/-- the greatest-column loop of `checkRow` is present; its only data-dependent index is `C[colNum-1]` -/
theorem guards_checkRow :
    "colCount < lastCol" ∈ Facts.C14.conds_checkRow ∧ "colNum > lastCol" ∈ Facts.C14.conds_checkRow ∧
    "ws.SheetData.Row[rowIdx].C[colNum-1]" ∈ Facts.C14.index_checkRow ∧
    Facts.C14.index_checkRow.length = 9 := by decide

/-- shared-string and style index guards -/
theorem guards_getValueFrom :
    "found = xlsxSI >= 0 && len(d.SI) > xlsxSI; found" ∈ Facts.C14.conds_getValueFrom ∧
    Facts.C14.index_getValueFrom = ["d.SI[xlsxSI]"] ∧
    "styleSheet.CellXfs == nil || c.S >= len(styleSheet.CellXfs.Xf) || c.S < 0" ∈ Facts.C14.conds_formattedValue ∧
    Facts.C14.index_formattedValue = ["styleSheet.CellXfs.Xf[c.S]", "styleSheet.CellXfs.Xf[c.S]"] ∧
    "index < 0 || len(f.sharedStringItem) <= index" ∈ Facts.C14.conds_getFromStringItem := by decide

/-- the streaming row iterator bounds row numbers by TotalRows -/
theorem guards_rows :
    "rowNum > TotalRows" ∈ Facts.C14.conds_rowsNext ∧ "rowNum, rowIterator.err = attrValToInt(\"r\", xmlElement.Attr); rowNum > TotalRows" ∈ Facts.C14.conds_rowsColumns := by decide

/-- clause "malformed encryption containers": length guards and the exact slice sites of the
standard-encryption path -/
theorem guards_crypt :
    Facts.C14.conds_encryptionMechanism.head? = some "len(buffer) < 4" ∧
    Facts.C14.index_encryptionMechanism = ["buffer[:2]", "buffer[2:4]"] ∧
    "len(encryptionInfoBuf) < 12 || len(encryptedPackageBuf) < 8" ∈ Facts.C14.conds_standardDecrypt ∧
    "encryptionHeaderSize < 32 || encryptionHeaderSize > len(encryptionInfoBuf)-12" ∈ Facts.C14.conds_standardDecrypt ∧
    "verifierSize := map[string]int{\"RC4\": 60, \"AES\": 72}[algorithm]; len(block) < verifierSize" ∈ Facts.C14.conds_standardDecrypt ∧
    "size := binary.LittleEndian.Uint64(encryptedPackageBuf[:8]); size < uint64(len(decrypted))" ∈ Facts.C14.conds_standardDecrypt ∧
    "len(x)%aes.BlockSize != 0" ∈ Facts.C14.conds_standardDecrypt ∧
    Facts.C14.index_standardDecrypt = ["encryptionInfoBuf[8:12]", "encryptionInfoBuf[12 : 12+encryptionHeaderSize]",
      "block[:4]", "block[4:8]", "block[8:12]", "block[12:16]", "block[16:20]", "block[20:24]", "block[24:28]",
      "block[28:32]", "block[32:]", "encryptionInfoBuf[12+encryptionHeaderSize:]", "algIDMap[header.AlgID]",
      "map[string]int{\"RC4\": 60, \"AES\": 72}[algorithm]", "encryptedPackageBuf[8:]", "decrypted[bs:be]", "x[bs:be]",
      "encryptedPackageBuf[:8]", "decrypted[:size]"] ∧
    Facts.C14.index_standardEncryptionVerifier = ["blob[:4]", "blob[4:20]", "blob[20:36]", "blob[36:40]", "blob[40:60]", "blob[40:72]"] ∧
    "cbRequiredKeyLength > len(x3)" ∈ Facts.C14.conds_standardConvertPasswdToKey ∧
    "x3[:cbRequiredKeyLength]" ∈ Facts.C14.index_standardConvertPasswdToKey := by decide

/-! ## shared-string and style indices -/

/-- clause "out-of-range indices … never panic": for every style attribute `s` and every size of
`cellXfs`, `formattedValue`'s lookup `Xf[c.S]` is in range -/
theorem no_panic_styleIndex (val : GVOut) (s : Int) (nXf : Option Nat) (raw : Bool) :
    (formattedValue val s nXf raw).isPanic = false := by
  unfold formattedValue
  split
  · rfl
  · cases nXf with
    | none => rfl
    | some n =>
      simp only
      split
      · rfl
      · rename_i h
        have : 0 ≤ s ∧ s < (n : Int) := by omega
        simp [this, Outcome.isPanic]

/-- clause "out-of-range indices … never panic": for every cell type, every `<v>` (any `Int`
after `Atoi`, negative, beyond the table, clamped), every style and every table size,
`getValueFrom` ends in a value -/
theorem no_panic_getValueFrom (i : GVIn) : (getValueFrom i).isPanic = false := by
  unfold getValueFrom
  cases i.t <;> simp only
  · -- s
    split
    · split
      · rename_i h
        have h' : 0 ≤ i.idx ∧ i.idx < (i.nSI : Int) := by omega
        exact no_panic_styleIndex _ _ _ _
      · exact no_panic_styleIndex _ _ _ _
    · exact no_panic_styleIndex _ _ _ _
  · rfl
  · -- b
    split
    · rfl
    · split
      · rfl
      · exact no_panic_styleIndex _ _ _ _
  · exact no_panic_styleIndex _ _ _ _
  · exact no_panic_styleIndex _ _ _ _

/-- a shared-string result always names an entry of the table -/
theorem sharedString_in_table (i : GVIn) (k : Nat) (h : getValueFrom i = .ok (.si k)) : k < i.nSI := by
  unfold getValueFrom at h
  cases ht : i.t <;> simp only [ht] at h
  · split at h
    · split at h
      · rename_i hg
        have h' : 0 ≤ i.idx ∧ i.idx < (i.nSI : Int) := by omega
        have := formattedValue_val h
        cases this
        omega
      · cases formattedValue_val h
    · cases formattedValue_val h
  · cases h
  · split at h
    · cases h
    · split at h
      · cases h
      · cases formattedValue_val h
  · cases formattedValue_val h
  · cases formattedValue_val h

/-! ## standard-encryption container streams -/

/-- clause "malformed encryption containers … never panic": for every length of the
EncryptionInfo / EncryptedPackage streams and every value of the version, header-size,
algorithm and key-size fields, the dispatch of `Decrypt` (mechanism detection, then
`standardDecrypt` with `standardEncryptionVerifier` and the key slice) ends in `ok` or `err` -/
theorem no_panic_standardDecrypt (i : SDIn) : (decryptDispatch i).isPanic = false := by
  unfold decryptDispatch
  apply bind_no_panic
  · exact no_panic_encryptionMechanism i
  · intro m _
    cases m with
    | agile => rfl
    | standard =>
      simp only
      apply bind_no_panic
      · exact Decode.no_panic_standardDecrypt i
      · intro n _; rfl

/-- clause "allocate memory out of proportion": what `standardDecrypt` returns is never longer than
the package stream minus its 8-byte length prefix (the buffer it allocates), and is cut to the
declared plaintext size when that is smaller -/
theorem standardDecrypt_alloc (i : SDIn) (n : Nat) (h : standardDecrypt i = .ok n) :
    n + 8 ≤ i.pkgLen := by
  have := standardDecrypt_len i n h
  omega

/-! ## worksheet rows -/

/-- the contract of `CellNameToCoordinates` (property C20: row in 1..TotalRows always; column in
1..MaxColumns for column names of at most 13 letters) -/
def RefsInGrid (rows : List Row) : Prop :=
  ∀ r ∈ rows, ∀ c ∈ r.cells, ∀ col rw, c.r.coords = some (col, rw) →
    1 ≤ col ∧ col ≤ (Facts.MaxColumns : Int) ∧ 1 ≤ rw ∧ rw ≤ (Facts.TotalRows : Int)

/-- clause "out-of-range indices, absurd dimensions … never panic": for EVERY list of decoded rows
(any `r`: negative, zero, duplicate, huge; any number of cells; references absent, unparsable or
anywhere in the grid), `checkSheet` ends in `ok` or `err`; `err` exactly covers the rejected row
numbers, and an `ok` grid has exactly `rowSlots` slots.
(stated over abstract reference values; `no_panic_load` discharges the hypothesis for every text.) -/
theorem no_panic_checkSheet_partial (rows : List Row) (hw : RefsInGrid rows) :
    (checkSheet rows).isPanic = false ∧
    (∀ g, checkSheet rows = .ok g → (g.length : Int) = rowSlots rows) := by
  have h := checkSheet_ok rows (fun r hr c hc col rw hco => by
    have := hw r hr c hc col rw hco; exact ⟨this.1, this.2.2.1⟩)
  cases h with
  | inl he => rw [he]; exact ⟨rfl, fun g hg => by cases hg⟩
  | inr hx =>
    obtain ⟨g, hg, hl⟩ := hx
    rw [hg]
    exact ⟨rfl, fun g' hg' => by cases hg'; exact hl⟩

/-- negative and oversized row numbers are rejected with an error, for every list of rows -/
theorem checkSheet_rejects (rows : List Row) (r : Row) (hr : r ∈ rows)
    (hbad : r.r < 0 ∨ r.r > (Facts.TotalRows : Int)) : checkSheet rows = .err := by
  unfold checkSheet
  by_cases h1 : rows.any (fun r => decide (r.r < 0)) = true
  · rw [if_pos h1]
  · rw [if_neg h1]
    have h2 : rows.any (fun r => decide (r.r > (Facts.TotalRows : Int))) = true := by
      cases hbad with
      | inl hn => exact absurd (List.any_eq_true.mpr ⟨r, hr, by simpa using hn⟩) h1
      | inr hm => exact List.any_eq_true.mpr ⟨r, hr, by simpa using hm⟩
    rw [if_pos h2]

/-- clause "allocate memory out of proportion to the limits": whenever `checkSheet` succeeds the
number of row slots it allocated is at most TotalRows plus the number of `<row>` elements -/
theorem alloc_bounded (rows : List Row) (hw : RefsInGrid rows) (g : Grid) (h : checkSheet rows = .ok g) :
    g.length ≤ Facts.TotalRows + rows.length := by
  have hl := (no_panic_checkSheet_partial rows hw).2 g h
  have hguard : ∀ r ∈ rows, r.r ≤ (Facts.TotalRows : Int) := by
    intro r hr
    by_cases hb : r.r > (Facts.TotalRows : Int)
    · rw [checkSheet_rejects rows r hr (Or.inr hb)] at h; cases h
    · omega
  have hb := scan_bound (Facts.TotalRows : Int) (by omega) rows 0 [] [] hguard
    (fun r hr c hc col rw hco => (hw r hr c hc col rw hco).2.2.2) (by simp)
  unfold rowSlots at hl
  simp only [List.length_nil] at hb
  omega

/-- `checkRow` never indexes out of range on a grid whose parsed references have column ≥ 1:
the rebuilt row is sized by the greatest column of the row (cells in any order, duplicated,
without references, beyond MaxColumns) -/
theorem no_panic_checkRow (g : Grid) (hw : ∀ r ∈ g, ∀ c ∈ r.cells, ColOK c) :
    (checkRow g).isPanic = false := checkRows_no_panic g 1 hw

/-- what `workSheetReader` does after decoding (`checkSheet` then `checkRow`) never panics on rows
whose parsed references lie in the grid: `checkSheet` only moves cells and adds empty ones, so the
column ≥ 1 invariant `checkRow` needs survives it -/
theorem no_panic_load_refs (rows : List Row) (hw : RefsInGrid rows) : (load rows).isPanic = false := by
  unfold load
  apply bind_no_panic
  · exact (no_panic_checkSheet_partial rows hw).1
  · intro g hg
    apply no_panic_checkRow
    exact checkSheet_P (P := ColOK) (by intro col rw h; simp [emptyCell, R.coords] at h) rows g hg
      (fun r hr c hc col rw hco => (hw r hr c hc col rw hco).1)

/-- every reference text the decoder can hand over lies in the grid once it parses
(C20 `cell_decode_encode`: `CellNameToCoordinates` accepts only A1 references inside the grid,
since the column limit is checked after every letter) -/
theorem decoded_refs_in_grid (rows : List (Int × List (List Char × Bool))) (n : Nat) :
    RefsInGrid (rowsOf rows n) := by
  induction rows generalizing n with
  | nil => intro r hr; cases hr
  | cons x rest ih =>
    obtain ⟨rr, cs⟩ := x
    intro r hr
    simp only [rowsOf, List.mem_cons] at hr
    rcases hr with rfl | hr
    · simp only
      intro c hc col rw hco
      have key : ∀ (cs : List (List Char × Bool)) (k : Nat), ∀ c ∈ cellsOf cs k, ∀ col rw,
          c.r.coords = some (col, rw) →
          1 ≤ col ∧ col ≤ (Facts.MaxColumns : Int) ∧ 1 ≤ rw ∧ rw ≤ (Facts.TotalRows : Int) := by
        intro cs
        induction cs with
        | nil => intro k c hc; cases hc
        | cons y ys ihc =>
          obtain ⟨s, hv⟩ := y
          intro k c hc col rw hco
          simp only [cellsOf, List.mem_cons] at hc
          rcases hc with rfl | hc
          · simp only [refOf] at hco
            split at hco
            · simp [R.coords] at hco
            · split at hco
              · rename_i p hp
                simp only [R.coords, Option.some.injEq] at hco
                subst hco
                have := XlModel.Props.C20.cell_decode_encode s col rw hp
                exact ⟨this.1, this.2.1, this.2.2.1, this.2.2.2.1⟩
              · simp [R.coords] at hco
          · exact ihc _ c hc col rw hco
      exact key cs n c hc col rw hco
    · exact ih _ r hr

/-- **clause "out-of-range indices, absurd dimensions … never panic", full strength**: for EVERY
list of `<row>` elements — any `r` attribute (negative, zero, duplicate, huge), any number of
`<c>` elements, any `r` text whatsoever on each (absent, garbage, out of order, overlong column
names, rows beyond the limit) — loading the worksheet ends in a grid or an error -/
theorem no_panic_load (rows : List (Int × List (List Char × Bool))) :
    (load (rowsOf rows 0)).isPanic = false :=
  no_panic_load_refs _ (decoded_refs_in_grid rows 0)

/-- … and the number of row slots is bounded by the limits, for every decoded sheet -/
theorem alloc_bounded_decoded (rows : List (Int × List (List Char × Bool))) (g : Grid)
    (h : checkSheet (rowsOf rows 0) = .ok g) : g.length ≤ Facts.TotalRows + rows.length := by
  have := alloc_bounded _ (decoded_refs_in_grid rows 0) g h
  have hl : ∀ (rs : List (Int × List (List Char × Bool))) (n : Nat), (rowsOf rs n).length = rs.length := by
    intro rs; induction rs with
    | nil => intro n; rfl
    | cons x xs ih => intro n; obtain ⟨a, b⟩ := x; simp [rowsOf, ih]
  rw [hl] at this; exact this

/-- the hypothesis of `no_panic_load_refs` is not redundant: a parsed column below 1 (which
`CellNameToCoordinates` returned for 14+-letter column names before the C20 repair) would make the
`r="0"` placement index `C[col-1]` out of range -/
theorem refs_in_grid_needed :
    (load [{ r := 0, cells := [{ r := .orig (some (-5, 1)), hv := true, id := some 0 }] }]).isPanic = true := by
  decide

/-! ## decode sites repaired in round 2 (style sheet, workbook view, comments, rich text,
conditional formats, theme colours, merged cells, compound file, agile decryption) -/

/-- the guards and the exact index sites of those functions are the ones the model transcribes -/
theorem guards_sites :
    "idx < 0 || s.CellXfs == nil || len(s.CellXfs.Xf) <= idx" ∈ Facts.C14.conds_GetStyle ∧
    Facts.C14.index_GetStyle = ["s.CellXfs.Xf[idx]", "extractStyleCondFuncs[\"fill\"]", "s.Fills.Fill[*xf.FillID]",
      "extractStyleCondFuncs[\"border\"]", "s.Borders.Border[*xf.BorderID]", "extractStyleCondFuncs[\"font\"]",
      "s.Fonts.Font[*xf.FontID]", "extractStyleCondFuncs[\"alignment\"]", "extractStyleCondFuncs[\"protection\"]"] := by decide

/-- the three conditions under which `GetStyle` indexes a table require `0 <= id < len(table)` -/
theorem guards_styleConds :
    "\"fill\": return (xf.ApplyFill == nil || (xf.ApplyFill != nil && *xf.ApplyFill)) && xf.FillID != nil && s.Fills != nil && *xf.FillID >= 0 && *xf.FillID < len(s.Fills.Fill)" ∈ Facts.C14.extractStyleCondFuncs ∧
    "\"border\": return (xf.ApplyBorder == nil || (xf.ApplyBorder != nil && *xf.ApplyBorder)) && xf.BorderID != nil && s.Borders != nil && *xf.BorderID >= 0 && *xf.BorderID < len(s.Borders.Border)" ∈ Facts.C14.extractStyleCondFuncs ∧
    "\"font\": return (xf.ApplyFont == nil || (xf.ApplyFont != nil && *xf.ApplyFont)) && xf.FontID != nil && s.Fonts != nil && *xf.FontID >= 0 && *xf.FontID < len(s.Fonts.Font)" ∈ Facts.C14.extractStyleCondFuncs := by decide +kernel

/-- workbook view, default font, theme colour, comments, rich text, conditional formats -/
theorem guards_sites2 :
    "activeTab >= 0 && len(wb.Sheets.Sheet) > activeTab && wb.Sheets.Sheet[activeTab].SheetID != 0" ∈ Facts.C14.conds_getActiveSheetID ∧
    Facts.C14.index_getActiveSheetID = ["wb.BookViews.WorkBookView[0]", "wb.Sheets.Sheet[activeTab]", "wb.Sheets.Sheet[activeTab]", "wb.Sheets.Sheet[0]"] ∧
    "s.Fonts == nil || len(s.Fonts.Font) == 0 || s.Fonts.Font[0] == nil" ∈ Facts.C14.conds_readDefaultFont ∧
    "font.Name == nil || font.Name.Val == nil" ∈ Facts.C14.conds_GetDefaultFont ∧
    Facts.C14.conds_ThemeColor.head? = some "tint == 0 || len(baseColor) < 6" ∧
    Facts.C14.index_ThemeColor = ["baseColor[:2]", "baseColor[2:4]", "baseColor[4:6]"] ∧
    "cmt.AuthorID >= 0 && cmt.AuthorID < len(cmts.Authors.Author)" ∈ Facts.C14.conds_GetComments ∧
    "v.T != nil" ∈ Facts.C14.conds_getCellRichText ∧
    Facts.C14.conds_extractCondFmtCellIs = ["len(c.Formula) == 2", "len(c.Formula) > 0"] ∧
    Facts.C14.index_extractCondFmtCellIs = ["operatorType[c.Operator]", "c.Formula[0]", "c.Formula[1]", "c.Formula[0]"] := by decide

/-- merged cells: rectangle guard, no caching of invalid references; the overlap normalisation works on
the rectangles only (`isOverlap`, `mergeCell`) — there is no index into a matrix over the worksheet -/
theorem guards_merge :
    "len(ws.MergeCells.Cells[i].rect) == 4 && cellInRange([]int{col, row}, ws.MergeCells.Cells[i].rect)" ∈ Facts.C14.conds_mergeCellsParser ∧
    Facts.C14.index_cellInRange = ["cell[0]", "ref[0]", "cell[0]", "ref[2]", "cell[1]", "ref[1]", "cell[1]", "ref[3]"] ∧
    Facts.C14.conds_mergeCellRect = ["mc.rect == nil", "!strings.Contains(mergedCellsRef, \":\")", "err != nil"] ∧
    Facts.C14.conds_flatMergedCells = ["cell == nil", "err != nil", "isOverlap(rect, other.rect)", "len(overlapCells) == 0"] ∧
    Facts.C14.index_flatMergedCells = ["cells[:0]"] ∧
    Facts.C14.index_isOverlap = ["rect1[0]", "rect2[2]", "rect2[0]", "rect1[2]", "rect1[1]", "rect2[3]", "rect2[1]", "rect1[3]"] ∧
    Facts.C14.index_mergeOverlapCells = [] := by decide

/-- compound file header, stream extraction, agile descriptor validation and the slices behind it -/
theorem guards_agile :
    Facts.C14.conds_checkCompoundFileHeader = ["len(raw) < 512", "sectorShift != 9 && sectorShift != 12",
      "uint64(binary.LittleEndian.Uint32(raw[offset:offset+4])) > maxSectors"] ∧
    Facts.C14.index_checkCompoundFileHeader = ["raw[30:32]", "raw[offset:offset+4]"] ∧
    Facts.C14.conds_extractPartLimit.head? = some "entry.Size < 0 || entry.Size > limit" ∧
    Facts.C14.conds_agileDecrypt.head? = some "len(encryptionInfoBuf) < 8" ∧
    Facts.C14.index_agileDecrypt = ["encryptionInfoBuf[8:]", "encryptionInfo.KeyEncryptors.KeyEncryptor[0]"] ∧
    Facts.C14.conds_checkAgileEncryptionInfo = ["len(encryption.KeyEncryptors.KeyEncryptor) == 0",
      "encryption.KeyData.BlockSize != aes.BlockSize", "hashing(encryption.KeyData.HashAlgorithm) == nil",
      "encryption.KeyEncryptors.KeyEncryptor[0].EncryptedKey.KeyBits < 0",
      "spinCount := encryption.KeyEncryptors.KeyEncryptor[0].EncryptedKey.SpinCount; spinCount < 0 || spinCount > 10000000"] ∧
    Facts.C14.conds_convertPasswdToKey = ["err != nil", "err != nil", "len(key) < keyBytes", "len(key) > keyBytes"] ∧
    "key[:keyBytes]" ∈ Facts.C14.index_convertPasswdToKey ∧
    Facts.C14.conds_decrypt = ["err != nil", "len(iv) != block.BlockSize() || len(input)%block.BlockSize() != 0"] ∧
    Facts.C14.conds_decryptPackage = ["len(input) < offset", "end > len(data)", "remainder != 0", "err != nil", "err != nil"] ∧
    Facts.C14.index_decryptPackage = ["input[offset:]", "data[start:end]"] ∧
    Facts.C14.index_createIV = ["iv[:encryptedKey.BlockSize]"] := by decide

/-- `GetStyle` never indexes the cell-format, fill, border or font tables out of range: every style
index, every fill / border / font id (negative, beyond the table), every table size, tables absent -/
theorem no_panic_getStyle (i : StyleIn) : (getStyle i).isPanic = false := no_panic_getStyle' i

/-- `getActiveSheetID`: every `activeTab` (negative, beyond the list), every sheet list (empty, ids 0) -/
theorem no_panic_activeSheetID (hasView : Bool) (activeTab : Int) (ids : List Int) :
    (activeSheetID hasView activeTab ids).isPanic = false := no_panic_activeSheetID' hasView activeTab ids

/-- `readDefaultFont` / `GetDefaultFont`: no font table, empty table, nil font, font without name / value -/
theorem no_panic_getDefaultFont (nFonts : Option Nat) (firstNil hasName hasVal : Bool) :
    (getDefaultFont nFonts firstNil hasName hasVal).isPanic = false := no_panic_getDefaultFont' _ _ _ _

/-- `ThemeColor`: a base colour of any length, any tint -/
theorem no_panic_themeColor (len : Nat) (tintZero : Bool) : (themeColor len tintZero).isPanic = false :=
  no_panic_themeColor' len tintZero

/-- `GetComments`: every `authorId`, every number of authors -/
theorem no_panic_commentAuthor (authorId : Int) (nAuthors : Nat) :
    (commentAuthor authorId nAuthors).isPanic = false := no_panic_commentAuthor' authorId nAuthors

/-- `getCellRichText`: every list of runs, with or without `<t>` -/
theorem no_panic_richText (runs : List Bool) : (richRuns runs).isPanic = false := no_panic_richRuns' runs

/-- `extractCondFmtCellIs`: every number of `<formula>` elements -/
theorem no_panic_condFmtCellIs (nFormula : Nat) : (condFmtCellIs nFormula).isPanic = false := no_panic_condFmt' nFormula

/-- `mergeCellsParser` / `cellInRange`: every cached rectangle slice (empty for `ref=""`, any length) -/
theorem no_panic_mergeCellHit (col row : Int) (rect : List Int) : (mergeCellHit col row rect).isPanic = false :=
  no_panic_mergeCellHit' col row rect

/-- `xlsxMergeCell.Rect` caches a rectangle only when the reference parses: an invalid reference is an
error on EVERY call, never a cached rectangle -/
theorem rect_not_cached_on_error (cached' : Option (List Int)) (r : List Int)
    (h : rectOf none none = .ok (r, cached')) : False := by
  simp [rectOf] at h

/-- `mergeOverlapCells` / `flatMergedCells` (interval form): for every list of merged-cell rectangles —
anywhere in the grid, sorted or not — the normalisation yields at most as many merged cells as it was
given, so its work is bounded by the square of their number and does not depend on the coordinates
(clauses "run without bound", "allocate out of proportion": no matrix over the worksheet) -/
theorem merge_normalise_bounded (rs : List Rc) : (normalise rs []).length ≤ rs.length := by
  have := normalise_length rs []
  simpa using this

/-- each inner round of `flatMergedCells` ends with no listed rectangle overlapping the merged one, within
`len(cells)` rounds, and never lengthens the list -/
theorem merge_settle_fixpoint (r : Rc) (cells : List Rc) :
    (settle (cells.length + 1) r cells).2.length ≤ cells.length ∧
    ∀ c ∈ (settle (cells.length + 1) r cells).2, isOverlapRc (settle (cells.length + 1) r cells).1 c = false :=
  settle_spec (cells.length + 1) r cells (by omega)

/-- `checkCompoundFileHeader`: every file length, sector shift and declared sector count -/
theorem no_panic_cfbHeader (len shift : Nat) (counts : List Nat) : (checkCfbHeader len shift counts).isPanic = false :=
  no_panic_checkCfbHeader' len shift counts

/-- clause "allocate out of proportion": an accepted header declares at most `len / sectorSize` sectors in
each table the compound-file reader sizes before reading it -/
theorem cfb_tables_bounded (len shift : Nat) (counts : List Nat) (h : checkCfbHeader len shift counts = .ok ()) :
    ∀ c ∈ counts, c ≤ len / 2 ^ shift := by
  unfold checkCfbHeader at h
  split at h; · cases h
  split at h; · cases h
  split at h; · cases h
  split at h; · cases h
  split at h
  · cases h
  · rename_i hany
    intro c hc
    have : ¬ (decide (c > len / 2 ^ shift) = true) := fun hd => hany (List.any_eq_true.mpr ⟨c, hc, hd⟩)
    simpa using this

/-- … and a stream buffer is never larger than the container (`extractPartLimit`), whatever size the
directory entry claims -/
theorem extract_alloc_bounded (size : Int) (limit : Nat) : extractAlloc size limit ≤ limit :=
  extractAlloc_le size limit

/-- a row rebuilt by `checkRow` (sized by its greatest column) is at most MaxColumns wide -/
theorem checkRow_width_bounded (rowNum : Int) (rw rw' : Row) (h : checkRowOne rowNum rw = .ok rw') :
    rw'.cells.length ≤ Facts.MaxColumns ∨ rw'.cells.length = rw.cells.length :=
  checkRowOne_width rowNum rw rw' h

/-- agile descriptor validation and key derivation, full strength: for every decoded descriptor
(number of key encryptors, block size, hash algorithm, key bits, spin count, salts) the validation and,
once it passed, the key slice `key[:keyBytes]`, the IV slice `iv[:BlockSize]` and the chunk padding
`len % BlockSize` never panic; the spin loop runs at most 10 000 000 times -/
theorem no_panic_agile_validation (i : AgIn) :
    (agileCheck i).isPanic = false ∧
    (agileCheck i = .ok () →
      (agileKeyLen i).isPanic = false ∧ (createIV i).isPanic = false ∧
      (∀ n, (padChunk n i.blockSize).isPanic = false) ∧ 0 ≤ i.spinCount ∧ i.spinCount ≤ 10000000) := by
  refine ⟨no_panic_agileCheck' i, fun h => ?_⟩
  have hc := agileCheck_ok h
  exact ⟨no_panic_agileKeyLen' i hc.1 hc.2.2.2.1, no_panic_createIV' i hc.2.1,
    fun n => no_panic_padChunk' n _ hc.2.1, hc.2.2.2.2.1, hc.2.2.2.2.2⟩

/-- clause "malformed encryption containers … never panic", agile path, full strength: for EVERY
decoded descriptor and EVERY length of the EncryptionInfo / EncryptedPackage streams `agileDecrypt`
(validation, key derivation slices, package key decryption, the 4096-byte segment loop of
`decryptPackage`, IV slices, CBC length preconditions) ends in `ok` or `err` -/
theorem no_panic_agileDecrypt (i : AgIn) : (agileDecrypt i).isPanic = false := by
  unfold agileDecrypt
  split; · rfl
  split
  · rename_i h1 h2; exfalso; apply h2; simp [sliceOK]; omega
  split; · rfl
  apply bind_no_panic _ _ (no_panic_agileCheck' i)
  intro _ hc
  have hk := agileCheck_ok hc
  apply bind_no_panic _ _ (no_panic_agileKeyLen' i hk.1 hk.2.2.2.1)
  intro k _
  split; · rfl
  split; · rfl
  apply bind_no_panic _ _ (no_panic_cbcDecrypt' _ _ _)
  intro _ _
  unfold decryptPackage
  split
  · rfl
  · split
    · rename_i h1 h2; exfalso; apply h2; simp [sliceOK]; omega
    · exact no_panic_pkgLoop' i hk.2.1 _ 0

/-! ## basic-string unescaping and the standard verifier -/

/-- `bstrUnmarshal` slices the string only at the positions the regular expression matched -/
theorem guards_bstr :
    Facts.C14.index_bstrUnmarshal = ["s[cursor:match[0]]", "match[0]", "s[match[0]:match[1]]", "match[0]", "match[1]",
      "match[1]", "match[1]", "s[match[0]+2:match[1]-1]", "match[0]", "match[1]", "s[cursor:]"] ∧
    Facts.C14.conds_bstrUnmarshal = ["subStr == \"_x005F_\"", "bstrExp.MatchString(subStr)", "cursor < l"] := by decide

/-- clause "any byte sequence … never panic" for every string payload (shared strings, inline strings,
cached formula text): for EVERY byte string — any number of escapes, truncated escapes (`_`, `_x`, `_x0`,
… `_x000A` at the end), adjacent and overlapping candidates — every slice `bstrUnmarshal` takes is in range -/
theorem no_panic_bstr (s : List Char) : (bstrUnmarshal s).isPanic = false :=
  bstrSegs_no_panic s.length _ 0 (Nat.zero_le _) (bstrMatches_chain s _ 0)

/-- `standardEncryptionVerifier` behind the per-algorithm size table of `standardDecrypt`: for EVERY length
of the verifier block and every algorithm id (AES: 72 bytes needed, anything else is RC4: 60) the slices
`blob[:4] … blob[40:60]` / `blob[40:72]` are in range or the block is rejected first -/
theorem no_panic_standard_verifier (vlen algID keySize pkgLen pkgSize : Nat) (h : 8 ≤ pkgLen) :
    (sdVerifier vlen algID keySize pkgLen pkgSize).isPanic = false :=
  no_panic_sdVerifier vlen algID keySize pkgLen pkgSize h

/-- … and a block shorter than the table says is an error, never a slice -/
theorem standard_verifier_rejects_short (vlen algID keySize pkgLen pkgSize : Nat)
    (h : vlen < (if isAES algID then 72 else 60)) : sdVerifier vlen algID keySize pkgLen pkgSize = .err := by
  unfold sdVerifier verifierSize
  rw [if_pos h]

/-! ## unzip limits -/

/-- the size check of `ReadZipReader` is the first thing done with an entry, before the branches that
spool large worksheet / shared-string parts to temporary files -/
theorem guards_zip :
    Facts.C14.conds_ReadZipReader.head? = some "fileSize < 0 || unzipSize < 0 || unzipSize > f.options.UnzipSizeLimit" ∧
    Facts.C14.stmts_ReadZipReader_loop.take 3 =
      ["fileSize := v.FileInfo().Size()", "unzipSize += fileSize", "if fileSize < 0 || unzipSize < 0 || unzipSize > f.options.UnzipSizeLimit"] := by decide

/-- clause "allocate memory out of proportion to the configured unzip limits": a package is accepted
exactly when the declared sizes of ALL its entries (spooled or not) sum to at most `UnzipSizeLimit` -/
theorem unzip_limit_exact (sizes : List Nat) (limit xmlLimit : Nat) (hx : xmlLimit ≤ limit) :
    openLimits sizes limit xmlLimit = .ok () ↔ sizes.sum ≤ limit := by
  unfold openLimits
  rw [if_neg (by omega)]
  have := zipAccount_iff sizes 0 limit (Nat.zero_le _)
  simp only [Nat.zero_add] at this
  constructor
  · intro h
    split at h
    · rename_i hz; exact this.mp hz
    · cases h
  · intro h
    rw [if_pos (this.mpr h)]

/-- … also for what a hostile central directory can declare: sizes read as signed 64-bit values
(negative for declared sizes ≥ 2^63) with a running total that wraps like Go's `int64`. An accepted
package has no negative size and its TRUE (unwrapped) total is within the limit: the accounting cannot
be bypassed by overflow -/
theorem unzip_limit_no_overflow (sizes : List Int) (limit : Int) (h0 : 0 ≤ limit)
    (hl : limit < 9223372036854775808) (hs : ∀ s ∈ sizes, s < 9223372036854775808)
    (h : zipAccountI sizes 0 limit = true) : (∀ s ∈ sizes, 0 ≤ s) ∧ sizes.sum ≤ limit := by
  have := zipAccountI_sound sizes 0 limit (Int.le_refl _) h0 hl hs h
  simpa using this

/-- the overflow guard is not vacuous: two entries declaring 2^62 + 2^62 + … wrap the total negative and are rejected -/
theorem unzip_overflow_rejected :
    zipAccountI [4611686018427387904, 4611686018427387904] 0 9223372036854775807 = false := by
  decide +kernel

/-- clause "allocate out of proportion": `readFile` reserves `make([]byte, 0, declaredSize)` per entry — in an
accepted package every declared size is itself within `UnzipSizeLimit` -/
theorem zip_entry_alloc_bounded (sizes : List Nat) (limit xmlLimit : Nat) (hx : xmlLimit ≤ limit)
    (h : openLimits sizes limit xmlLimit = .ok ()) : ∀ s ∈ sizes, s ≤ limit := by
  have hs := (unzip_limit_exact sizes limit xmlLimit hx).mp h
  intro s hm
  have := mem_le_sum sizes s hm
  omega

/-- the append loop of `checkSheetR0` (`for c := columns; c < col; c++ { append(…, xlsxC{}) }`) makes a row
exactly `col` cells wide when it was narrower and leaves it alone otherwise; `col` comes from
`CellNameToCoordinates`, so a row never grows beyond MaxColumns by padding -/
theorem pad_width_bounded (cells : List Cell) (col : Int) (hc : col ≤ (Facts.MaxColumns : Int)) :
    (padTo cells col.toNat).length ≤ Facts.MaxColumns ∨ (padTo cells col.toNat).length = cells.length := by
  rw [padTo_length_le]
  split
  · left; omega
  · right; rfl

/-- the result accounting of `GetRows` is the one the model transcribes -/
theorem guards_getRows :
    "emptyRows := cur - maxVal - 1; emptyRows > 0" ∈ Facts.C14.conds_GetRows ∧ "len(row) > 0" ∈ Facts.C14.conds_GetRows ∧
    Facts.C14.index_GetRows = ["results[:maxVal]", "results[:maxVal]", "results[:maxVal]"] := by decide

/-- `GetRows`: for every sequence of empty / non-empty rows the iterator delivers, `make([][]string,
emptyRows)` is never negative, `results[:maxVal]` is in range, and the number of rows returned is at most
the number of iterations (which `Rows.Next` bounds by TotalRows) -/
theorem no_panic_getRows (iters : List Bool) :
    (getRows iters).isPanic = false ∧ ∀ n, getRows iters = .ok n → n ≤ iters.length := by
  unfold getRows
  obtain ⟨l, m, e, a, c, d⟩ := getRowsLoop_inv iters 0 0 0 (by simp) (Int.le_refl _) (Int.le_refl _)
  rw [e]
  simp only [Outcome.bind]
  rw [if_pos ⟨c, by omega⟩]
  refine ⟨rfl, ?_⟩
  intro n hn
  simp only [Outcome.ok.injEq] at hn
  omega

/-! ## the Strict-namespace scanner -/

/-- the two backward scans of `namespaceStrictToTransitional` are bounded by `> 0`, the forward scan by
`j < len(rest)`, and the index sites are the ones the model transcribes -/
theorem guards_nsStrict :
    Facts.C14.loops_nsStrict = ["i < len(content)", "j < len(rest) && rest[j] != '>'",
      "nameEnd > 0 && (rest[nameEnd-1] == '=' || rest[nameEnd-1] == ' ' || rest[nameEnd-1] == '\\t' || rest[nameEnd-1] == '\\n' || rest[nameEnd-1] == '\\r')",
      "nameStart > 0 && rest[nameStart-1] != ' ' && rest[nameStart-1] != '\\t' && rest[nameStart-1] != '\\n' && rest[nameStart-1] != '\\r' && rest[nameStart-1] != '<'"] ∧
    Facts.C14.index_nsStrict.length = 25 ∧ "rest[nameStart:nameEnd]" ∈ Facts.C14.index_nsStrict ∧
    "rest[valueStart:valueEnd]" ∈ Facts.C14.index_nsStrict ∧ "closing < 0" ∈ Facts.C14.conds_nsStrict := by decide +kernel

/-- clause "any byte sequence … never panic" for the first thing done with every part of a Strict package:
for EVERY byte string (unterminated tags, quotes without names, a damaged blank between two namespace
declarations, nothing but quotes, …) every index and slice `namespaceStrictToTransitional` takes is in range -/
theorem no_panic_nsStrict (content : List Char) : (nsStrict content).isPanic = false :=
  nsScan_no_panic _ content []

/-! ## the streaming row iterator -/

/-- `Rows.Next` / `Rows.Columns` take no index or slice at all, and the row-number guards are in place -/
theorem guards_rows_iterator :
    Facts.C14.index_rowsNext = [] ∧ Facts.C14.index_rowsColumns = [] ∧
    "rows.curRow >= rows.seekRow" ∈ Facts.C14.conds_rowsNext ∧ "rowNum > TotalRows" ∈ Facts.C14.conds_rowsNext ∧
    "rows.curRow > rows.seekRow" ∈ Facts.C14.conds_rowsColumns := by decide

/-- clause "never run without bound", one step of the iterator, for EVERY token sequence: `Next` advances
`seekRow` by exactly one, never puts tokens back, and a `true` answer either is the catch-up step
(`curRow ≥ seekRow`) or consumed a token; `curRow` only moves to `curRow + 1` or to a row number within
TotalRows.  (The global bound assembled from these steps is `getRows_iterations_bounded` below.) -/
theorem rows_next_step (s : RowsState) :
    (rowsNext s).2.2.seek = s.seek + 1 ∧
    (rowsNext s).2.2.toks.length ≤ s.toks.length ∧
    ((rowsNext s).1 = true → s.cur ≥ s.seek + 1 ∨ (rowsNext s).2.2.toks.length < s.toks.length) ∧
    ((rowsNext s).2.2.cur ≤ s.cur + 1 ∨ (rowsNext s).2.2.cur ≤ (Facts.TotalRows : Int)) := by
  unfold rowsNext
  split
  · rename_i h; simp; exact h
  · have := nextScan_spec s.cur (s.seek + 1) s.toks
    generalize nextScan s.cur (s.seek + 1) s.toks = res at this
    obtain ⟨ok, e, s'⟩ := res
    simp only at this ⊢
    exact ⟨this.1, this.2.1, fun h => Or.inr (this.2.2.1 h), this.2.2.2⟩

/-- clause "never run without bound", the whole `GetRows` loop, full strength: for EVERY token sequence (any
row numbers — absent, descending, repeated, beyond TotalRows —, any cells) the loop on a fresh iterator
delivers at most TotalRows + 2 × tokens rows, whatever fuel the model run is given.  Budget argument:
`curRow + remaining tokens ≤ TotalRows + tokens` is kept by `Next` and `Columns`, and
`(TotalRows + tokens − seekRow) + remaining tokens` falls with every delivered row. -/
theorem getRows_iterations_bounded (toks : List Tok) (fuel : Nat) :
    (getRowsIter fuel { cur := 0, seek := 0, held := none, toks := toks } []).1.length
      ≤ Facts.TotalRows + 2 * toks.length := by
  have := getRowsIter_budget ((Facts.TotalRows : Int) + (toks.length : Int)) fuel
    { cur := 0, seek := 0, held := none, toks := toks } [] (by dsimp only; omega) (by dsimp only; omega)
  simp only [List.length_nil] at this
  omega

/-- … and therefore the fuel of the model run is never what ends it: the run the driver compares with
`GetRows` (fuel TotalRows + 2 × tokens + 1 or more) is the unbounded run — more fuel never changes the result -/
theorem getRows_fuel_irrelevant (toks : List Tok) (k : Nat) :
    getRowsIter (Facts.TotalRows + 2 * toks.length + 1 + k) { cur := 0, seek := 0, held := none, toks := toks } [] =
    getRowsIter (Facts.TotalRows + 2 * toks.length + 1) { cur := 0, seek := 0, held := none, toks := toks } [] := by
  apply getRowsIter_fuel_enough
  have := getRows_iterations_bounded toks (Facts.TotalRows + 2 * toks.length + 1)
  simp only [List.length_nil]
  omega

/-- clause "never allocate without bound", the streamed row: the blank padding of `rowXMLHandler` (a cell at
column `c` of a row with `n` cells so far appends `c − n − 1` blanks) never makes a row of `Rows.Columns` wider
than MaxColumns + remaining tokens, for EVERY state and token sequence whose parsable cell references lie in
the grid — which is what `CellNameToCoordinates` guarantees (`decoded_refs_in_grid`, C20); cells without a
reference follow the running column, one per token.  Extra hypothesis explicit: `ColsInGrid`. -/
theorem rows_columns_width_bounded_partial (s : RowsState) (hG : ColsInGrid s.toks) :
    (rowsColumns s).1 ≤ Facts.MaxColumns + s.toks.length :=
  rowsColumns_width s hG

/-- the hypothesis is not redundant: a column beyond the grid (which `CellNameToCoordinates` never returns)
would be padded to — one `<c>` token, a row of 100000 entries -/
theorem cols_in_grid_needed :
    (rowsColumns { cur := 1, seek := 1, held := some 1, toks := [.cell (some 100000) false true, .endData] }).1 = 100000 := by
  decide +kernel

/-- **the same at full strength**: for EVERY iterator state and EVERY token sequence as the XML decoder
delivers it — any `<row>` numbers, any text whatsoever in each `c/@r` (absent, garbage, overlong column names) —
the row `Rows.Columns` builds is at most MaxColumns + tokens wide.  `ColsInGrid` is discharged by C20's
`cell_decode_encode`: a reference `CellNameToCoordinates` accepts has its column inside the grid. -/
theorem rows_columns_width_bounded (cur seek : Int) (held : Option Int) (raw : List RawTok) :
    (rowsColumns { cur := cur, seek := seek, held := held, toks := toksOf raw }).1 ≤ Facts.MaxColumns + raw.length := by
  have h := rows_columns_width_bounded_partial { cur := cur, seek := seek, held := held, toks := toksOf raw }
    (by
      intro c b v hm
      obtain ⟨s, rw, hs⟩ := toksOf_col raw c b v hm
      exact (XlModel.Props.C20.cell_decode_encode s c rw hs).2.1)
  simpa only [toksOf_length] using h

/-! ## every index taken from a struct field -/

/-- the table of index / slice expressions of the read-side files whose index is a struct field — the
syntactic shape of "indexed by a decoded value" — is the reviewed one.  Coverage of the 97 entries:
`checkSheet` ×3 (`no_panic_load`), `formattedValue` ×2 (`no_panic_styleIndex`), `GetStyle` ×3 (`no_panic_getStyle`),
`GetComments` (`no_panic_commentAuthor`), `createIV` (`no_panic_agile_validation`), `getImageCellRel` ×2
(`no_panic_imageCellRel`), `extractPivotTableFields` `order[field.Fld]` (open finding,
outside the battery); all the others index maps (Go maps cannot panic on lookup) keyed by option or
decoded strings, or belong to writer functions (`add…`, `draw…`, `new…`, `Set…`) driven by API options. -/
theorem field_index_sites_reviewed :
    Facts.C14.fieldIndexSites.length = 97 ∧
    -- … of which index a slice (not a map) outside the writer functions:
    Facts.C14.fieldIndexSitesSlices =
      ["excelize.go:checkSheet: sheetData.Row[r.R-1]", "excelize.go:checkSheet: sheetData.Row[r0Row.R-1]",
       "excelize.go:checkSheet: sheetData.Row[r0Row.R-1]", "crypt.go:createIV: iv[:encryptedKey.BlockSize]",
       "cell.go:formattedValue: styleSheet.CellXfs.Xf[c.S]", "cell.go:formattedValue: styleSheet.CellXfs.Xf[c.S]",
       "styles.go:GetStyle: s.Fills.Fill[*xf.FillID]", "styles.go:GetStyle: s.Borders.Border[*xf.BorderID]",
       "styles.go:GetStyle: s.Fonts.Font[*xf.FontID]", "picture.go:getImageCellRel: vmd.Bk[*c.Vm-1]",
       "picture.go:getImageCellRel: vmd.Bk[*c.Vm-1]", "vml.go:GetComments: cmts.Authors.Author[cmt.AuthorID]",
       "pivotTable.go:extractPivotTableFields: order[field.Fld]"] := by decide

/-- the two guards of `getImageCellRel` -/
theorem guards_imageCell :
    "vmd == nil || *c.Vm < 1 || int(*c.Vm) > len(vmd.Bk) || len(vmd.Bk[*c.Vm-1].Rc) == 0" ∈ Facts.C14.conds_getImageCellRel ∧
    "richValueIdx < 0 || richValueIdx >= len(richValue.Rv)" ∈ Facts.C14.conds_getImageCellRel := by decide

/-- `getImageCellRel`, full strength: for EVERY `vm` attribute (0, beyond the block list), every number of
metadata blocks and records, every rich value index (negative, beyond the list) the function ends in
"not an image cell" or a selected rich value -/
theorem no_panic_imageCellRel (vm : Nat) (nBk : Option Nat) (rcLen : Nat → Nat) (v : Int) (nRv : Nat) :
    (imageCellRel vm nBk rcLen v nRv).isPanic = false := by
  unfold imageCellRel
  cases nBk with
  | none => rfl
  | some n =>
    simp only
    split; · rfl
    rename_i hle
    have hi : (if vm = 0 then 18446744073709551615 else vm - 1) = vm - 1 := if_neg (by omega)
    simp only [hi]
    split
    · omega
    split; · rfl
    split
    · omega
    split; · rfl
    rename_i hv
    rw [inRange_of (by omega) (by omega)]
    rfl

/-- regression witnesses of the two repaired defects: `vm="0"` and a negative rich value index are "not an image cell" -/
theorem imageCell_regressions :
    imageCellRel 0 (some 1) (fun _ => 1) 0 1 = .ok false ∧ imageCellRel 1 (some 1) (fun _ => 1) (-1) 1 = .ok false := by
  decide +kernel

/-! ## non-vacuity -/

/-- the hypotheses are satisfiable and the guards do reject: unordered cells (Z1, C1, D1) load
without panic; `<row r="-1">` and `<row r="99999999">` are errors; `<v>-3</v>` is a value -/
theorem witnesses :
    (load [{ r := 1, cells := [{ r := .orig (some (26, 1)), hv := true, id := some 0 },
                               { r := .orig (some (3, 1)), hv := true, id := some 1 },
                               { r := .orig (some (4, 1)), hv := true, id := some 2 }] }]).isPanic = false ∧
    ((load [{ r := 1, cells := [{ r := .orig (some (26, 1)), hv := true, id := some 0 },
                               { r := .orig (some (3, 1)), hv := true, id := some 1 },
                               { r := .orig (some (4, 1)), hv := true, id := some 2 }] }]).bind
        fun g => .ok (g.map fun r => r.cells.length)) = .ok [26] ∧
    (∃ o, checkSheet [{ r := -1, cells := [] }] = o ∧ o.isPanic = false) ∧
    RefsInGrid [{ r := 7, cells := [{ r := .orig (some (3, 9)), hv := true, id := some 0 }] }] ∧
    getValueFrom { t := .s, vEmpty := false, vIs1 := false, vIs0 := false, idx := -3, s := 0,
                   nSI := 3, nXf := some 1, raw := false } = .ok .v := by
  refine ⟨by decide +kernel, by decide +kernel, ⟨_, rfl, by decide⟩, ?_, by decide⟩
  intro r hr c hc col rw hco
  simp only [List.mem_cons, List.mem_nil_iff, or_false] at hr
  subst hr
  simp only [List.mem_cons, List.mem_nil_iff, or_false] at hc
  subst hc
  simp only [R.coords, Option.some.injEq, Prod.mk.injEq] at hco
  obtain ⟨rfl, rfl⟩ := hco
  decide

end XlModel.Props.C14
