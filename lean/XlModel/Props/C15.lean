import XlModel.Conc
import XlModel.Lemmas.Conc
namespace XlModel.Props.C15
open XlModel.Conc
theorem placeholder : True := trivial
end XlModel.Props.C15
