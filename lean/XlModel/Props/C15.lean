import XlModel.Conc
import XlModel.Lemmas.Conc
import XlModel.Lemmas.ConcLin
import XlModel.Lemmas.ConcInst
/-!
# C15 — documented concurrency-safe functions are race-free and linearizable

General theorems (any lock / location types, any number of threads, every
interleaving) are proved in `XlModel.Lemmas.Conc` and restated here; the
instantiations are decided on the lock skeletons regenerated from the Go source
(`XlModel.Facts.C15`), so removing, adding or reordering a `Lock`/`Unlock`, or
moving an access out of its critical section, changes the facts these
obligations are evaluated on.

Claimed *partial*: what is proved is the lock protocol of the model (threads =
flattened skeletons, locks and locations = classes).  The Go scheduler and memory
model, lock *instances* (two worksheets have two mutexes), and the value
semantics of the operations are outside the model; the race detector and the
final-state oracle of the harness validate and search.
-/
namespace XlModel.Props.C15
open XlModel.Conc XlModel.Facts.C15

/-- the functions in scope: everything whose doc comment says "concurrency safe",
plus the methods of the iterators that `Rows` / `Cols` hand out -/
def api : List String := documented ++ iterMethods

/-- a goroutine that calls the given API functions one after the other -/
def threadOf (calls : List String) : List Act := (calls.map Impl.trace).flatten

/-! ## general theorems (proved once) -/

/-- *no deadlock* clause, general form: if every thread acquires mutexes in
strictly increasing rank and releases only what it holds, every reachable state
in which some thread is unfinished has an enabled step. -/
theorem ordered_no_deadlock {L X : Type} [DecidableEq L] [DecidableEq X] (rank : L → Nat)
    (progs : List (List (Action L X))) (h : ∀ p ∈ progs, okOrder rank [] p = true)
    {s : Sys L X} (r : Reach (initSys progs) s) (hne : ¬ Finished s) : ∃ s', Step s s' :=
  ordered_no_deadlock_reach rank progs h r hne

/-- every step consumes one action: all runs are finite, so together with
`ordered_no_deadlock` every maximal run ends with all threads finished -/
theorem runs_terminate {L X : Type} [DecidableEq L] [DecidableEq X] {s s' : Sys L X}
    (st : Step s s') : size s' < size s := step_decreases st

/-- when all threads are finished every mutex has been released -/
theorem finished_releases_all {L X : Type} [DecidableEq L] [DecidableEq X] (rank : L → Nat)
    (progs : List (List (Action L X))) (h : ∀ p ∈ progs, okOrder rank [] p = true)
    {s : Sys L X} (r : Reach (initSys progs) s) (hf : Finished s) : ∀ t ∈ s, t.held = [] :=
  finished_holds_nothing rank s (reach_preserves_order rank (init_order rank progs h) r) hf

/-- *no data race* clause, general form: if every access to a checked location
is made while its guard is held, no reachable state has two threads about to
access the same checked location with one of them writing. -/
theorem guarded_race_free {L X : Type} [DecidableEq L] [DecidableEq X] (guard : X → Option L)
    (chk : X → Bool) (progs : List (List (Action L X)))
    (h : ∀ p ∈ progs, okGuard guard chk [] p = true) {s : Sys L X}
    (r : Reach (initSys progs) s) (x : X) (hx : chk x = true) : ¬ RaceOn s x :=
  guarded_race_free_reach guard chk progs h r x hx

/-- *linearizable* clause, general part: critical sections over one location
never overlap — while one thread holds the guard of `x` no other thread's next
action touches `x`; an operation whose whole effect on `x` lies in one critical
section therefore takes effect atomically at that section. -/
theorem critical_sections_serialized {L X : Type} [DecidableEq L] [DecidableEq X]
    (guard : X → Option L) (chk : X → Bool) (progs : List (List (Action L X)))
    (h : ∀ p ∈ progs, okGuard guard chk [] p = true) {s : Sys L X} (r : Reach (initSys progs) s)
    (x : X) (g : L) (hx : chk x = true) (hgx : guard x = some g) (t u : TState L X)
    (pre mid post : Sys L X)
    (hs : s = pre ++ t :: mid ++ u :: post ∨ s = pre ++ u :: mid ++ t :: post)
    (ht : g ∈ t.held) (a : Action L X) (ra : List (Action L X)) (hu : u.rest = a :: ra) :
    a.touches x = false :=
  critical_section_exclusive guard chk s (reach_preserves_mutex (mutex_init progs) r)
    (reach_preserves_guard guard chk (init_guard guard chk progs h) r) x g hx hgx t u pre mid post hs ht a ra hu

/-! ## instantiation on the extracted lock skeletons -/

/-- **lock_order_acyclic**: every API function takes its mutexes in the order
worksheet → drawing → style sheet → file → shared strings → content types →
relationships, releases only what it holds and returns holding nothing. -/
theorem lock_order_acyclic : api.all Impl.ordered = true := by decide +kernel

/-- every `return` of every followed function leaves no explicitly taken lock
behind, and no function touches a location after releasing its guard on the way
out (the side conditions of the flattening) -/
theorem exits_balanced :
    skeletons.all (fun p => exitsBalanced [] [] [] p.2 && noAccessAfterExitUnlock [] [] p.2) = true := by
  decide +kernel

theorem trace_ordered {f : String} (hf : f ∈ api) : okOrder rank [] (Impl.trace f) = true :=
  List.all_eq_true.mp lock_order_acyclic f hf

theorem thread_ordered {calls : List String} (h : ∀ f ∈ calls, f ∈ api) :
    okOrder rank [] (threadOf calls) = true := by
  apply okOrder_flatten
  intro p hp
  obtain ⟨f, hf, rfl⟩ := List.mem_map.mp hp
  exact trace_ordered (h f hf)

/-- **documented_no_deadlock** (*no deadlock* clause for the code): any number of
goroutines, each calling any sequence of the documented functions, under any
interleaving: a state with unfinished goroutines can always move on. -/
theorem documented_no_deadlock (threads : List (List String))
    (h : ∀ th ∈ threads, ∀ f ∈ th, f ∈ api) {s : Sys String Loc}
    (r : Reach (initSys (threads.map threadOf)) s) (hne : ¬ Finished s) : ∃ s', Step s s' := by
  apply ordered_no_deadlock rank _ _ r hne
  intro p hp
  obtain ⟨th, hth, rfl⟩ := List.mem_map.mp hp
  exact thread_ordered (h th hth)

/-- … and when they are all done no mutex is left locked -/
theorem documented_release_all (threads : List (List String))
    (h : ∀ th ∈ threads, ∀ f ∈ th, f ∈ api) {s : Sys String Loc}
    (r : Reach (initSys (threads.map threadOf)) s) (hf : Finished s) : ∀ t ∈ s, t.held = [] := by
  apply finished_releases_all rank _ _ r hf
  intro p hp
  obtain ⟨th, hth, rfl⟩ := List.mem_map.mp hp
  exact thread_ordered (h th hth)

/-! ### guarded-by table -/

/-- pointers that `NewFile` / `OpenReader` load before any concurrent call
(`File.ContentTypes` since the fix that makes `OpenReader` preload it; before,
the race detector reported `race:File.ContentTypes:AddPicture|AddPicture`); the
lazy `if f.X == nil { f.X = … }` branch of their readers is dead afterwards
(assumption, validated by the race detector) -/
def preloaded : List Loc := [("File", "Styles"), ("File", "WorkBook"), ("File", "ContentTypes")]

/-- written by no API function (only read): cannot be raced on by API calls -/
def readOnly : List Loc := [("File", "sheetMap"), ("Workbook", "fields")]

/-- locations for which the class-level model does NOT establish guardedness:
`Rels.list` — relationship parts are per-instance objects (workbook rels are read
under File.mu, drawing rels under the worksheet mutex) and the model merges them;
(`File.sharedStringItem/Temp`, the spill-to-disk shared-string index, was listed here
until `getFromStringItem` was put under File.mu: the race detector reported it and
readers got wrong values);
`Ws.MergeCells` — `mergeCellsParser`
caches rectangles while `AddPicture`'s `drawingResize` reads merged cells.
None of these was reported by the race detector. -/
def notCovered : List Loc :=
  [("Rels", "list"), ("Ws", "MergeCells")]

/-- the worksheet cache `File.Sheet` (a `sync.Map`): only the FIRST load of a call matters
(later `workSheetReader` calls of the same API call hit the cache), see
`worksheet_first_load_locked` -/
def firstLoadOnly : List Loc := [("File", "sheetCache")]

def allowedUnguarded : List Loc := preloaded ++ readOnly ++ notCovered ++ firstLoadOnly

/-- **guarded_by_table**: in every API function every access to a shared
location outside `allowedUnguarded` is made while the mutex of the object it
belongs to is held (worksheet fields under `ws.mu`, style tables under
`Styles.mu`, `sst.SI` under `sst.mu`, `sharedStringsMap` / `SharedStrings` /
`CalcChain` under `File.mu`, …). -/
theorem guarded_by_table :
    api.all (fun f => (accesses [] (Impl.trace f)).all
      (fun a => a.2.2 || allowedUnguarded.contains a.1 || syncMapClasses.contains a.1.1)) = true := by decide +kernel

theorem okGuard_of_accesses (chk : Loc → Bool) : ∀ (t : List Act) (h : List String),
    (accesses h t).all (fun a => a.2.2 || !chk a.1) = true → okGuard guardOf chk h t = true := by
  intro t
  induction t with
  | nil => intro h _; simp [okGuard]
  | cons a t ih =>
    intro h hacc
    cases a with
    | acq l => simp only [accesses, okGuard] at hacc ⊢; exact ih _ hacc
    | rel l => simp only [accesses, okGuard] at hacc ⊢; exact ih _ hacc
    | rd x =>
      simp only [accesses, okGuard, List.all_cons, Bool.and_eq_true] at hacc ⊢
      refine ⟨?_, ih _ hacc.2⟩
      have h1 := hacc.1
      cases hg : guardOf x with
      | none => simp [hg] at h1 ⊢; simp [h1]
      | some g =>
        simp only [hg] at h1 ⊢
        cases hc : chk x with
        | false => simp
        | true => simp [hc] at h1 ⊢; exact h1
    | wr x =>
      simp only [accesses, okGuard, List.all_cons, Bool.and_eq_true] at hacc ⊢
      refine ⟨?_, ih _ hacc.2⟩
      have h1 := hacc.1
      cases hg : guardOf x with
      | none => simp [hg] at h1 ⊢; simp [h1]
      | some g =>
        simp only [hg] at h1 ⊢
        cases hc : chk x with
        | false => simp
        | true => simp [hc] at h1 ⊢; exact h1

/-- checked locations: everything outside `allowedUnguarded`; the raw `sync.Map` operations
(classes `SyncMap:*`, atomic one by one) are handled by `syncmap_idioms_attributed` -/
def chkLoc (x : Loc) : Bool := !(allowedUnguarded.contains x || syncMapClasses.contains x.1)

theorem trace_guarded {f : String} (hf : f ∈ api) : okGuard guardOf chkLoc [] (Impl.trace f) = true := by
  apply okGuard_of_accesses
  have := List.all_eq_true.mp guarded_by_table f hf
  refine List.all_eq_true.mpr ?_
  intro a ha
  have h1 := List.all_eq_true.mp this a ha
  simp only [chkLoc, Bool.not_not]
  simpa [Bool.or_assoc] using h1

theorem thread_guarded {calls : List String} (h : ∀ f ∈ calls, f ∈ api) :
    okGuard guardOf chkLoc [] (threadOf calls) = true := by
  apply okGuard_flatten rank
  · intro p hp
    obtain ⟨f, hf, rfl⟩ := List.mem_map.mp hp
    exact trace_ordered (h f hf)
  · intro p hp
    obtain ⟨f, hf, rfl⟩ := List.mem_map.mp hp
    exact trace_guarded (h f hf)

/-- **documented_race_free** (*no data race* clause for the code): any number of
goroutines calling any sequences of the documented functions never reach a state
with a data race on a checked location (`chkLoc`: outside `allowedUnguarded`) — in particular
none on the worksheet grid, columns, data validations, drawing reference, the
style tables, the shared-string table and its index map, the calculation chain,
content-type and drawing-anchor lists, and the media / drawing part lists (the
scan-then-store sequences in `addMedia`, `countDrawings`, `drawingLoader`, whose
footprint on the `sync.Map`s is hand-assigned in the extractor). -/
theorem documented_race_free (threads : List (List String))
    (h : ∀ th ∈ threads, ∀ f ∈ th, f ∈ api) {s : Sys String Loc}
    (r : Reach (initSys (threads.map threadOf)) s) (x : Loc)
    (hx : chkLoc x = true) : ¬ RaceOn s x := by
  apply guarded_race_free guardOf chkLoc _ _ r x hx
  intro p hp
  obtain ⟨th, hth, rfl⟩ := List.mem_map.mp hp
  exact thread_guarded (h th hth)

/-- the locations the theorem speaks about are really the ones the property
names (non-vacuity of `hx`) -/
theorem covered_locations :
    [("Ws", "SheetData"), ("Ws", "Cols"), ("Ws", "DataValidations"), ("Ws", "Drawing"),
     ("Styles", "tables"), ("Sst", "SI"), ("File", "sharedStringsMap"), ("File", "SharedStrings"),
     ("File", "CalcChain"), ("CalcChain", "C"), ("ContentTypes", "list"), ("Drawing", "anchors"),
     ("File", "mediaParts"), ("File", "drawingParts"), ("File", "sharedStringItem"),
     ("File", "sharedStringTemp")].all
      chkLoc = true := by decide

/-- was `File.mu` held at the first access of the trace to location `x`? (`true` if none) -/
def firstAccessUnder (g : String) (x : Loc) : List String → List Act → Bool
  | _, [] => true
  | h, .acq l :: r => firstAccessUnder g x (l :: h) r
  | h, .rel l :: r => firstAccessUnder g x (h.erase l) r
  | h, .rd y :: r => if y = x then h.contains g else firstAccessUnder g x h r
  | h, .wr y :: r => if y = x then h.contains g else firstAccessUnder g x h r

/-- **worksheet_first_load_locked** (modelled `sync.Map` idiom "load or decode-and-store"):
every documented function that goes through `workSheetReader` performs its first load of the
worksheet cache while holding `File.mu`, so two goroutines can not both decode an uncached
worksheet and lose the updates made through one of the copies (the defect repaired in
`SetColVisible`, `AddDataValidation`, `DeleteDataValidation`, `setCellTimeFunc`). `Rows` and
`Cols` only `Load` the cache and are not concerned. -/
theorem worksheet_first_load_locked :
    api.all (fun f => firstAccessUnder "File" ("File", "sheetCache") [] (Impl.trace f)) = true := by
  decide +kernel

/-- **one_worksheet_per_call** (lock *instances*): every followed function that loads a
worksheet loads the one named by its own `sheet` parameter — so within one API call the
class-level lock `Ws` and the locations `Ws.*` denote ONE worksheet instance, and workbook-wide
state (`File.*`, part lists, style tables, shared strings) is never guarded by a worksheet
mutex in `guardOfClass`: accesses to it under a worksheet mutex only are reported unguarded. -/
theorem one_worksheet_per_call :
    wsArgs.all (fun p => p.2.all (fun a => a == "sheet")) = true := by decide

/-! ## linearizability of critical sections -/

/-- **atomic_sections_linearizable** (*linearizable* clause, general form; any lock and
location types, any number of threads, every interleaving, complete or not).  For a guard
lock `g` with footprint `F` (the checked locations guarded by `g`), cut the trace `τ` of an
execution of guarded threads into the sections of `g` (`blocks`): then
1. the history of footprint accesses of the whole execution is the concatenation of WHOLE
   sections, in the order in which they were entered — no section is ever interleaved with
   an access of another thread to the footprint;
2. the sections of thread `i` are exactly the sections of the part of its program it has
   executed, in program order;
3. no access of a thread is lost or reordered in the history.
So the execution has the same footprint history — and, for any state semantics (see
`final_state_is_serial`), the same final footprint state — as the *sequential* execution
that runs the sections one after the other; an operation whose whole effect on `F` lies in
one section takes effect atomically at that section. -/
theorem atomic_sections_linearizable {L X : Type} [DecidableEq L] [DecidableEq X]
    (guard : X → Option L) (chk : X → Bool) (g : L) (progs : List (List (Action L X)))
    (h : ∀ p ∈ progs, okGuard guard chk [] p = true) {τ : List (Event L X)} {s' : Sys L X}
    (ex : Exec (initSys progs) τ s') :
    (blocks g (footprint guard chk g) none τ).flatMap Block.events = projF (footprint guard chk g) τ ∧
    (∀ i p, progs[i]? = some p → ∃ t' done, s'[i]? = some t' ∧ done ++ t'.rest = p ∧
      (blocks g (footprint guard chk g) none τ).filter (fun c => c.1 == i) =
        blocks g (footprint guard chk g) none (tag i done) ∧
      only i (projF (footprint guard chk g) τ) = projF (footprint guard chk g) (tag i done)) := by
  have hd : disc g (footprint guard chk g) none τ = true :=
    exec_disc guard chk g ex none (mutex_init progs) (nodup_init progs) (init_guard guard chk progs h)
      (by
        intro t ht
        simp only [initSys, List.mem_map] at ht
        obtain ⟨p, _, rfl⟩ := ht
        simp)
  refine ⟨?_, ?_⟩
  · have := blocks_flat g (footprint guard chk g) τ none (by simpa using hd)
    simpa [curEvents] using this
  · intro i p hp
    have hi : (initSys progs)[i]? = some ⟨[], p⟩ := by simp [initSys, hp]
    obtain ⟨t', ht', done, hdone, hrest⟩ := exec_proj ex i ⟨[], p⟩ hi
    refine ⟨t', done, ht', hrest, ?_, ?_⟩
    · have := blocks_filter g (footprint guard chk g) i τ none (by simpa using hd)
      simpa [curOf, hdone] using this
    · rw [projF_only, hdone]

/-- the final footprint state of ANY interleaving, under any state semantics `apply`, is the
final state of running the sections one after the other -/
theorem final_state_is_serial {L X : Type} [DecidableEq L] [DecidableEq X]
    (guard : X → Option L) (chk : X → Bool) (g : L) (progs : List (List (Action L X)))
    (h : ∀ p ∈ progs, okGuard guard chk [] p = true) {τ : List (Event L X)} {s' : Sys L X}
    (ex : Exec (initSys progs) τ s') {σ : Type} (apply : σ → Event L X → σ) (σ0 : σ) :
    (projF (footprint guard chk g) τ).foldl apply σ0 =
      ((blocks g (footprint guard chk g) none τ).flatMap Block.events).foldl apply σ0 := by
  rw [(atomic_sections_linearizable guard chk g progs h ex).1]

/-- the sections of lock `g` that one call of `f` by thread `i` contributes -/
def callBlocks (g : String) (i : Nat) (f : String) : List (Block String Loc) :=
  blocks g (footprint guardOf chkLoc g) none (tag i (Impl.trace f))

/-- every API call opens and closes its worksheet / style-sheet sections itself -/
theorem api_sections_closed :
    api.all (fun f => closed "Ws" false (Impl.trace f) && closed "Styles" false (Impl.trace f)) = true := by
  decide +kernel

/-- **setters_linearizable** (*linearizable* clause for the code, per worksheet grid and per
style sheet): for any number of goroutines calling any sequences of the documented
functions, in every complete interleaving, the history of accesses to the worksheet
(`g = "Ws"`) resp. the style tables (`g = "Styles"`) is a concatenation of whole critical
sections, and the sections contributed by goroutine `i` are, call by call and in program
order, the sections `callBlocks g i f` of its calls. -/
theorem setters_linearizable (g : String) (hg : g = "Ws" ∨ g = "Styles") (threads : List (List String))
    (hapi : ∀ th ∈ threads, ∀ f ∈ th, f ∈ api) {τ : List (Event String Loc)} {s' : Sys String Loc}
    (ex : Exec (initSys (threads.map threadOf)) τ s') (hf : Finished s') :
    (blocks g (footprint guardOf chkLoc g) none τ).flatMap Block.events =
      projF (footprint guardOf chkLoc g) τ ∧
    ∀ i calls, threads[i]? = some calls →
      (blocks g (footprint guardOf chkLoc g) none τ).filter (fun c => c.1 == i) =
        (calls.map (callBlocks g i)).flatten := by
  have hgd : ∀ p ∈ threads.map threadOf, okGuard guardOf chkLoc [] p = true := by
    intro p hp
    obtain ⟨th, hth, rfl⟩ := List.mem_map.mp hp
    exact thread_guarded (hapi th hth)
  obtain ⟨h1, h2⟩ := atomic_sections_linearizable guardOf chkLoc g _ hgd ex
  refine ⟨h1, ?_⟩
  intro i calls hc
  obtain ⟨t', done, ht', hrest, hb, _⟩ := h2 i (threadOf calls) (by simp [hc])
  have hfin : t'.rest = [] := hf t' (mem_of_get ht')
  rw [hfin, List.append_nil] at hrest
  rw [hb, hrest]
  have hcl : ∀ p ∈ calls.map Impl.trace, closed g false p = true := by
    intro p hp
    obtain ⟨f, hfm, rfl⟩ := List.mem_map.mp hp
    have := List.all_eq_true.mp api_sections_closed f (hapi calls (mem_of_get hc) f hfm)
    simp only [Bool.and_eq_true] at this
    rcases hg with rfl | rfl
    · exact this.1
    · exact this.2
  have := (blocks_flatten g (footprint guardOf chkLoc g) i (calls.map Impl.trace) hcl).1
  simp only [threadOf]
  rw [this]
  simp only [List.map_map, Function.comp_def]
  rfl

/-- the typed cell setters, `SetCellStyle`, the column setters and the data-validation
functions contribute at most ONE worksheet section per call (their whole effect on the
worksheet is atomic); with `setters_linearizable` the worksheet history of any run is a
sequence of whole calls: last writer wins per cell. `SetSheetRow`/`SetCellValue` (a loop /
a type switch over these setters) and `SetColStyle` (column entry, then one `SetCellStyle`
per column) are the exceptions. -/
theorem atomic_calls :
    ["SetCellInt", "SetCellUint", "SetCellBool", "SetCellStr", "SetCellDefault", "SetCellStyle",
     "GetCellStyle", "SetColWidth", "SetColVisible", "GetColWidth", "GetColVisible", "GetColStyle",
     "AddDataValidation", "DeleteDataValidation"].all
      (fun f => (callBlocks "Ws" 0 f).length ≤ 1) = true := by decide +kernel

/-- the shape of `callBlocks` does not depend on the goroutine -/
theorem callBlocks_any_thread (g : String) (i : Nat) (f : String) :
    callBlocks g i f = (callBlocks g 0 f).map fun c => (i, c.2) := by
  have := blocks_tag g (footprint guardOf chkLoc g) i (Impl.trace f) none
  simpa [callBlocks] using this

/-- **distinct_cells_all_present** (clause "all writes to distinct cells are present"): in
every complete interleaving each goroutine's accesses to the worksheet appear in the
worksheet history completely and in program order — no write is lost from the history, and
(by `setters_linearizable`) none is torn apart by another goroutine's access. -/
theorem distinct_cells_all_present (threads : List (List String))
    (hapi : ∀ th ∈ threads, ∀ f ∈ th, f ∈ api) {τ : List (Event String Loc)} {s' : Sys String Loc}
    (ex : Exec (initSys (threads.map threadOf)) τ s') (hf : Finished s') :
    ∀ i calls, threads[i]? = some calls →
      only i (projF (footprint guardOf chkLoc "Ws") τ) =
        projF (footprint guardOf chkLoc "Ws") (tag i (threadOf calls)) := by
  have hgd : ∀ p ∈ threads.map threadOf, okGuard guardOf chkLoc [] p = true := by
    intro p hp
    obtain ⟨th, hth, rfl⟩ := List.mem_map.mp hp
    exact thread_guarded (hapi th hth)
  intro i calls hc
  obtain ⟨t', done, ht', hrest, _, hp⟩ :=
    (atomic_sections_linearizable guardOf chkLoc "Ws" _ hgd ex).2 i (threadOf calls) (by simp [hc])
  have hfin : t'.rest = [] := hf t' (mem_of_get ht')
  rw [hfin, List.append_nil] at hrest
  rw [hp, hrest]

/-- **style_ids_denote_request** (clause "every style id handed to a goroutine denotes the
style it asked for"): one `NewStyle` call is ONE section of the style-sheet mutex, and that
section contains both the look-up (reads) and the append (writes) of the style tables; by
`setters_linearizable` no other goroutine's access to the style tables falls between them,
so the id computed from the table length is the index of the entry this call appended (or
found). -/
theorem style_ids_denote_request :
    (callBlocks "Styles" 0 "NewStyle").length = 1 ∧
    (callBlocks "Styles" 0 "NewStyle").all (fun c =>
      c.2.any (fun a => a.isWrite) && c.2.any (fun a => !a.isWrite)) = true := by decide +kernel

/-! ## lock instances: one worksheet mutex per worksheet -/

/-- instance-indexed locks and locations: the worksheet mutex and the worksheet fields carry
the index of the worksheet, everything else is workbook-wide -/
abbrev LockI := String × Option Nat
abbrev LocI := Loc × Option Nat

def lockOn (k : Nat) (l : String) : LockI := (l, if l = "Ws" then some k else none)
def locOn (k : Nat) (x : Loc) : LocI := (x, if x.1 = "Ws" then some k else none)

def rankI (l : LockI) : Nat := rank l.1
def guardI (x : LocI) : Option LockI := (guardOf x.1).map fun g => (g, if g = "Ws" then x.2 else none)
def chkI (x : LocI) : Bool := chkLoc x.1

/-- the trace of one call of `f` on worksheet number `k` (by `one_worksheet_per_call` every
worksheet access of a call goes to the worksheet named by its `sheet` argument) -/
def traceOn (c : String × Nat) : List (Action LockI LocI) :=
  (Impl.trace c.1).map (mapAct (lockOn c.2) (locOn c.2))

/-- a goroutine calling API functions on chosen worksheets -/
def threadOnSheets (calls : List (String × Nat)) : List (Action LockI LocI) :=
  (calls.map traceOn).flatten

theorem lockOn_injective (k : Nat) : Function.Injective (lockOn k) := by
  intro a b h
  simp only [lockOn, Prod.mk.injEq] at h
  exact h.1

theorem guardOfClass_ws {c : String} (h : guardOfClass c = some "Ws") : c = "Ws" := by
  unfold guardOfClass at h
  split at h <;> simp_all

theorem guardI_locOn (k : Nat) (x : Loc) : guardI (locOn k x) = (guardOf x).map (lockOn k) := by
  obtain ⟨c, fld⟩ := x
  simp only [guardI, locOn, guardOf, lockOn]
  by_cases hc : c = "Ws"
  · subst hc
    rfl
  · cases hg : guardOfClass c with
    | none => rfl
    | some g =>
      have hgw : g ≠ "Ws" := by
        intro e
        subst e
        exact hc (guardOfClass_ws hg)
      simp [hc, hgw, lockOn]

theorem traceOn_ordered {c : String × Nat} (hf : c.1 ∈ api) : okOrder rankI [] (traceOn c) = true :=
  okOrder_map (lockOn c.2) (lockOn_injective c.2) (locOn c.2) rank rankI (fun _ => rfl) _ (trace_ordered hf)

theorem traceOn_guarded {c : String × Nat} (hf : c.1 ∈ api) :
    okGuard guardI chkI [] (traceOn c) = true := by
  have := okGuard_map (lockOn c.2) (lockOn_injective c.2) (locOn c.2) guardOf guardI chkLoc chkI
    (guardI_locOn c.2) (fun _ => rfl) (Impl.trace c.1) []
  simp only [List.map_nil] at this
  unfold traceOn
  rw [this]
  exact trace_guarded hf

theorem threadOnSheets_ok {calls : List (String × Nat)} (h : ∀ c ∈ calls, c.1 ∈ api) :
    okOrder rankI [] (threadOnSheets calls) = true ∧ okGuard guardI chkI [] (threadOnSheets calls) = true := by
  have ho : ∀ p ∈ calls.map traceOn, okOrder rankI [] p = true := by
    intro p hp
    obtain ⟨c, hc, rfl⟩ := List.mem_map.mp hp
    exact traceOn_ordered (h c hc)
  have hg : ∀ p ∈ calls.map traceOn, okGuard guardI chkI [] p = true := by
    intro p hp
    obtain ⟨c, hc, rfl⟩ := List.mem_map.mp hp
    exact traceOn_guarded (h c hc)
  exact ⟨okOrder_flatten rankI _ ho, okGuard_flatten rankI guardI chkI _ ho hg⟩

/-- **per_sheet_no_deadlock**: the *no deadlock* clause with one worksheet mutex PER
WORKSHEET: any number of goroutines, each calling any documented functions on any worksheets
(two worksheets = two different mutexes that do not exclude each other). -/
theorem per_sheet_no_deadlock (threads : List (List (String × Nat)))
    (h : ∀ th ∈ threads, ∀ c ∈ th, c.1 ∈ api) {s : Sys LockI LocI}
    (r : Reach (initSys (threads.map threadOnSheets)) s) (hne : ¬ Finished s) : ∃ s', Step s s' := by
  apply ordered_no_deadlock rankI _ _ r hne
  intro p hp
  obtain ⟨th, hth, rfl⟩ := List.mem_map.mp hp
  exact (threadOnSheets_ok (h th hth)).1

/-- **per_sheet_race_free**: the *no data race* clause with lock instances: no reachable
state has a race on any covered location — the fields of worksheet `k` (guarded by THAT
worksheet's mutex only) and the workbook-wide locations (style tables, shared strings and
their index map, calculation chain, content types, media / drawing part lists, …), which
calls working on DIFFERENT worksheets reach without excluding each other by a worksheet mutex:
they are race free because the guard table protects them by workbook-wide mutexes. -/
theorem per_sheet_race_free (threads : List (List (String × Nat)))
    (h : ∀ th ∈ threads, ∀ c ∈ th, c.1 ∈ api) {s : Sys LockI LocI}
    (r : Reach (initSys (threads.map threadOnSheets)) s) (y : LocI) (hy : chkI y = true) :
    ¬ RaceOn s y := by
  apply guarded_race_free guardI chkI _ _ r y hy
  intro p hp
  obtain ⟨th, hth, rfl⟩ := List.mem_map.mp hp
  exact (threadOnSheets_ok (h th hth)).2

/-- **per_sheet_linearizable**: `atomic_sections_linearizable` for the mutex of worksheet `k`
(or any workbook-wide mutex `g`): the history of accesses to its footprint in any
interleaving of calls on any worksheets is a concatenation of whole sections of that
instance, thread by thread in program order. -/
theorem per_sheet_linearizable (g : LockI) (threads : List (List (String × Nat)))
    (h : ∀ th ∈ threads, ∀ c ∈ th, c.1 ∈ api) {τ : List (Event LockI LocI)} {s' : Sys LockI LocI}
    (ex : Exec (initSys (threads.map threadOnSheets)) τ s') :
    (blocks g (footprint guardI chkI g) none τ).flatMap Block.events = projF (footprint guardI chkI g) τ ∧
    (∀ i p, (threads.map threadOnSheets)[i]? = some p → ∃ t' done, s'[i]? = some t' ∧ done ++ t'.rest = p ∧
      (blocks g (footprint guardI chkI g) none τ).filter (fun c => c.1 == i) =
        blocks g (footprint guardI chkI g) none (tag i done) ∧
      only i (projF (footprint guardI chkI g) τ) = projF (footprint guardI chkI g) (tag i done)) := by
  apply atomic_sections_linearizable guardI chkI g _ _ ex
  intro p hp
  obtain ⟨th, hth, rfl⟩ := List.mem_map.mp hp
  exact (threadOnSheets_ok (h th hth)).2

/-- non-vacuity of the instance model: the grids of two worksheets are different locations
with different guards, and a workbook-wide part list is one location guarded by `File.mu` -/
theorem instances_are_distinct :
    locOn 1 ("Ws", "SheetData") ≠ locOn 2 ("Ws", "SheetData") ∧
    guardI (locOn 1 ("Ws", "SheetData")) = some ("Ws", some 1) ∧
    guardI (locOn 2 ("Ws", "SheetData")) = some ("Ws", some 2) ∧
    locOn 1 ("File", "mediaParts") = locOn 2 ("File", "mediaParts") ∧
    guardI (locOn 1 ("File", "mediaParts")) = some ("File", none) ∧
    chkI (locOn 1 ("Ws", "SheetData")) = true ∧ chkI (locOn 2 ("File", "mediaParts")) = true := by decide

/-! ## `sync.Map` check-then-act idioms -/

/-- all check-then-act instances of all API functions (computed from the skeletons) -/
def idiomInstances : List (String × String × String × List String) :=
  api.flatMap fun f => mapPairs syncMapClasses [] [] (Impl.traceM f)

/-- idioms without a common workbook-wide lock, each with the reason why it is accepted:
* `idempotent` — both goroutines store the same value, or re-store the pointer they loaded
  (`readBytes` re-caches the bytes of a temp part; `xmlAttr` / `checked` entries are derived from
  the unchanged part bytes; `addNameSpaces` / `setIgnorableNameSpace` add the same namespace the
  other call adds; `addDrawingPicture` stores back the drawing object `drawingParser` returned);
* `firstLoad` — worksheet cache: only the first load of a call matters and it is under `File.mu`
  (`worksheet_first_load_locked`);
* `dead` — `workbookReader`'s lazy branch (`File.WorkBook` is preloaded);
* `perSheet` — a relationship part that belongs to one worksheet (sheet / drawing relationships),
  created under that worksheet's mutex;
* `candidate` — `relsReader`'s load-or-decode of an existing relationship part: `GetPictures`
  decodes a sheet's / drawing's relationships holding no lock that `AddPicture` on the same sheet
  holds, so in principle both could decode a private copy and one `Store` could drop a
  relationship the other just added. NOT reproduced (witness `w-rels`, 14 runs with 2- and
  40-entry parts: the parts are tiny and the two functions reach the decode at different times);
  listed as an unreproduced candidate, not as a finding. -/
def idiomAttribution : List ((String × String × String) × String) :=
  [(("SyncMap:Pkg", "readXML", "readBytes"), "idempotent"),
   (("SyncMap:xmlAttr", "workSheetReader", "workSheetReader"), "firstLoad"),
   (("SyncMap:checked", "workSheetReader", "workSheetReader"), "firstLoad"),
   (("SyncMap:Sheet", "workSheetReader", "workSheetReader"), "firstLoad"),
   (("SyncMap:xmlAttr", "workbookReader", "workbookReader"), "dead"),
   (("SyncMap:xmlAttr", "addNameSpaces", "addNameSpaces"), "idempotent"),
   (("SyncMap:xmlAttr", "setIgnorableNameSpace", "setIgnorableNameSpace"), "idempotent"),
   (("SyncMap:Drawings", "drawingParser", "addDrawingPicture"), "idempotent"),
   (("SyncMap:Relationships", "relsReader", "addRels"), "perSheet"),
   (("SyncMap:Relationships", "relsReader", "relsReader"), "candidate")]

def attributedKeys : List (String × String × String) := idiomAttribution.map (·.1)

/-- **syncmap_idioms_attributed**: every load-then-store idiom on a `sync.Map` field of `File`
that any API function performs either happens, in EVERY instance, with `File.mu` held
continuously from the load to the store, or is one of the ten attributed idioms. A new
unguarded check-then-act (such as the former `addMedia` / drawing allocation defects, or a
worksheet load outside `File.mu`) breaks this obligation. -/
theorem syncmap_idioms_attributed :
    idiomInstances.all (fun p =>
      p.2.2.2.contains "File" || attributedKeys.contains (p.1, p.2.1, p.2.2.1)) = true := by
  decide +kernel

/-- the idioms that pass by the first disjunct (non-vacuity): media part allocation, drawing
part load-or-create, and the temp-file bookkeeping of `sharedStringsLoader` -/
theorem syncmap_guarded_idioms :
    ((idiomInstances.filter fun p => !attributedKeys.contains (p.1, p.2.1, p.2.2.1)).map
      fun p => (p.1, p.2.1, p.2.2.1)).eraseDups =
    [("SyncMap:Drawings", "drawingLoader", "drawingLoader"), ("SyncMap:Pkg", "addMedia", "addMedia"),
     ("SyncMap:tempFiles", "sharedStringsLoader", "sharedStringsLoader")] := by decide +kernel

/-! ### critical sections of the setters (linearization points) -/

/-- number of separate critical sections of `g` in which `x` is written -/
def writeSections (g : String) (x : Loc) : Bool → List Act → Nat
  | _, [] => 0
  | w, .acq l :: r => (if l = g then writeSections g x false r else writeSections g x w r)
  | w, .rel l :: r => (if l = g then writeSections g x false r else writeSections g x w r)
  | w, .rd _ :: r => writeSections g x w r
  | w, .wr y :: r => if y = x && !w then 1 + writeSections g x true r else writeSections g x w r

/-- **setters_single_section**: each typed cell setter changes the worksheet
grid inside ONE critical section of the worksheet mutex; by
`critical_sections_serialized` such sections never overlap, so concurrent
setter calls on one sheet take effect in the order of their sections
(last writer wins per cell, writes to distinct cells are all present).
(`SetCellFloat` is not listed: its NaN/Inf branch delegates to `SetCellStr` and
flattening takes both branches in sequence, which shows as two sections.) -/
theorem setters_single_section :
    ["SetCellInt", "SetCellUint", "SetCellBool", "SetCellStr", "SetCellDefault",
     "SetCellStyle", "SetColWidth", "SetColVisible"].all
      (fun f => writeSections "Ws" ("Ws", "SheetData") false (Impl.trace f) ≤ 1 &&
                writeSections "Ws" ("Ws", "Cols") false (Impl.trace f) ≤ 1) = true := by decide +kernel

/-- **finding_setSheetRow_not_atomic** (*linearizable* clause fails at the
granularity of `SetSheetRow`): the row is written cell by cell, each cell in its
own critical section, so two concurrent `SetSheetRow` calls on the same row can
interleave and leave a row that neither call wrote (reproduced by the harness:
`lin:SetSheetRow-torn`). Every single cell is still some call's value. -/
theorem finding_setSheetRow_not_atomic :
    writeSections "Ws" ("Ws", "SheetData") false (Impl.trace "SetSheetRow") > 1 := by decide +kernel

/-- **setSheetRow_is_cellwise** — the atomicity `SetSheetRow` actually provides. Its doc comment
promises only "This function is concurrency safe" (no statement about the row as a unit); the
property demands that the final workbook equal a sequential ordering of the CALLS. What holds:
the worksheet sections of one `SetSheetRow` call are exactly those of `SetCellValue` (the loop
body, flattened once), i.e. a `SetSheetRow` is a sequence of independent per-cell
`SetCellValue` operations, each atomic (`setters_linearizable`): every interleaving equals a
sequential ordering of the PER-CELL writes (each cell holds the value of some call, no cell
is lost — `distinct_cells_all_present`), but not of whole rows
(`finding_setSheetRow_not_atomic`, reproduced as `lin:SetSheetRow-torn`). -/
theorem setSheetRow_is_cellwise :
    callBlocks "Ws" 0 "SetSheetRow" = callBlocks "Ws" 0 "SetCellValue" := by decide +kernel

/-- `NewStyle` looks the requested style up and appends it inside one critical
section of the style-sheet mutex (look-up and append cannot be separated by
another `NewStyle`), so the id it returns denotes the requested style -/
theorem newStyle_single_section :
    writeSections "Styles" ("Styles", "tables") false (Impl.trace "NewStyle") = 1 := by decide +kernel

/-! ### the shared-string index is read and cached inside the append's `File.mu` section -/

/-- `appendPinned g tbl idx` walks a trace with the state (inside a section of `g`, an append to
`tbl` whose index is not yet stored in `idx`, `tbl` re-read since that append). It demands: every
write of `tbl` happens inside a section of `g`; after such a write the SAME section of `g` re-reads
`tbl` (the index) and then writes `idx` (the cache) before `g` is released. -/
def appendPinned (g : String) (tbl idx : Loc) : Bool → Bool → Bool → List Act → Bool
  | _, pend, _, [] => !pend
  | ins, pend, seen, .acq l :: r =>
      if l = g then appendPinned g tbl idx true pend seen r else appendPinned g tbl idx ins pend seen r
  | ins, pend, seen, .rel l :: r =>
      if l = g then !pend && appendPinned g tbl idx false false false r
      else appendPinned g tbl idx ins pend seen r
  | ins, pend, seen, .rd y :: r =>
      appendPinned g tbl idx ins pend (seen || (pend && y = tbl)) r
  | ins, pend, seen, .wr y :: r =>
      if y = tbl then ins && appendPinned g tbl idx ins true false r
      else if y = idx && pend then seen && appendPinned g tbl idx ins false false r
      else appendPinned g tbl idx ins pend seen r

/-- number of writes of `x` in a trace -/
def writesOf (x : Loc) (p : List Act) : Nat := (p.filter fun a => a == .wr x).length

/-- meaning of the check, for EVERY trace: an accepted trace never writes `tbl` outside a section
of `g` (whatever the state the walk is in) -/
theorem appendPinned_write_inside (g : String) (tbl idx : Loc) :
    ∀ (p : List Act) (ins pend seen : Bool), appendPinned g tbl idx ins pend seen p = true →
      ∀ pre post, p = pre ++ .wr tbl :: post →
        (pre.all fun a => a != .acq g && a != .rel g) = true → ins = true := by
  intro p
  induction p with
  | nil => intro _ _ _ _ pre post h; cases pre <;> simp at h
  | cons a r ih =>
    intro ins pend seen h pre post hp hpre
    cases pre with
    | nil =>
      simp only [List.nil_append, List.cons.injEq] at hp
      obtain ⟨rfl, rfl⟩ := hp
      simp only [appendPinned, if_true, Bool.and_eq_true] at h
      exact h.1
    | cons b pre' =>
      simp only [List.cons_append, List.cons.injEq] at hp
      obtain ⟨rfl, rfl⟩ := hp
      simp only [List.all_cons, Bool.and_eq_true, bne_iff_ne, ne_eq] at hpre
      obtain ⟨⟨hb1, hb2⟩, hrest⟩ := hpre
      cases a with
      | acq l =>
        have hl : l ≠ g := fun e => hb1 (by rw [e])
        simp only [appendPinned, if_neg hl] at h
        exact ih _ _ _ h pre' post rfl hrest
      | rel l =>
        have hl : l ≠ g := fun e => hb2 (by rw [e])
        simp only [appendPinned, if_neg hl] at h
        exact ih _ _ _ h pre' post rfl hrest
      | rd y =>
        simp only [appendPinned] at h
        exact ih _ _ _ h pre' post rfl hrest
      | wr y =>
        simp only [appendPinned] at h
        split at h
        · simp only [Bool.and_eq_true] at h; exact h.1
        · split at h
          · simp only [Bool.and_eq_true] at h
            exact ih _ _ _ h.2 pre' post rfl hrest
          · exact ih _ _ _ h pre' post rfl hrest

/-- **shared_string_index_pinned** (pinned fact for `setSharedString`, clause "every string a
goroutine wrote is the string its cell shows"): in every documented function, and in
`setSharedString` itself, each append to the shared-string table (`sst.SI`, `Count`,
`UniqueCount`) happens inside a `File.mu` section, and the SAME `File.mu` section then reads the
table back (the index `sst.UniqueCount - 1`) and stores it in `sharedStringsMap` before `File.mu`
is released. By `critical_sections_serialized` / `per_sheet_linearizable` (for the workbook-wide
`File.mu`) no other goroutine's append falls between the append and the index read, so the index a
call caches and puts into its cell is the index of the entry it appended — also for goroutines
working on DIFFERENT worksheets, which no worksheet mutex excludes. Narrowing the critical section
(`File.mu` only around the map, `sst.mu` only around the append) breaks this obligation. -/
theorem shared_string_index_pinned :
    ("setSharedString" :: api).all (fun f =>
      appendPinned "File" ("Sst", "SI") ("File", "sharedStringsMap") false false false (Impl.trace f)) = true ∧
    writesOf ("Sst", "SI") (Impl.trace "setSharedString") ≥ 1 ∧
    writesOf ("Sst", "SI") (Impl.trace "SetCellStr") ≥ 1 ∧
    writesOf ("Sst", "SI") (Impl.trace "SetCellValue") ≥ 1 := by decide +kernel

/-- the check is not vacuous: the narrowed variant (look-up under `File.mu`, append and index
read under `sst.mu` alone, `File.mu` re-taken for the cache store), which passes the guarded-by
table, is rejected; so is the variant that keeps `File.mu` but reads the index in a later
section -/
theorem narrowed_shared_string_section_rejected :
    appendPinned "File" ("Sst", "SI") ("File", "sharedStringsMap") false false false
      [.acq "File", .rd ("File", "sharedStringsMap"), .rel "File",
       .acq "Sst", .rd ("Sst", "SI"), .wr ("Sst", "SI"), .rd ("Sst", "SI"), .rel "Sst",
       .acq "File", .wr ("File", "sharedStringsMap"), .rel "File"] = false ∧
    okGuard guardOf (fun _ => true) []
      [.acq "File", .rd ("File", "sharedStringsMap"), .rel "File",
       .acq "Sst", .rd ("Sst", "SI"), .wr ("Sst", "SI"), .rd ("Sst", "SI"), .rel "Sst",
       .acq "File", .wr ("File", "sharedStringsMap"), .rel "File"] = true ∧
    appendPinned "File" ("Sst", "SI") ("File", "sharedStringsMap") false false false
      [.acq "File", .rd ("File", "sharedStringsMap"), .acq "Sst", .wr ("Sst", "SI"), .rel "Sst", .rel "File",
       .acq "File", .acq "Sst", .rd ("Sst", "SI"), .rel "Sst", .wr ("File", "sharedStringsMap"), .rel "File"] = false := by
  decide +kernel

/-! ### Spec: explaining a final state by a sequential order -/

/-- soundness of the witness check the driver runs: if it accepts then the order
it found is an interleaving of the goroutines' programs (program order kept)
whose sequential last-writer-wins execution yields exactly the observed state -/
theorem explains_sound (progs : List (List Write)) (final : List (Nat × Nat)) (order : List Write)
    (h : Spec.explains progs final order = true) :
    isInterleaving progs order = true ∧
    (∀ p ∈ final, Spec.get (Spec.exec [] order) p.1 = some p.2) := by
  simp only [Spec.explains, Bool.and_eq_true, List.all_eq_true] at h
  refine ⟨h.1, ?_⟩
  intro p hp
  have := h.2.1 p hp
  simpa using this

/-! ### non-vacuity -/

/-- the hypotheses are satisfiable and the semantics can actually race: two
unguarded writers reach a race state, so `RaceOn` is not trivially false -/
theorem race_is_possible_without_guard :
    RaceOn (initSys [[Action.wr (0 : Nat)], [Action.wr 0]] : Sys Nat Nat) 0 :=
  ⟨[], [], [], ⟨[], [.wr 0]⟩, ⟨[], [.wr 0]⟩, .wr 0, .wr 0, [], [], rfl, rfl, rfl, by decide, by decide, by decide⟩

/-- … and a lock-order inversion really deadlocks in this semantics -/
theorem inversion_can_deadlock :
    ¬ ∃ s', Step ([⟨[0], [.acq 1, .rel 1, .rel 0]⟩, ⟨[1], [.acq 0, .rel 0, .rel 1]⟩] : Sys Nat Nat) s' := by
  rintro ⟨s', st⟩
  generalize hs : ([⟨[0], [.acq 1, .rel 1, .rel 0]⟩, ⟨[1], [.acq 0, .rel 0, .rel 1]⟩] : Sys Nat Nat) = s at st
  cases st with
  | acq pre post h l r hfree =>
    rcases pre with _ | ⟨p, pre⟩
    · simp at hs
      obtain ⟨⟨rfl, rfl, rfl⟩, rfl⟩ := hs
      have := hfree ⟨[1], [.acq 0, .rel 0, .rel 1]⟩ (by simp)
      simp at this
    · rcases pre with _ | ⟨q, pre⟩
      · simp at hs
        obtain ⟨rfl, ⟨rfl, rfl, rfl⟩, rfl⟩ := hs
        have := hfree ⟨[0], [.acq 1, .rel 1, .rel 0]⟩ (by simp)
        simp at this
      · simp at hs
  | rel pre post h l r hm =>
    rcases pre with _ | ⟨p, pre⟩
    · simp at hs
    · rcases pre with _ | ⟨q, pre⟩
      · simp at hs
      · simp at hs
  | rd pre post h x r =>
    rcases pre with _ | ⟨p, pre⟩
    · simp at hs
    · rcases pre with _ | ⟨q, pre⟩
      · simp at hs
      · simp at hs
  | wr pre post h x r =>
    rcases pre with _ | ⟨p, pre⟩
    · simp at hs
    · rcases pre with _ | ⟨q, pre⟩
      · simp at hs
      · simp at hs

end XlModel.Props.C15
