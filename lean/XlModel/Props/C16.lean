/-
C16 — Sheet-collection operations keep the workbook consistent.
Property theorems only; helper lemmas are in `Lemmas/Sheets.lean`, `Lemmas/Sheets2.lean`.

Every theorem is about `XlModel.Sheets` (the transcription of sheet.go / workbook.go /
excelize.go listed in that file), which is *defined over* the regenerated facts
`Facts.C16.*` (which comparisons fold case, the forbidden characters, the guards of
DeleteSheet / SetSheetVisible / SetSheetName / MoveSheet, the template workbook) and
`Facts.MaxSheetNameLength`.  `ops` ranges over ALL finite histories of API calls,
including rejected ones; `run init ops` is the state after the history on a `NewFile`.
-/
import XlModel.Lemmas.Sheets10
import XlModel.SheetsCalc

namespace XlModel.Props.C16
open XlModel XlModel.Sheets

/-- the regenerated facts are the ones the model and the proofs were written for (an edit of
`checkSheetName`, of a comparison, of a guard or of the template in the Go source changes these) -/
theorem facts_ok :
    Facts.C16.checkOrder = ["blank", "length", "quote", "chars"] ∧
    Facts.C16.forbiddenChars = [58, 92, 47, 63, 42, 91, 93] ∧
    Facts.MaxSheetNameLength = 31 ∧
    Facts.C16.templateSheets = [("Sheet1", 1, 1)] ∧
    Facts.C16.templateRels = [(1, 1), (2, 0), (3, 0)] ∧
    Facts.C16.templateActiveTab = 0 ∧ Facts.C16.templateTabSelected = true ∧
    (Facts.C16.foldGetSheetIndex && Facts.C16.foldGetSheetXMLPath && Facts.C16.foldGetSheetID &&
      Facts.C16.foldDeleteSheet && Facts.C16.foldSetSheetVisible && Facts.C16.foldGroupSheets &&
      Facts.C16.foldMoveSheet && Facts.C16.renameSourceExact && Facts.C16.renameClashCheck &&
      Facts.C16.deleteKeepsVisible && Facts.C16.hideCountsVisibleOthers &&
      Facts.C16.moveRenumbersLocalSheetId && Facts.C16.deleteAdjustsDefinedNames &&
      Facts.C16.copyTargetByPartPath && Facts.C16.newSheetSkipsExistingParts &&
      Facts.C16.definedNameScopeResolved && Facts.C16.deleteDefinedNameByScope &&
      Facts.C16.renameKeepsQuotes && Facts.C16.renameRewritesDefinedNames) = true ∧ Facts.C16.workbookScopeName = "Workbook" := by
  decide

/-! ## invariants over any history (clauses "names stay unique case-insensitively and valid",
"the active sheet index denotes an existing sheet", "at least one sheet stays visible") -/

/-- the invariant holds for a new file and is preserved by every call, accepted or rejected -/
theorem invariant_any_history (ops : List Op) : Inv (run init ops) := run_inv init ops init_inv

/-- clause: sheet names stay unique case-insensitively -/
theorem names_unique_ci (ops : List Op) :
    ((run init ops).sheets.map fun sh => fold sh.name).Nodup := (invariant_any_history ops).uniq_ci

/-- clause: sheet names stay valid (non-empty, ≤ MaxSheetNameLength runes, no quote at the ends,
no forbidden character) -/
theorem names_valid (ops : List Op) :
    ∀ sh ∈ (run init ops).sheets, checkSheetName sh.name = .ok () :=
  fun sh h => (validName_iff _).mp ((invariant_any_history ops).valid sh h)

/-- clause: the active sheet index (bookViews.activeTab) denotes an existing sheet; the list is never empty -/
theorem active_in_range (ops : List Op) :
    (run init ops).activeTab < (run init ops).sheets.length ∧ (run init ops).sheets ≠ [] :=
  ⟨(invariant_any_history ops).active_lt, (invariant_any_history ops).nonempty⟩

/-- clause: at least one sheet stays visible -/
theorem some_visible (ops : List Op) : ∃ sh ∈ (run init ops).sheets, sh.state = Vis.visible :=
  (invariant_any_history ops).some_vis

/-- sheet ids stay unique (parts are named after them) and File.SheetCount is the length of the list -/
theorem ids_unique (ops : List Op) :
    ((run init ops).sheets.map (·.id)).Nodup ∧ (run init ops).count = (run init ops).sheets.length :=
  ⟨(invariant_any_history ops).uniq_id, (invariant_any_history ops).count_eq⟩

/-- every localSheetId of a defined name stays an index into the sheet list -/
theorem scoped_names_in_range (ops : List Op) :
    ∀ d ∈ (run init ops).defs, ∀ l, d.loc = some l → l < (run init ops).sheets.length :=
  (invariant_any_history ops).defs_ok

/-- clause "index arithmetic" (round 5): after ANY history `GetSheetIndex` and `GetSheetName` are mutually
inverse: the name at every index below the length of the list is found again at exactly that index (no
error: listed names are valid; no earlier case-insensitive match: names are unique), an index returned for a
name `n` is in range and carries a name equal to `n` up to ASCII case, which in turn is found at that index,
and `GetSheetName` answers "" exactly outside the list. Lean counterpart of the harness oracles
`inv:getsheetindex`, `inv:getsheetindex-ci`, `inv:getsheetname`; transcript ops `gidx`, `gnm`. -/
theorem index_name_inverse (ops : List Op) :
    (∀ i, i < (run init ops).sheets.length →
      getSheetIndex (run init ops) (getSheetName (run init ops) i) = .ok (some i)) ∧
    (∀ n i, getSheetIndex (run init ops) n = .ok (some i) →
      i < (run init ops).sheets.length ∧ eqFold (getSheetName (run init ops) i) n = true ∧
      getSheetIndex (run init ops) (getSheetName (run init ops) i) = .ok (some i)) ∧
    (∀ i, getSheetName (run init ops) i = [] ↔ (run init ops).sheets.length ≤ i) := by
  have hi : Inv (run init ops) := run_inv init ops init_inv
  generalize run init ops = s at hi
  have fwd : ∀ i, i < s.sheets.length → getSheetIndex s (getSheetName s i) = .ok (some i) := by
    intro i hlt
    have hx : s.sheets[i]? = some s.sheets[i] := List.getElem?_eq_getElem hlt
    have hmem : s.sheets[i] ∈ s.sheets := List.mem_of_getElem? hx
    have hv := (validName_iff _).mp (hi.valid _ hmem)
    unfold getSheetName getSheetIndex
    rw [hx]; dsimp only
    rw [hv]; dsimp only
    simp only [fact_foldGetSheetIndex, nameEq_true]
    have := idxOf?_nodup (fun sh : Sheet => fold sh.name) s.sheets i _ hi.uniq_ci hx
    simp only [eqFold]
    rw [← this]
    congr 2
    funext y
    apply Bool.eq_iff_iff.mpr
    simp only [beq_iff_eq]
  refine ⟨fwd, ?_, ?_⟩
  · intro n i h
    obtain ⟨_, hr⟩ := getSheetIndex_ok s n _ h
    have hlt := idxOf?_lt _ _ _ hr.symm
    obtain ⟨x, hx, hp⟩ := idxOf?_getElem _ _ _ hr.symm
    refine ⟨hlt, ?_, fwd i hlt⟩
    unfold getSheetName
    rw [hx]; exact hp
  · intro i
    constructor
    · intro h
      by_cases hlt : i < s.sheets.length
      · exfalso
        have hx : s.sheets[i]? = some s.sheets[i] := List.getElem?_eq_getElem hlt
        have hmem : s.sheets[i] ∈ s.sheets := List.mem_of_getElem? hx
        have hv := (validName_iff _).mp (hi.valid _ hmem)
        unfold getSheetName at h
        rw [hx] at h; dsimp only at h
        rw [h] at hv
        simp [checkSheetName] at hv
      · omega
    · intro h
      unfold getSheetName
      rw [List.getElem?_eq_none h]

/-! ## clause "index arithmetic across sheet ids, relationship ids, part paths": the bookkeeping
invariant over any history, and the explicit "model gap" / "panic" outcomes are unreachable -/

/-- list invariant and bookkeeping invariant together, after any history -/
theorem consistent_any_history (ops : List Op) : Inv (run init ops) ∧ PB (run init ops) :=
  run_inv_pb init ops init_inv init_pb

/-- `parts_bijective`, the direction sheets → parts: after any history every listed sheet has its
workbook relationship (targeting the part named after its sheet id), its `sheetMap` entry (same
part) and a decoded worksheet; sheet ids are non-zero, ids and rIds are pairwise distinct (so the
maps are injective), and every `sheetMap` key is the name of a listed sheet.
NOT proved (oracle `c16Invariants` + transcript only): that decoded worksheets, content-type
overrides, worksheet relationships and package parts contain nothing *else* (no orphans). -/
theorem parts_bijective_partial (ops : List Op) :
    let s := run init ops
    (∀ sh ∈ s.sheets, s.rels.find? (fun r => r.rid == sh.rid) = some ⟨sh.rid, sh.id⟩ ∧
      getSheetXMLPath s sh.name = some sh.id ∧ (partGet? s.parts sh.id).isSome = true ∧ sh.id ≠ 0) ∧
    (s.sheets.map (·.id)).Nodup ∧ (s.sheets.map (·.rid)).Nodup ∧
    (∀ e ∈ s.sheetMap, ∃ sh ∈ s.sheets, sh.name = e.1) := by
  intro s
  obtain ⟨hi, hp⟩ := consistent_any_history ops
  exact ⟨fun sh h => ⟨hp.rel_ok sh h, hp.map_ok sh h, hp.part_ok sh h, hp.id_pos sh h⟩,
    hi.uniq_id, hp.rid_nodup, hp.map_keys⟩

/-- `parts_bijective`, both directions: after any history the listed sheets, the workbook's worksheet
relationships, the `sheetMap`, the decoded worksheets and the worksheet overrides of
[Content_Types].xml correspond one-to-one, and the package store holds worksheet parts of listed
sheets only.  Sheets → parts is `parts_bijective_partial`; here the converse (no orphans): every
decoded worksheet, every override, every worksheet relationship (with its rId) and every stored
part belongs to a listed sheet; overrides and rIds are duplicate-free and every listed sheet has its
override. -/
theorem parts_bijective (ops : List Op) :
    let s := run init ops
    (∀ sh ∈ s.sheets, s.rels.find? (fun r => r.rid == sh.rid) = some ⟨sh.rid, sh.id⟩ ∧
      getSheetXMLPath s sh.name = some sh.id ∧ (partGet? s.parts sh.id).isSome = true ∧ sh.id ∈ s.ctypes) ∧
    (s.sheets.map (·.id)).Nodup ∧ (s.sheets.map (·.rid)).Nodup ∧
    (∀ e ∈ s.sheetMap, ∃ sh ∈ s.sheets, sh.name = e.1) ∧
    (∀ q, (partGet? s.parts q).isSome = true → q ∈ s.sheets.map (·.id)) ∧
    (∀ p ∈ s.ctypes, p ∈ s.sheets.map (·.id)) ∧ s.ctypes.Nodup ∧
    (∀ r ∈ s.rels, r.part ≠ 0 → (r.rid, r.part) ∈ s.sheets.map (fun sh => (sh.rid, sh.id))) ∧
    (s.rels.map (·.rid)).Nodup ∧
    (∀ p ∈ s.pkg, p ∈ s.sheets.map (·.id)) ∧ s.pkg.Nodup := by
  intro s
  obtain ⟨hi, hp, hn⟩ := run_all init ops init_inv init_pb init_no
  exact ⟨fun sh h => ⟨hp.rel_ok sh h, hp.map_ok sh h, hp.part_ok sh h,
      hn.ct_sup _ (List.mem_map.mpr ⟨sh, h, rfl⟩)⟩,
    hi.uniq_id, hp.rid_nodup, hp.map_keys, hn.parts_sub, hn.ct_sub, hn.ct_nodup, hn.rel_sub, hn.rel_nodup,
    hn.pkg_sub, hn.pkg_sorted.imp (fun h => Nat.ne_of_lt h)⟩

/-- after any history, whatever is called next never ends in the model's `gap` outcome (a state the
transcription cannot follow: map-order dependence, missing decoded part) nor in `panic` (the nil
dereference of UngroupSheets, the unguarded index of MoveSheet) -/
theorem no_panic_history (ops : List Op) (op : Op) (e : Err)
    (h : (step (run init ops) op).2 = some e) : e ≠ Err.gap ∧ e ≠ Err.panic := by
  obtain ⟨hi, hp⟩ := consistent_any_history ops
  have := step_not_bad _ op hi hp e h
  exact ⟨fun h1 => this (Or.inl h1), fun h2 => this (Or.inr h2)⟩

/-- after any history every listed sheet can be read: `workSheetReader` succeeds and returns the
part named after the sheet id -/
theorem listed_sheets_readable (ops : List Op) :
    ∀ sh ∈ (run init ops).sheets, ∃ w, workSheetReader (run init ops) sh.name = .ok (sh.id, w) := by
  obtain ⟨hi, hp⟩ := consistent_any_history ops
  exact fun sh h => reader_listed _ hi hp sh h

/-- clause "a copied sheet has the same cell content as its source and is independent of it
afterwards" for the modelled content (A1): after any history a successful CopySheet makes the
target's worksheet equal to the source's (tab deselected) and touches no other worksheet; source
and target are different parts -/
theorem copy_equal (ops : List Op) (f t : Int) (s' : St) (h : copySheet (run init ops) f t = .ok s') :
    ∃ shf sht wf, (run init ops).sheets[f.toNat]? = some shf ∧ (run init ops).sheets[t.toNat]? = some sht ∧
      shf.id ≠ sht.id ∧ partGet? (run init ops).parts shf.id = some wf ∧
      partGet? s'.parts sht.id = some { wf with sel := false } ∧
      ∀ q, q ≠ sht.id → partGet? s'.parts q = partGet? (run init ops).parts q := by
  obtain ⟨hi, hp⟩ := consistent_any_history ops
  exact copySheet_parts _ s' hi hp f t h

/-- … "and is independent of it afterwards": after any history SetCellInt writes exactly the
decoded worksheet of the sheet it names; every other worksheet (in particular a copy, or the
source of a copy) keeps its content -/
theorem then_independent (ops : List Op) (n : Name) (v : Nat) (s' : St)
    (h : setCell (run init ops) n v = .ok s') :
    ∃ sh w, sh ∈ (run init ops).sheets ∧ eqFold sh.name n = true ∧
      partGet? (run init ops).parts sh.id = some w ∧
      partGet? s'.parts sh.id = some { w with content := v } ∧
      ∀ q, q ≠ sh.id → partGet? s'.parts q = partGet? (run init ops).parts q := by
  obtain ⟨_, hp⟩ := consistent_any_history ops
  exact setCell_parts _ s' hp n v h

/-! ## clause "the sheet list equals what an ordered-list model predicts": `Impl` refines `Spec` -/

/-- THE SIMULATION.  `view` maps a workbook state to the ordered list of (name, visible, A1 content,
tab selected) with the active index.  After ANY history of calls on a new file the list the
implementation model holds is exactly the list obtained by running the ordered-list model `Spec` over
the same calls (accepted or rejected): NewSheet appends, DeleteSheet removes (unless it is the only
or the last visible sheet) and re-activates by name, CopySheet copies content, MoveSheet splices and
re-activates, SetSheetName renames, SetSheetVisible hides unless last visible or selected,
SetActiveSheet / GroupSheets / UngroupSheets move the selection, SetCellInt writes one sheet; the
content of every sheet not targeted is unchanged because `Spec` does not change it. -/
theorem sheets_refine_list (ops : List Op) : view (run init ops) = specRun Spec.init ops := by
  rw [sim_run init ops init_inv init_pb, view_init]

/-- one-step form: from any state reached by a history, the list after the next call is `Spec.step` of
the list before it -/
theorem sheets_refine_list_step (ops : List Op) (op : Op) :
    view (step (run init ops) op).1 = (Spec.step (view (run init ops)) op).1 := by
  obtain ⟨hi, hp⟩ := consistent_any_history ops
  exact (sim_step _ op hi hp).symm

/-- the call is accepted by the implementation model exactly when the list model accepts it
(SetDefinedName / DeleteDefinedName are outside the list model) -/
theorem sheets_refine_list_accept (ops : List Op) (op : Op)
    (hop : ∀ k sc dt, op ≠ .defname k sc dt ∧ op ≠ .deldef k sc) :
    (Spec.step (view (run init ops)) op).2 = (step (run init ops) op).2.isNone := by
  obtain ⟨hi, hp⟩ := consistent_any_history ops
  exact sim_accept _ op hi hp hop

/-! ## the sheet list after each call, operation by operation -/

/-- NewSheet: nothing changes when the name exists (case-insensitively), otherwise one visible
sheet with a fresh id (larger than every listed id, and past every existing part) is appended;
active tab and defined names are untouched -/
theorem list_new (s s' : St) (n : Name) (r : Option Nat) (h : newSheet s n = .ok (s', r)) :
    s' = s ∨ (checkSheetName n = .ok () ∧ (∀ sh ∈ s.sheets, fold sh.name ≠ fold n) ∧
      s'.activeTab = s.activeTab ∧ s'.defs = s.defs ∧ s'.count = s.count + 1 ∧
      maxOf (s.sheets.map (·.id)) < newSheetID s ∧
      ∃ rid, s'.sheets = s.sheets ++ [⟨n, newSheetID s, rid, Vis.visible⟩]) := by
  rcases newSheet_core s s' n r h with h | ⟨hv, hf, rid, hc⟩
  · exact Or.inl h
  · simp only [core, Core.mk.injEq] at hc
    exact Or.inr ⟨(validName_iff n).mp hv, hf, hc.2.1, hc.2.2.2, hc.1, newSheetID_gt s, rid, hc.2.2.1⟩

/-- DeleteSheet: either nothing changes, or exactly the named sheet leaves the list (order of the
others kept), another visible sheet exists, and the new active tab is inside the list -/
theorem list_delete (s s' : St) (n : Name) (h : deleteSheet s n = .ok s') (hi : Inv s) :
    s' = s ∨ ∃ idx v, s.sheets[idx]? = some v ∧ eqFold v.name n = true ∧
      s'.sheets = s.sheets.eraseIdx idx ∧ s'.count = s.count - 1 ∧
      s'.defs = deleteAndAdjustDefinedNames s.defs idx ∧ s'.activeTab < s'.sheets.length := by
  rcases deleteSheet_core s s' n h with h | ⟨idx, v, k, h1, h2, h3, h4, h5, hc⟩
  · exact Or.inl h
  · have hinv : InvC (core s') := by
      rw [hc]; exact invC_erase (core s) hi idx k v h1 n h2 h3 h4 h5
    simp only [core, Core.mk.injEq] at hc
    exact Or.inr ⟨idx, v, h1, h2, hc.2.2.1, hc.1, hc.2.2.2, hinv.active_lt⟩

/-- MoveSheet: the new list is the old one with the source sheet spliced in before the target
(a permutation: nothing is lost or duplicated) -/
theorem list_move (s s' : St) (a b : Name) (h : moveSheet s a b = .ok s') :
    s' = s ∨ ∃ si ti src, s.sheets[si]? = some src ∧ ti < s.sheets.length ∧
      s'.sheets = (s.sheets.eraseIdx si).take (if ti > si then ti - 1 else ti) ++
        src :: (s.sheets.eraseIdx si).drop (if ti > si then ti - 1 else ti) ∧
      s'.sheets.Perm s.sheets ∧ s'.defs = moveDefs s.defs si (if ti > si then ti - 1 else ti) := by
  rcases moveSheet_core s s' a b h with h | ⟨si, ti, src, k, h1, h2, _, hc⟩
  · exact Or.inl h
  · simp only [core, Core.mk.injEq] at hc
    refine Or.inr ⟨si, ti, src, h1, h2, hc.2.2.1, ?_, hc.2.2.2⟩
    rw [hc.2.2.1]; exact perm_splice _ _ _ _ h1

/-- SetSheetName: only sheets named exactly `source` are renamed, and only to a name no other
sheet carries case-insensitively (or to a pure case change of the same name) -/
theorem list_rename (s s' : St) (a b : Name) (h : setSheetName s a b = .ok s') :
    s' = s ∨ (checkSheetName b = .ok () ∧ (fold b = fold a ∨ ∀ sh ∈ s.sheets, fold sh.name ≠ fold b) ∧
      s'.sheets = renameList s.sheets a b ∧ s'.activeTab = s.activeTab ∧ s'.defs = adjustDefs s.defs a b) ∨
    (s'.sheets = s.sheets ∧ s'.activeTab = s.activeTab ∧ s'.defs = adjustDefs s.defs a b) := by
  rcases setSheetName_core s s' a b h with h | ⟨hv, hf, hc⟩ | hc
  · exact Or.inl h
  · simp only [core, Core.mk.injEq] at hc
    exact Or.inr (Or.inl ⟨(validName_iff b).mp hv, hf, hc.2.2.1, hc.2.1, hc.2.2.2⟩)
  · simp only [core, Core.mk.injEq] at hc
    exact Or.inr (Or.inr ⟨hc.2.2.1, hc.2.1, hc.2.2.2⟩)

/-- clause "sheets not targeted by an operation are unchanged", for SetSheetVisible: every sheet
whose name differs (case-insensitively) from the argument is still in the list, unchanged, and the
order, names and ids of all sheets are the same -/
theorem untargeted_unchanged_visible (s : St) (n : Name) (v vh : Bool) :
    (∀ x ∈ s.sheets, eqFold x.name n = false → x ∈ (setSheetVisible s n v vh).1.sheets) ∧
    (setSheetVisible s n v vh).1.sheets.map (·.name) = s.sheets.map (·.name) ∧
    (setSheetVisible s n v vh).1.sheets.map (·.id) = s.sheets.map (·.id) := by
  unfold setSheetVisible
  split
  · exact ⟨fun x hx _ => hx, rfl, rfl⟩
  · split
    · simp only [fact_foldSetSheetVisible, nameEq_true, List.map_map]
      refine ⟨?_, ?_, ?_⟩
      · intro x hx hf
        exact List.mem_map.mpr ⟨x, hx, by simp [hf]⟩
      · apply List.map_congr_left; intro x _; simp only [Function.comp]
        by_cases hx : eqFold x.name n = true <;> simp [hx]
      · apply List.map_congr_left; intro x _; simp only [Function.comp]
        by_cases hx : eqFold x.name n = true <;> simp [hx]
    · dsimp only
      have hr := visLoop_rel s n (if vh = true then Vis.veryHidden else Vis.hidden)
        (visCount s n (if vh = true then Vis.veryHidden else Vis.hidden)) s.sheets
      obtain ⟨a, b, _⟩ := forall₂_hide_names hr
      exact ⟨forall₂_hide_mem hr, a, b⟩

/-- calls that only touch worksheets (CopySheet, GroupSheets, UngroupSheets, SetCellInt, saving,
reading) leave the sheet list, SheetCount, active tab and defined names exactly as they were -/
theorem list_untouched (s : St) :
    (∀ f t s', copySheet s f t = .ok s' → core s' = core s) ∧
    (∀ ns s', groupSheets s ns = .ok s' → core s' = core s) ∧
    (∀ s', ungroupSheets s = .ok s' → core s' = core s) ∧
    (∀ n v s', setCell s n v = .ok s' → core s' = core s) ∧
    core (save s) = core s ∧ core (observe s) = core s :=
  ⟨fun f t s' => copySheet_core s s' f t, fun ns s' => groupSheets_core s s' ns,
    fun s' => ungroupSheets_core s s', fun n v s' => setCell_core s s' n v, rfl, observe_core s⟩

/-! ## clause "a deleted sheet's scoped names disappear while other sheets' scoped names keep
pointing at the right sheet" (also for MoveSheet) -/

/-- after DeleteSheet a defined name scoped to the deleted sheet is gone, and every other scoped
name's renumbered localSheetId denotes the very sheet it denoted before -/
theorem scoped_names_follow_delete (defs : List DefName) (sheets : List Sheet) (idx : Nat) :
    ∀ d ∈ deleteAndAdjustDefinedNames defs idx, d.loc ≠ none →
      ∃ d0 ∈ defs, d0.name = d.name ∧ ∃ l0 l, d0.loc = some l0 ∧ d.loc = some l ∧ l0 ≠ idx ∧
        (sheets.eraseIdx idx)[l]? = sheets[l0]? := by
  intro d hd hne
  unfold deleteAndAdjustDefinedNames at hd
  simp only [fact_deleteAdjustsDefinedNames, if_true] at hd
  obtain ⟨d0, hd0, hmap⟩ := List.mem_filterMap.mp hd
  cases hloc : d0.loc with
  | none => simp [hloc] at hmap; subst hmap; exact absurd hloc hne
  | some l0 =>
    simp only [hloc] at hmap
    split at hmap
    · cases hmap
    · rename_i hne0
      split at hmap
      · rename_i hgt
        simp at hmap; subst hmap
        refine ⟨d0, hd0, rfl, l0, l0 - 1, hloc, rfl, hne0, ?_⟩
        have := erase_follow sheets idx l0 hne0
        simpa [hgt] using this
      · rename_i hgt
        simp at hmap; subst hmap
        refine ⟨d0, hd0, rfl, l0, l0, hloc, hloc, hne0, ?_⟩
        have := erase_follow sheets idx l0 hne0
        simpa [hgt] using this

/-- no defined name scoped to the deleted sheet survives DeleteSheet -/
theorem scoped_names_of_deleted_disappear (defs : List DefName) (idx : Nat) :
    (deleteAndAdjustDefinedNames defs idx).length =
      (defs.filter fun d => d.loc != some idx).length := by
  unfold deleteAndAdjustDefinedNames
  simp only [fact_deleteAdjustsDefinedNames, if_true]
  induction defs with
  | nil => rfl
  | cons d ds ih =>
    simp only [List.filterMap_cons, List.filter_cons]
    cases hl : d.loc with
    | none => simp [ih]
    | some l =>
      by_cases h : l = idx
      · simp [h, ih]
      · by_cases h2 : l > idx <;> simp [h, h2, ih]

/-- after MoveSheet every scoped name's renumbered localSheetId denotes the very sheet it denoted before -/
theorem scoped_names_follow_move (sheets : List Sheet) (si t loc : Nat) (src : Sheet)
    (hs : sheets[si]? = some src) (ht : t < sheets.length) (hl : loc < sheets.length) :
    ((sheets.eraseIdx si).take t ++ src :: (sheets.eraseIdx si).drop t)[moveLoc si t loc]? = sheets[loc]? :=
  splice_follow sheets si t loc src hs ht hl

/-! ## clause "other sheets' names keep pointing at the right sheet", for the refers-to TEXT of defined
names under SetSheetName (adjust.go adjustRangeSheetName) -/

/-- the rewriting is component-wise over the `,` / `:` / `!` structure of the text, and parsing
followed by rendering is the identity (so nothing but the components can change) -/
theorem rename_text_componentwise (data a b : Name) :
    adjustRange data a b =
      renderRef ((parseRef data).map fun c => c.map fun r => r.map (adjustPart a b)) ∧
    renderRef (parseRef data) = data :=
  ⟨rfl, render_parse data⟩

/-- every reference to the renamed sheet is renamed: the unquoted component `a` becomes `b`, the quoted
component `'a'` becomes `'b'` (a valid sheet name neither starts nor ends with a quote) -/
theorem rename_text_renames (a b : Name) (ha : isQuoted a = false) :
    adjustPart a b a = b ∧ adjustPart a b (quoted a) = quoted b :=
  ⟨adjustPart_renamed a b ha, adjustPart_renamed_quoted a b⟩

/-- every other component is byte-identical — PARTIAL only in excluding the lone apostrophe
(`finding_rename_lone_quote`): any component, bare or quoted, whose name (without its quotes) differs
from the renamed sheet comes out unchanged -/
theorem rename_text_other_identical_partial (a b part : Name) (hne : part ≠ [quoteChar])
    (hin : (if isQuoted part then unquote part else part) ≠ a) : adjustPart a b part = part :=
  adjustPart_other_general a b part hne hin

/-- a whole refers-to text none of whose components names the renamed sheet (or is the lone
apostrophe) is byte-identical after SetSheetName -/
theorem rename_text_untouched_partial (data a b : Name)
    (h : ∀ cellRef ∈ parseRef data, ∀ rangeRef ∈ cellRef, ∀ part ∈ rangeRef,
      part ≠ [quoteChar] ∧ (if isQuoted part then unquote part else part) ≠ a) :
    adjustRange data a b = data := adjustRange_untouched_general data a b h

/-- FINDING (open, harmless): a component consisting of a single apostrophe counts as "quoted", is
trimmed to the empty string and quoted again: the text `'` becomes `''` on every rename -/
theorem finding_rename_lone_quote :
    adjustRange ['\''] ['a'] ['b'] = ['\'', '\''] ∧ adjustRange ['\''] ['a'] ['b'] ≠ ['\''] := by
  decide +kernel

/-- examples: quoted and unquoted references, a longer name containing the renamed one, another quoted sheet -/
theorem rename_text_example :
    adjustRange (bytesOf "'x.y'!$A$1,'my sheet'!$A$1:'my sheet'!$B$2,x.y!C3,x.yz!C3") (bytesOf "x.y") (bytesOf "a_n") =
      bytesOf "'a_n'!$A$1,'my sheet'!$A$1:'my sheet'!$B$2,a_n!C3,x.yz!C3" := by
  decide +kernel

/-! ## calculation chain (round 5, second wave): `deleteCalcChain` as `DeleteSheet` calls it
(`XlModel.SheetsCalc`, transcript op `calc`) -/

/-- `deleteCalcChain(sheetID, "")` removes exactly the entries of that sheet: with non-empty cell references
the result is the sub-list of the entries of the other sheets, in their order -/
theorem calcchain_delete_sheet (cs : List CalcC) (id : Nat) (hr : ∀ c ∈ cs, c.r ≠ []) :
    deleteCalcChain cs id [] = cs.filter (fun c => c.i != id) := by
  unfold deleteCalcChain
  apply List.filter_congr
  intro c hc
  have hne : c.r ≠ [] := hr c hc
  have hre : (c.r == ([] : Name)) = false := by simpa using hne
  by_cases hi : c.i = id
  · simp [hi]
  · have h1 : (c.i == id) = false := by simpa using hi
    have h2 : (c.i != id) = true := by simpa using hi
    rw [h1, h2, hre]; simp

/-- clause "remaining indices stay consistent": when `DeleteSheet` removes the sheet `v` (any state satisfying
the list invariant, hence after any history), no remaining calcChain entry refers to `v`, every remaining entry
still refers to a listed sheet id, and every entry of another sheet is kept -/
theorem calcchain_consistent_after_delete (s s' : St) (n : Name) (h : deleteSheet s n = .ok s')
    (hi : Sheets.Inv s) (cs : List CalcC) (hr : ∀ c ∈ cs, c.r ≠ [])
    (hcs : ∀ c ∈ cs, c.i ∈ s.sheets.map (·.id)) :
    s' = s ∨ ∃ idx v, s.sheets[idx]? = some v ∧ s'.sheets = s.sheets.eraseIdx idx ∧
      (∀ c ∈ deleteCalcChain cs v.id [], c.i ≠ v.id ∧ c.i ∈ s'.sheets.map (·.id)) ∧
      (∀ c ∈ cs, c.i ≠ v.id → c ∈ deleteCalcChain cs v.id []) := by
  rcases list_delete s s' n h hi with h0 | ⟨idx, v, hv, _, hs, _⟩
  · exact Or.inl h0
  · refine Or.inr ⟨idx, v, hv, hs, ?_, ?_⟩
    · intro c hc
      rw [calcchain_delete_sheet cs v.id hr, List.mem_filter] at hc
      obtain ⟨hm, hne⟩ := hc
      have hne' : c.i ≠ v.id := by simpa using hne
      refine ⟨hne', ?_⟩
      obtain ⟨y, hy, hyi⟩ := List.mem_map.mp (hcs c hm)
      obtain ⟨j, hj⟩ := List.getElem?_of_mem hy
      rw [hs]
      refine List.mem_map.mpr ⟨y, ?_, hyi⟩
      rw [List.mem_eraseIdx_iff_getElem?]
      refine ⟨j, ?_, hj⟩
      intro e
      subst e
      rw [hv] at hj
      cases hj
      exact hne' hyi.symm
    · intro c hc hne
      rw [calcchain_delete_sheet cs v.id hr, List.mem_filter]
      exact ⟨hc, by simpa using hne⟩

/-- `copySheet` (third wave): after any history the calcChain call of `copySheet(from, to)` —
`deleteCalcChain(getSheetID(GetSheetName(to)), "")` — addresses exactly the sheet at index `to` (name lookup
cannot hit an earlier sheet: names are unique case-insensitively), so by `calcchain_delete_sheet` it removes
the entries of the overwritten worksheet and keeps every other entry; transcript op `calcc` -/
theorem calcchain_copy_target (ops : List Op) (t : Nat) (sht : Sheet) (cs : List CalcC)
    (ht : (run init ops).sheets[t]? = some sht) :
    copySheetCalc (run init ops) t cs = deleteCalcChain cs sht.id [] := by
  have hi : Sheets.Inv (run init ops) := run_inv init ops init_inv
  generalize run init ops = s at hi ht
  have hf := find?_nodup_key (fun sh : Sheet => fold sh.name) s.sheets t sht hi.uniq_ci ht
  have hid : getSheetID s (getSheetName s t) = some sht.id := by
    unfold getSheetID getSheetName
    rw [ht]; dsimp only
    have hf' : s.sheets.find? (fun sh : Sheet => nameEq Facts.C16.foldGetSheetID sh.name sht.name) = some sht := by
      rw [← hf]
      congr 1
      funext y
      apply Bool.eq_iff_iff.mpr
      simp [nameEq, eqFold]
    rw [hf']; rfl
  unfold copySheetCalc
  rw [hid]

/-! ## clause "the content of sheets not targeted by an operation is unchanged": frame theorem over the
per-sheet content token; opened workbooks: every theorem from ANY consistent state -/

/-- FRAME over any history: a sheet listed before and after the next call, which is neither the sheet
SetCellInt names nor the target index of CopySheet, keeps its content token -/
theorem content_frame_history (ops : List Op) (op : Op) (sh : Sheet) (hsh : sh ∈ (run init ops).sheets)
    (hstay : sh.id ∈ (step (run init ops) op).1.sheets.map (·.id)) (hnt : ¬ Targets (run init ops) op sh) :
    contentOf (step (run init ops) op).1 sh.id = contentOf (run init ops) sh.id := by
  obtain ⟨hi, hp⟩ := consistent_any_history ops
  exact content_frame _ op hi hp sh hsh hstay hnt

/-- opened workbooks: nothing in the invariants or in the simulation depends on the NewFile template.
From ANY state satisfying the list invariant, the bookkeeping invariant and "no orphans" (sheet ids
in any order, with gaps; any rIds; any active tab inside the list; hidden sheets; defined names)
every history keeps all three, refines the ordered-list model started at that state's list, never
ends in gap / panic, and satisfies the frame property. -/
theorem from_any_consistent_state (s : St) (hi : Sheets.Inv s) (hp : PB s) (hn : NO s) (ops : List Op) :
    (Sheets.Inv (run s ops) ∧ PB (run s ops) ∧ NO (run s ops)) ∧
    view (run s ops) = specRun (view s) ops ∧
    (∀ op e, (step (run s ops) op).2 = some e → e ≠ Err.gap ∧ e ≠ Err.panic) := by
  have h := run_all s ops hi hp hn
  refine ⟨h, sim_run s ops hi hp, ?_⟩
  intro op e he
  have := step_not_bad _ op h.1 h.2.1 e he
  exact ⟨fun h1 => this (Or.inl h1), fun h2 => this (Or.inr h2)⟩

/-- a witness that such states exist beyond the template: an "opened" workbook whose sheet ids are out of
order with gaps (7, 3, 12), rIds 9, 2, 5 among other relationships, the middle sheet hidden and
active tab 2, a scoped defined name — it satisfies all three invariants -/
def openedFixture : St :=
  { count := 3, activeTab := 2
    sheets := [⟨['D', 'a', 't', 'a'], 7, 9, .visible⟩, ⟨['q'], 3, 2, .hidden⟩, ⟨['Z'], 12, 5, .visible⟩]
    sheetMap := [(['q'], 3), (['Z'], 12), (['D', 'a', 't', 'a'], 7)]
    parts := [(12, ⟨true, 5⟩), (7, ⟨false, 0⟩), (3, ⟨false, 8⟩)]
    pkg := [3, 7, 12], ctypes := [7, 3, 12]
    rels := [⟨1, 0⟩, ⟨2, 3⟩, ⟨5, 12⟩, ⟨9, 7⟩, ⟨11, 0⟩]
    defs := [⟨0, some 1, ['q', '!', 'A', '1']⟩], ssLoaded := true }

theorem openedFixture_consistent : Sheets.Inv openedFixture ∧ PB openedFixture ∧ NO openedFixture := by
  refine ⟨?_, ?_, ?_⟩
  · unfold Sheets.Inv
    exact { nonempty := by decide +kernel, count_eq := by decide +kernel, active_lt := by decide +kernel,
            valid := by decide +kernel, uniq_ci := by decide +kernel, uniq_id := by decide +kernel,
            some_vis := by decide +kernel, defs_ok := by decide +kernel }
  · exact { rel_ok := by decide +kernel, map_ok := by decide +kernel, part_ok := by decide +kernel,
            id_pos := by decide +kernel, rid_nodup := by decide +kernel, map_keys := by decide +kernel }
  · exact { parts_sub := by
              intro q hq
              have : q ∈ openedFixture.parts.map (·.1) := by
                unfold partGet? at hq
                cases hf : openedFixture.parts.find? (fun e => e.1 == q) with
                | none => rw [hf] at hq; cases hq
                | some e =>
                  have := find?_some_mem _ _ _ hf
                  exact List.mem_map.mpr ⟨e, this.1, by simpa using this.2⟩
              clear hq
              revert this
              revert q
              decide +kernel
            ct_sub := by decide +kernel, ct_sup := by decide +kernel, ct_nodup := by decide +kernel,
            rel_sub := by decide +kernel, rel_nodup := by decide +kernel, pkg_sub := by decide +kernel,
            pkg_sorted := by decide +kernel }

/-- a history on the opened fixture: delete the active last sheet, create, move, rename; the new sheet
gets id 8 (max of the remaining ids + 1) and rId 12 -/
theorem openedFixture_history :
    let s := run openedFixture [.delete ['Z'], .new ['n'], .move ['n'] ['q'], .rename ['q'] ['Q', '2']]
    s.sheets.map (fun sh => (sh.name, sh.id, sh.rid)) = [(['D', 'a', 't', 'a'], 7, 9), (['n'], 8, 12), (['Q', '2'], 3, 2)] ∧
    s.activeTab = 0 ∧ s.defs = [⟨0, some 2, ['Q', '2', '!', 'A', '1']⟩] := by
  decide +kernel

/-! ## non-vacuity and regression witnesses (the histories of known_findings.d/C16.json) -/

/-- renaming onto a case variant (or the exact name) of another sheet is rejected, a pure case
change of the sheet's own name is accepted -/
theorem rename_case_dup_rejected :
    let s := run init [.new ['a'], .new ['B']]
    (step s (.rename ['a'] ['b'])).2 = some Err.exists ∧ (step s (.rename ['a'] ['B'])).2 = some Err.exists ∧
    (step s (.rename ['a'] ['A'])).2 = none ∧
    (step s (.rename ['a'] ['A'])).1.sheets.map (·.name) = [bytesOf "Sheet1", ['A'], ['B']] := by
  decide +kernel

/-- the last visible sheet can be neither hidden (even with very hidden sheets around) nor deleted -/
theorem last_visible_kept :
    let s := run init [.new ['B'], .visible ['B'] false true, .active 1]
    (step s (.visible (bytesOf "Sheet1") false false)).1.sheets.map (·.state) = [Vis.visible, Vis.veryHidden] ∧
    (step s (.delete (bytesOf "Sheet1"))).1.sheets.length = 2 := by
  decide +kernel

/-- a history that exercises create / scoped name / move / delete, with the expected final lists -/
theorem history_example :
    let s := run init [.new ['A'], .new ['B'], .new ['C'], .defname 0 ['A'] ['1'], .defname 1 ['C'] ['1'],
      .move ['C'] ['A'], .delete ['B'], .new ['b']]
    s.sheets.map (fun sh => (sh.name, sh.id)) = [(bytesOf "Sheet1", 1), (['C'], 4), (['A'], 2), (['b'], 5)] ∧
    s.defs = [⟨0, some 2, ['1']⟩, ⟨1, some 1, ['1']⟩] ∧ s.count = 4 := by
  decide +kernel

end XlModel.Props.C16
