import XlModel.Sheets
namespace XlModel.Props.C16
open XlModel XlModel.Sheets

/-- the regenerated facts are the ones the model was written for -/
theorem facts_ok : Facts.C16.checkOrder = ["blank", "length", "quote", "chars"] := by decide

end XlModel.Props.C16
