import XlModel.Styles
import XlModel.Lemmas.Styles
import XlModel.Lemmas.StylesGrid
import XlModel.Lemmas.StylesIdem
import XlModel.Lemmas.StylesRead
import XlModel.Lemmas.StylesGridRef
/-!
# Property C17 — style registry is stable and deduplicating; styles resolve cell > row > column

Registry clauses are stated over every registry satisfying the invariant `WF` (the registry of
`NewFile()` does, `wf_init`; `NewStyle` keeps it, `counts_track_lengths`) and over every history
of `NewStyle` calls (`runNew`). `dec` is the external `extractNumFmtDecimal` (any function).

Not proved here (direct oracle + transcript only, see design.d/C17.md): full idempotence of
`NewStyle` and `GetStyle (NewStyle s) = normalize s` for whole definitions — the places where the
current code violates them are the `finding_*` theorems below.
-/
namespace XlModel.Props.C17
open XlModel XlModel.Styles XlModel.Styles.Impl

deriving instance DecidableEq for Except

/-- registry after a history of `NewStyle` calls (a rejected call leaves it as it was) -/
def runNew (r : Reg) : List Style → Reg
  | [] => r
  | s :: ss =>
    match newStyle r s with
    | .ok (r', _, _) => runNew r' ss
    | .error _ => runNew r ss

/-! ## the invariant -/

/-- the style sheet of `NewFile()` (regenerated from templates.go) satisfies the invariant: tables
non-empty, xf 0 refers to existing components -/
theorem wf_init : WF initReg := by
  refine ⟨?_, by decide, by decide, by decide, ?_, by decide, ?_⟩
  · intro l c h; simp [initReg] at h
  · intro nf h; simp [numFmtList, initReg] at h
  · intro xf h
    simp [initReg, Facts.C17.tplXfs] at h
    subst h
    refine ⟨fun i hi => ?_, fun i hi => ?_, fun i hi => ?_, fun n hn => ?_⟩ <;> simp at * <;> subst_vars <;> decide

/-- … and its `count` attributes equal the element counts -/
theorem counts_init : CountsOk initReg :=
  ⟨by decide, by decide, by decide, by decide, fun l c h => by simp [initReg] at h⟩

/-- **counts_track_lengths** (anchor "Count fields must track slice lengths"): every successful
`NewStyle` keeps the structural invariant, keeps all five `Count` fields equal to the table lengths
when they were, and returns a valid index (`GetStyle` of it succeeds) -/
theorem counts_track_lengths {r r' : Reg} {s s' : Style} {id : Nat} (w : WF r) (c : CountsOk r)
    (h : newStyle r s = .ok (r', id, s')) :
    WF r' ∧ CountsOk r' ∧ id < r'.xfs.length := by
  obtain ⟨_, w', hid⟩ := newStyle_spec w h
  exact ⟨w', c.step (newStyle_cstep h), hid⟩

/-- **counts_repaired** (style sheets opened from files whose `count` attributes differ from the
element counts): whatever the `Count` fields were, a table `NewStyle` appends to gets
`Count = len`, and a table it does not touch keeps its `Count`; the ids handed out are positions in
the lists, so `ids_stable`, `newstyle_idempotent`, … (which assume `WF` only) hold for such sheets -/
theorem counts_repaired {r r' : Reg} {s s' : Style} {id : Nat} (h : newStyle r s = .ok (r', id, s')) :
    ((r'.fonts = r.fonts ∧ r'.fontsCount = r.fontsCount) ∨ r'.fontsCount = r'.fonts.length) ∧
    ((r'.fills = r.fills ∧ r'.fillsCount = r.fillsCount) ∨ r'.fillsCount = r'.fills.length) ∧
    ((r'.borders = r.borders ∧ r'.bordersCount = r.bordersCount) ∨ r'.bordersCount = r'.borders.length) ∧
    ((r'.xfs = r.xfs ∧ r'.xfsCount = r.xfsCount) ∨ r'.xfsCount = r'.xfs.length) :=
  let c := newStyle_cstep h
  ⟨c.fonts, c.fills, c.borders, c.xfs⟩

/-- the invariant holds after every history -/
theorem wf_history {r : Reg} (w : WF r) (ss : List Style) : WF (runNew r ss) := by
  induction ss generalizing r with
  | nil => exact w
  | cons s t ih =>
    simp only [runNew]
    split
    · rename_i r' _ _ h; exact ih (newStyle_spec w h).2.1
    · exact ih w

/-- every registry reachable from `NewFile()` by `NewStyle` calls satisfies the invariant -/
theorem wf_reachable (ss : List Style) : WF (runNew initReg ss) := wf_history wf_init ss

/-! ## append-only tables, stable ids -/

/-- **tables_append_only**: `NewStyle` only appends: each of fonts, fills, borders, numFmts,
cellXfs before the call is a prefix of the table after it -/
theorem tables_append_only {r r' : Reg} {s s' : Style} {id : Nat} (w : WF r)
    (h : newStyle r s = .ok (r', id, s')) :
    r.fonts <+: r'.fonts ∧ r.fills <+: r'.fills ∧ r.borders <+: r'.borders ∧
    numFmtList r <+: numFmtList r' ∧ r.xfs <+: r'.xfs := by
  obtain ⟨e, _, _⟩ := newStyle_spec w h
  obtain ⟨⟨a, ha⟩, ⟨b, hb⟩, ⟨c, hc⟩, ⟨d, hd⟩, ⟨n, hn, _⟩, _⟩ := e
  exact ⟨⟨a, ha.symm⟩, ⟨b, hb.symm⟩, ⟨c, hc.symm⟩, ⟨n, hn.symm⟩, ⟨d, hd.symm⟩⟩

theorem ext_history {r : Reg} (w : WF r) (ss : List Style) : Ext r (runNew r ss) := by
  induction ss generalizing r with
  | nil => exact Ext.refl _
  | cons s t ih =>
    simp only [runNew]
    split
    · rename_i r' _ _ h
      obtain ⟨e, w', _⟩ := newStyle_spec w h
      exact e.trans (ih w')
    · exact ih w

/-- **ids_stable** ("never changes the meaning of a previously issued id", over histories):
for every id valid now, `GetStyle` returns the same definition after ANY later sequence of
`NewStyle` calls, whatever is registered and in whatever order -/
theorem ids_stable (dec : Str → Int) {r : Reg} (w : WF r) (ss : List Style) (idx : Int)
    (h0 : 0 ≤ idx) (hlt : idx < r.xfs.length) :
    getStyle dec (runNew r ss) idx = getStyle dec r idx :=
  getStyle_ext dec w (ext_history w ss) idx h0 hlt

/-- `ids_stable` for workbooks made by `NewFile()`: between any two points of a history -/
theorem ids_stable_reachable (dec : Str → Int) (ss tt : List Style) (idx : Int)
    (h0 : 0 ≤ idx) (hlt : idx < (runNew initReg ss).xfs.length) :
    getStyle dec (runNew (runNew initReg ss) tt) idx = getStyle dec (runNew initReg ss) idx :=
  ids_stable dec (wf_reachable ss) tt idx h0 hlt

/-- an issued id can be read: `GetStyle` of the id returned by `NewStyle` is not an error -/
theorem issued_id_readable (dec : Str → Int) {r r' : Reg} {s s' : Style} {id : Nat} (w : WF r)
    (h : newStyle r s = .ok (r', id, s')) : ∃ st, getStyle dec r' id = .ok st := by
  obtain ⟨_, _, hid⟩ := newStyle_spec w h
  unfold getStyle
  have c : ¬ ((id : Int) < 0 ∨ (r'.xfs.length : Int) ≤ (id : Int)) := by omega
  simp only [c, if_false, Int.toNat_natCast]
  have : r'.xfs[id]? = some r'.xfs[id] := List.getElem?_eq_getElem hid
  rw [this]
  exact ⟨_, rfl⟩

/-- **fresh or found** (deduplication never aliases): `NewStyle` either returns an existing id
and leaves every table untouched, or appends exactly one xf and returns its index — it never
hands out an id that denotes an older, different record -/
theorem newstyle_fresh_or_found {r r' : Reg} {s s' : Style} {id : Nat}
    (h : newStyle r s = .ok (r', id, s')) :
    (r' = r ∧ id < r.xfs.length) ∨ (id = r.xfs.length ∧ ∃ xf, r'.xfs = r.xfs ++ [xf]) := by
  unfold newStyle at h
  split at h
  · simp at h
  · split at h
    · simp at h
    · rename_i id0 s3 hg
      simp at h; obtain ⟨h1, h2, _⟩ := h; subst h1; subst h2
      exact Or.inl ⟨rfl, getStyleID_lt hg⟩
    · exact Or.inr (createStyle_xfs h)

/-- **newstyle_found_no_growth** (idempotence, the part that holds): when the definition is
found, registering it again changes nothing — same registry, and the same id on every repetition -/
theorem newstyle_found_repeatable {r : Reg} {s s' : Style} {id : Nat}
    (h : newStyle r s = .ok (r, id, s')) (hid : id < r.xfs.length) :
    ∀ n : Nat, (Nat.repeat (fun x => match newStyle x s with | .ok (x', _, _) => x' | .error _ => x) n r) = r := by
  intro n
  induction n with
  | zero => rfl
  | succ k ih => simp only [Nat.repeat, ih, h]

/-! ## findings: where the current code does not deduplicate / read back -/

def zs : Style := Style.zero

def twice (s : Style) : Except Err (Nat × Nat) :=
  match newStyle initReg s with
  | .error e => .error e
  | .ok (r1, id1, _) =>
    match newStyle r1 s with
    | .error e => .error e
    | .ok (_, id2, _) => .ok (id1, id2)

/-- fixed (`idem:numfmt-negred-or-decimal`; DESIGN §6 reconnaissance): `NewStyle{NumFmt:165,
DecimalPlaces:3, NegRed:true}` twice on a new workbook gives id 1 both times — the lookup searches the
format code `newNumFmt` stores (with decimals and `;[Red]`) instead of refusing every xf -/
theorem negred_decimal_deduplicated :
    twice { zs with numFmt := 165, decimalPlaces := some 3, negRed := true } = .ok (1, 1) ∧
    twice { zs with numFmt := 2, negRed := true } = .ok (1, 1) ∧
    twice { zs with customNumFmt := some "0.0".toList, decimalPlaces := some 5, negRed := true } = .ok (1, 1) := by
  decide +kernel

/-- fixed (`idem:component-index-0`): what `setCellXfs` writes for a component index is what the
lookup accepts, for EVERY index — the apply flag is set for non-zero ids, and id 0 applies without it -/
theorem created_component_is_found (n : Nat) :
    xfApplied n (if n ≠ 0 then some true else none) = true := by
  unfold xfApplied; split <;> simp_all

/-- … so `Fill{Type:"pattern", Pattern:0}` (fill 0) is the default style, both times -/
theorem component_index_0_deduplicated :
    twice { zs with fill := ⟨"pattern".toList, 0, [], 0⟩ } = .ok (0, 0) := by
  decide +kernel

def reregIds (id : Int) : Except Err (Nat × Nat) :=
  match getStyle (fun _ => -1) initReg id with
  | .error e => .error e
  | .ok g =>
    match newStyle initReg g with
    | .error e => .error e
    | .ok (r1, id1, _) =>
      match newStyle r1 g with
      | .error e => .error e
      | .ok (_, id2, _) => .ok (id1, id2)

/-- the definition read back from the default style is found again: the same id on repetition -/
theorem reregister_default_idempotent : ∃ i, reregIds 0 = .ok (i, i) := by
  refine ⟨0, ?_⟩
  decide +kernel

/-- fixed (`idem:numfmt-63-66`): lookup (`getNumFmtID`) and creation (`newNumFmt`/`isLangNumFmt`) use the
same id ranges, for all ids -/
theorem getnumfmt_ranges_agree : Facts.C17.getNumFmtRanges = Facts.C17.langRanges := by decide

/-- … so number formats 63..66 are the default style, both times -/
theorem numfmt_63_66_deduplicated :
    ∀ n ∈ [(63 : Int), 64, 65, 66], twice { zs with numFmt := n } = .ok (0, 0) := by
  decide +kernel

/-- fixed (`idem:fill-unknown-type`): a fill type `NewStyle` creates no fill for is looked up like no
fill: the default style, both times -/
theorem fill_unknown_type_deduplicated :
    twice { zs with fill := ⟨['x'], 1, [], 0⟩ } = .ok (0, 0) := by
  decide +kernel

def boldFont : Font := ⟨true, false, false, [], [], 0, [], 0, none, 0, []⟩

def currencyDup : Except Err (Nat × Nat) :=
  match newStyle initReg { zs with font := some boldFont, numFmt := 165 } with
  | .error e => .error e
  | .ok (r1, _, _) =>
    match newStyle r1 { zs with numFmt := 165 } with
    | .error e => .error e
    | .ok (r2, id2, _) =>
      match newStyle r2 { zs with numFmt := 165 } with
      | .error e => .error e
      | .ok (_, id3, _) => .ok (id2, id3)

/-- fixed (`idem:currency-duplicate-code`): a second definition sharing a currency format reuses the
stored format code and is found again: id 2 both times -/
theorem currency_shared_deduplicated : currencyDup = .ok (2, 2) := by
  decide +kernel

def collide : Except Err (Nat × Nat × Option Str) :=
  match newStyle initReg { zs with numFmt := 165, decimalPlaces := some 3 } with
  | .error e => .error e
  | .ok (r1, id1, _) =>
    match newStyle r1 { zs with numFmt := 164 } with
    | .error e => .error e
    | .ok (r2, id2, _) =>
      match getStyle (fun _ => -1) r2 id2 with
      | .error e => .error e
      | .ok g => .ok (id1, id2, g.customNumFmt)

/-- fixed (`readback:currency-id-collision`): a currency format whose code is not stored yet matches
NO xf, whatever numFmtId the xf carries — for every registry, style and xf -/
theorem currency_unregistered_never_matches (r : Reg) (s : Style) (xf : Xf) (code : Str)
    (hb : (builtIn s.numFmt).isSome = false) (hr : inRanges s.numFmt Facts.C17.getNumFmtRanges = false)
    (hc : currency s.numFmt = some code) (hn : (numFmtList r).find? (·.code == currencyCode code s) = none)
    (hcu : s.customNumFmt = none) :
    xfNumFmt (getNumFmtID r s) xf s = false := by
  have hid : getNumFmtID r s = Facts.C17.currencyUnregisteredId := by
    unfold getNumFmtID; simp [hb, hr, hc, hn]
  have hv : Facts.C17.currencyUnregisteredId = -2 := by decide
  rw [hid, hv]
  unfold xfNumFmt
  simp [hcu]

/-- … the case found by the thorough tier: `NewStyle{NumFmt:165, DecimalPlaces:3}` (numFmtId 164), then
`NewStyle{NumFmt:164}` is a NEW style reading back the yen format -/
theorem currency_id_no_collision :
    collide = .ok (1, 2, some "\"\xc2\xa5\"#,##0.00".toList) := by
  decide +kernel

def grad2 : Style := { zs with fill := ⟨"gradient".toList, 0, ["112233".toList, "445566".toList], 2⟩ }

def readFill (s : Style) : Except Err Fill :=
  match newStyle initReg s with
  | .error e => .error e
  | .ok (r1, id, _) =>
    match getStyle (fun _ => -1) r1 id with
    | .error e => .error e
    | .ok g => .ok g.fill

/-- every preset variant is identified by its attributes together with its number of stops -/
theorem readShading_id : ∀ sh ∈ List.range 17, readShading sh = (sh : Int) := by decide +kernel

/-- fixed (`readback:gradient-3stop`): every gradient fill record `newFills` can store (all 17 variants,
any two colours) reads back with its own shading index and its two colours -/
theorem gradient_roundtrip (sh : Nat) (hsh : sh < 17) (c0 c1 : Str) :
    extractFills (.gradient sh c0 c1) = ⟨"gradient".toList, 0, [themeColor c0, themeColor c1], sh⟩ := by
  unfold extractFills
  simp only
  rw [readShading_id sh (List.mem_range.mpr hsh)]

theorem gradient_3stop_reads_back :
    readFill grad2 = .ok ⟨"gradient".toList, 0, ["112233".toList, "445566".toList], 2⟩ := by
  decide +kernel

def reregFill (s : Style) : Except Err (Fill × Fill) :=
  match newStyle initReg s with
  | .error e => .error e
  | .ok (r1, id, _) =>
    match getStyle (fun _ => -1) r1 id with
    | .error e => .error e
    | .ok g =>
      match newStyle r1 g with
      | .error e => .error e
      | .ok (r2, id2, _) =>
        match getStyle (fun _ => -1) r2 id2 with
        | .error e => .error e
        | .ok g2 => .ok (g.fill, g2.fill)

/-- fixed (`rereg:gradient-3stop`, DESIGN §6 reconnaissance): the three-stop gradient read back and
registered again has the same fill definition -/
theorem gradient_3stop_reregisters :
    reregFill grad2 = .ok (⟨"gradient".toList, 0, ["112233".toList, "445566".toList], 2⟩,
                           ⟨"gradient".toList, 0, ["112233".toList, "445566".toList], 2⟩) := by
  decide +kernel

/-- fixed (`rereg:empty-fill-record`): an out-of-range pattern creates no fill record; the style
reads back the default fill, and registering that definition again reads the same -/
theorem invalid_fill_reregisters :
    reregFill { zs with fill := ⟨"pattern".toList, 19, ["112233".toList], 0⟩ } =
      .ok (⟨"pattern".toList, 0, [], 0⟩, ⟨"pattern".toList, 0, [], 0⟩) := by
  decide +kernel

/-! ## idempotence -/

theorem parse_ok {s p : Style} (h : parseFormatStyleSet s = .ok p) : p = s := by
  unfold parseFormatStyleSet at h
  repeat' split at h
  all_goals first
    | (simp at h; done)
    | (injection h with h; exact h.symm)

/-- **newstyle_idempotent** ("returns the same id when the same definition is registered again"),
full strength: for every registry satisfying the invariant and EVERY definition, registering the
definition a second time returns the SAME id and leaves EVERY table unchanged — whether the first
call found the definition or created it (components looked up or appended, number format stored,
reused or built in, apply flags, ids as list positions) -/
theorem newstyle_idempotent {r r1 : Reg} {s s1 : Style} {id : Nat} (w : WF r)
    (h : newStyle r s = .ok (r1, id, s1)) :
    ∃ s2, newStyle r1 s = .ok (r1, id, s2) := by
  unfold newStyle at h
  cases hp : parseFormatStyleSet s with
  | error e => rw [hp] at h; simp at h
  | ok p =>
    have hps := parse_ok hp
    subst hps
    rw [hp] at h
    simp only at h
    cases hg : getStyleID r (clampDecimal p) with
    | error e => rw [hg] at h; simp at h
    | ok q =>
      obtain ⟨found, s3⟩ := q
      rw [hg] at h
      cases found with
      | some id0 =>
        simp only at h
        injection h with h; injection h with h1 h2; injection h2 with h2 h3
        subst h1; subst h2; subst h3
        exact ⟨s3, by unfold newStyle; rw [hp]; simp only; rw [hg]⟩
      | none =>
        simp only at h
        obtain ⟨t'', hf, _⟩ := found_after_create w hg h
        exact ⟨t'', by unfold newStyle; rw [hp]; simp only; rw [hf]⟩

/-- … and on every further repetition (the second call is a "found" call) -/
theorem newstyle_idempotent_forever {r r1 : Reg} {s s1 : Style} {id : Nat} (w : WF r)
    (h : newStyle r s = .ok (r1, id, s1)) (n : Nat) :
    (Nat.repeat (fun x => match newStyle x s with | .ok (x', _, _) => x' | .error _ => x) n r1) = r1 := by
  obtain ⟨s2, h2⟩ := newstyle_idempotent w h
  induction n with
  | zero => rfl
  | succ k ih => simp only [Nat.repeat, ih, h2]

/-- idempotence over histories: in every registry reachable from `NewFile()`, any definition
registered twice in a row gets the same id -/
theorem newstyle_idempotent_reachable (ss : List Style) {r1 : Reg} {s s1 : Style} {id : Nat}
    (h : newStyle (runNew initReg ss) s = .ok (r1, id, s1)) : ∃ s2, newStyle r1 s = .ok (r1, id, s2) :=
  newstyle_idempotent (wf_reachable ss) h

/-! ## read-back of a newly registered definition -/

/-- **getstyle_newstyle** (created case; "NewStyle returns an id whose GetStyle definition equals the
requested style, default-normalised"): for every registry with the invariant and EVERY definition,
when `NewStyle` issues a new id, `GetStyle` of that id is `readBase` — each
requested component read back from the record built from it, defaults for the components not
requested, alignment and protection as requested — followed by the number format `n` that
`newNumFmt` chose. `readback_font`, `readback_fill`, `readback_border` give the components in normal
form, `getstyle_newstyle_builtin` / `_locale` / `_custom_new` evaluate the number format -/
theorem getstyle_newstyle_created (dec : Str → Int) {r r' : Reg} {s s' : Style} {id : Nat} (w : WF r)
    (h : newStyle r s = .ok (r', id, s')) (hnew : id = r.xfs.length) :
    ∃ n r1, newNumFmt r (clampDecimal s) = .ok (r1, n) ∧ r'.numFmts = r1.numFmts ∧
      getStyle dec r' id = .ok (extractNumFmt dec r' (some n) (readBase r (clampDecimal s))) := by
  have hne : r.fonts ≠ [] := by
    intro hh; have := w.fontsNe; rw [hh] at this; simp at this
  unfold newStyle at h
  cases hp : parseFormatStyleSet s with
  | error e => rw [hp] at h; simp at h
  | ok p =>
    have hps := parse_ok hp
    subst hps
    rw [hp] at h
    simp only at h
    cases hg : getStyleID r (clampDecimal p) with
    | error e => rw [hg] at h; simp at h
    | ok q =>
      obtain ⟨found, s3⟩ := q
      rw [hg] at h
      cases found with
      | some id0 =>
        simp only at h
        injection h with h; injection h with h1 h2; injection h2 with h2 h3
        subst h1; subst h2
        have := getStyleID_lt hg
        omega
      | none =>
        simp only at h
        obtain ⟨sh, hn, hs⟩ := getStyleID_style hne hg
        obtain ⟨n, r1, e1, e2, e3⟩ := created_reads dec w (createStyle_created w h)
        rw [newNumFmt_shape sh] at e1
        rw [readBase_shape r sh hn hs] at e3
        exact ⟨n, r1, e1, e2, e3⟩

/-- font read-back in normal form: a requested font reads as `Spec.normFont` (size below
`MinFontSize` → 11, empty family → the default font's, unsupported underline dropped, colour
upper-cased without `#`, out-of-range indexed colour → 0, theme and tint kept, `VertAlign` dropped);
no font requested reads the default font -/
theorem readback_font (r : Reg) (t : Style) :
    (readBase r t).font =
      match t.font with
      | some f => some (Spec.normFont (match r.fonts with | d :: _ => d.name | [] => []) f)
      | none => (r.fonts[0]?).map extractFont := readBase_font r t

/-- fill read-back in normal form (`Spec.normFill`): valid pattern / gradient fills keep pattern
index, all 17 shadings and their colours; none / unknown type / out-of-range pattern / malformed
gradient read the default fill (no fill record is created for them) -/
theorem readback_fill (r : Reg) (t : Style) :
    (readBase r t).fill =
      match Spec.normFill t.fill with
      | some fl => fl
      | none => (match r.fills[0]? with | some x => extractFills x | none => Fill.zero) := readBase_fill r t

/-- border read-back: the record built by `newBorders` (last entry of a side wins, one shared
diagonal line) read in the fixed order left, right, top, bottom, diagonalUp, diagonalDown; no border
requested reads the default border. (A closed form independent of `newBorders` is not proved.) -/
theorem readback_border (r : Reg) (t : Style) :
    (readBase r t).border =
      if t.border = [] then (match r.borders[0]? with | some x => extractBorders x | none => [])
      else extractBorders (newBorders t.border) := readBase_border r t

/-- alignment and protection read back exactly as requested -/
theorem readback_alignment_protection (r : Reg) (t : Style) :
    (readBase r t).alignment = t.alignment ∧ (readBase r t).protection = t.protection := ⟨rfl, rfl⟩

/-- whole read-back for a built-in number format (incl. 0 = General): the id is kept and
DecimalPlaces is what the external `extractNumFmtDecimal` says about the built-in code -/
theorem getstyle_newstyle_builtin (dec : Str → Int) {r r' : Reg} {s s' : Style} {id : Nat} {code : Str} (w : WF r)
    (h : newStyle r s = .ok (r', id, s')) (hnew : id = r.xfs.length)
    (hc : (clampDecimal s).customNumFmt = none) (hb : builtIn (clampDecimal s).numFmt = some code) :
    getStyle dec r' id = .ok
      (if dec code ≠ -1 then
        { readBase r (clampDecimal s) with numFmt := (clampDecimal s).numFmt, decimalPlaces := some (dec code) }
       else { readBase r (clampDecimal s) with numFmt := (clampDecimal s).numFmt }) := by
  obtain ⟨n, r1, e1, _, e3⟩ := getstyle_newstyle_created dec w h hnew
  have hn : newNumFmt r (clampDecimal s) = .ok (r, (clampDecimal s).numFmt.toNat) := by
    unfold newNumFmt; simp [hc, hb]
  rw [hn] at e1
  injection e1 with e1; injection e1 with _ e1
  subst e1
  have h0 := builtIn_nonneg (id := (clampDecimal s).numFmt) (by rw [hb]; rfl)
  have hcast : (((clampDecimal s).numFmt.toNat : Nat) : Int) = (clampDecimal s).numFmt := by omega
  rw [e3, extractNumFmt_builtin dec r' _ (code := code) (by rw [hcast]; exact hb), hcast]

/-- whole read-back for a custom number format whose code is not stored yet: `readCode` — the code
itself as CustomNumFmt, DecimalPlaces from `extractNumFmtDecimal`, NegRed iff the code contains
`;[Red]`, NumFmt = the currency id whose (doubled) code it equals, else 0; the requested
NumFmt / DecimalPlaces / NegRed are ignored -/
theorem getstyle_newstyle_custom_new (dec : Str → Int) {r r' : Reg} {s s' : Style} {id : Nat} {c : Str} (w : WF r)
    (h : newStyle r s = .ok (r', id, s')) (hnew : id = r.xfs.length)
    (hc : (clampDecimal s).customNumFmt = some c) (hf : getCustomNumFmtID r c = none) :
    getStyle dec r' id = .ok (readCode dec (readBase r (clampDecimal s)) c) := by
  obtain ⟨n, r1, e1, e2, e3⟩ := getstyle_newstyle_created dec w h hnew
  have hn : newNumFmt r (clampDecimal s) = .ok (setCustomNumFmt r c) := by
    unfold newNumFmt; simp [hc, hf]
  rw [hn] at e1
  injection e1 with e1
  have hr1 : r1 = (setCustomNumFmt r c).1 := by rw [e1]
  have hn1 : n = (setCustomNumFmt r c).2 := by rw [e1]
  have htop := topId_le_foldMax w
  have hl : numFmtList r' = numFmtList r ++ [⟨n, c⟩] := by
    rw [numFmtList_congr e2, hr1, hn1]; simp [setCustomNumFmt, numFmtList]
  have hgt : topId r < n := by rw [hn1]; simp only [setCustomNumFmt]; omega
  have hb : builtIn (n : Int) = none := by
    cases hq : builtIn (n : Int) with
    | none => rfl
    | some v =>
      have := builtIn_le (id := (n : Int)) (by rw [hq]; rfl)
      have := w.topGe
      omega
  have hlang : isLangNumFmt (n : Int) = false := by
    cases hq : isLangNumFmt (n : Int) with
    | false => rfl
    | true =>
      have := lang_le (id := (n : Int)) hq
      have := w.topGe
      omega
  rw [e3, extractNumFmt_new_code dec r' _ hl (fun nf hnf => by have := w.numTop nf hnf; omega) hb hlang]

/-! ## custom number-format codes -/

/-- the extractor pins that `getCustomNumFmtID` compares format codes with `==` (exact bytes); the
model's lookup `(·.code == c)` is that comparison -/
theorem custom_lookup_is_exact : Facts.C17.customCodeExactEq = true := by decide

theorem sorted_history {r : Reg} (w : WF r) (hs : IdsSorted r) (ss : List Style) : IdsSorted (runNew r ss) := by
  induction ss generalizing r with
  | nil => exact hs
  | cons s t ih =>
    simp only [runNew]
    split
    · rename_i r' _ _ h; exact ih (newStyle_spec w h).2.1 (newStyle_sorted w hs h)
    · exact ih w hs

/-- **custom_code_injective** ("dedup only of equal definitions", number-format part): in every
registry reachable from `NewFile()` by any history of `NewStyle` calls, two custom format codes that
resolve to the same numFmt id are the same byte string — codes differing in letter case, spaces,
quoting or escapes never share an id (numFmt ids are strictly increasing along the list, and the
lookup compares codes exactly) -/
theorem custom_code_injective (ss : List Style) (c1 c2 : Str) (n : Nat)
    (h1 : getCustomNumFmtID (runNew initReg ss) c1 = some n)
    (h2 : getCustomNumFmtID (runNew initReg ss) c2 = some n) : c1 = c2 := by
  have hs : IdsSorted (runNew initReg ss) :=
    sorted_history wf_init (by unfold IdsSorted; simp [numFmtList, initReg]) ss
  obtain ⟨a, ha, hca, hia⟩ := getCustomNumFmtID_mem h1
  obtain ⟨b, hb, hcb, hib⟩ := getCustomNumFmtID_mem h2
  have := sorted_id_inj hs ha hb (by rw [hia, hib])
  rw [← hca, ← hcb, this]

/-- … and a custom code that is stored is found under exactly the id it was stored with, whatever
is registered later (lookup is stable over histories) -/
theorem custom_code_lookup_stable (ss tt : List Style) (c : Str) (n : Nat)
    (h : getCustomNumFmtID (runNew initReg ss) c = some n) :
    getCustomNumFmtID (runNew (runNew initReg ss) tt) c = some n := by
  have w := wf_reachable ss
  obtain ⟨e, he, _⟩ := (ext_history w tt).nums
  unfold getCustomNumFmtID at h ⊢
  rw [he, List.find?_append]
  cases hf : (numFmtList (runNew initReg ss)).find? (·.code == c) with
  | none => rw [hf] at h; cases h
  | some nf => rw [hf] at h; simpa using h

/-- **custom_codes_case_sensitive**: in every registry reachable from `NewFile()`, two DIFFERENT custom
format codes that are both stored resolve to DIFFERENT numFmt ids — in particular codes that differ
only in letter case (`0.00E+00` / `0.00e+00`, `yyyy-mm-dd` / `YYYY-MM-DD`): the comparison is the exact
`==` pinned by `custom_lookup_is_exact`, never a case fold -/
theorem custom_codes_case_sensitive (ss : List Style) (c1 c2 : Str) (n1 n2 : Nat) (hne : c1 ≠ c2)
    (h1 : getCustomNumFmtID (runNew initReg ss) c1 = some n1)
    (h2 : getCustomNumFmtID (runNew initReg ss) c2 = some n2) : n1 ≠ n2 := by
  intro h; subst h
  exact hne (custom_code_injective ss c1 c2 n1 h1 h2)

/-- style ids of `NewStyle s1; NewStyle s2; NewStyle s1; NewStyle s2` on the registry of `NewFile()` -/
def abab (s1 s2 : Style) : Except Err (Nat × Nat × Nat × Nat) :=
  match newStyle initReg s1 with
  | .error e => .error e
  | .ok (r1, a, _) =>
    match newStyle r1 s2 with
    | .error e => .error e
    | .ok (r2, b, _) =>
      match newStyle r2 s1 with
      | .error e => .error e
      | .ok (r3, a', _) =>
        match newStyle r3 s2 with
        | .error e => .error e
        | .ok (_, b', _) => .ok (a, b, a', b')

/-- case twins end to end (the harness's `twin:CustomNumFmt(… case)` bases): codes differing only in
letter case get two style ids, and each is found again under its own id -/
theorem custom_case_twins_distinct_styles :
    abab { zs with customNumFmt := some "0.00E+00".toList } { zs with customNumFmt := some "0.00e+00".toList }
      = .ok (1, 2, 1, 2) ∧
    abab { zs with customNumFmt := some "yyyy-mm-dd".toList } { zs with customNumFmt := some "YYYY-MM-DD".toList }
      = .ok (1, 2, 1, 2) := by
  decide +kernel

/-- **component_ids_stable** (the component registries fonts / fills / borders): for EVERY registry
with `WF`, EVERY definition and ANY later history of `NewStyle` calls, a component that is found now
(`getFontID` / `getFillID` / `getBorderID`) is found under the same index afterwards — first-match
lookup in append-only tables; the record `newFont` compares with depends only on `Fonts.Font[0]`,
which never moves, and the size mutation of the caller's font is the same. So an equal font, fill or
border never gets a second id and earlier component ids are never renumbered -/
theorem component_ids_stable {r : Reg} (w : WF r) (ss : List Style) (s : Style) :
    (∀ i s', getFontID r s = .ok (some i, s') → getFontID (runNew r ss) s = .ok (some i, s')) ∧
    (∀ i, getFillID r s = some i → getFillID (runNew r ss) s = some i) ∧
    (∀ i, getBorderID r s = some i → getBorderID (runNew r ss) s = some i) := by
  obtain ⟨⟨ef, hf⟩, ⟨el, hl⟩, ⟨eb, hb⟩, _, _, _⟩ := ext_history w ss
  refine ⟨?_, ?_, ?_⟩
  · intro i s' h
    have hne := w.fontsNe
    unfold getFontID at h ⊢
    cases hsf : s.font with
    | none => rw [hsf] at h; simp at h
    | some f =>
      rw [hsf] at h
      simp only at h ⊢
      have hnf : newFont (runNew r ss) f = newFont r f := by
        unfold newFont; rw [hf]
        cases hr : r.fonts with
        | nil => rw [hr] at hne; simp at hne
        | cons d t => rfl
      have hne' : ¬ (runNew r ss).fonts = [] := by
        intro h0; rw [hf] at h0
        cases hr : r.fonts with
        | nil => rw [hr] at hne; simp at hne
        | cons d t => rw [hr] at h0; simp at h0
      have hne0 : ¬ r.fonts = [] := by
        intro h0; rw [h0] at hne; simp at hne
      rw [if_neg hne0] at h
      rw [if_neg hne', hnf]
      cases hn : newFont r f with
      | error e => rw [hn] at h; simp at h
      | ok p =>
        obtain ⟨xf, f'⟩ := p
        rw [hn] at h
        simp only [Except.ok.injEq, Prod.mk.injEq] at h ⊢
        refine ⟨?_, h.2⟩
        rw [hf]; exact findIdx?_append_left_some _ _ _ h.1
  · intro i h
    unfold getFillID at h ⊢
    split at h
    · cases h
    · rename_i ht
      rw [if_neg ht]
      cases hx : newFills s.fill with
      | none => rw [hx] at h; cases h
      | some x =>
        rw [hx] at h
        simp only at h ⊢
        rw [hl]; exact findIdx?_append_left_some _ _ _ h
  · intro i h
    unfold getBorderID at h ⊢
    split at h
    · cases h
    · rename_i ht
      rw [if_neg ht, hb]; exact findIdx?_append_left_some _ _ _ h

/-- non-vacuity of `component_ids_stable`: in the registry of `NewFile()` the default fill is found
at index 0 and a font equal to `Fonts.Font[0]` at index 0 — and therefore after every history -/
theorem component_ids_stable_example (ss : List Style) :
    getFillID (runNew initReg ss) { zs with fill := ⟨"pattern".toList, 0, [], 0⟩ } = some 0 :=
  (component_ids_stable wf_init ss _).2.1 0 (by decide +kernel)

/-! ## the stored grid refines the three-level Spec over histories -/

/-- a successful style operation on the worksheet (coordinates as after the setters' normalisation) -/
inductive GOp
  | cell (hc hr vc vr sid : Nat)   -- SetCellStyle, rectangle hc..vc × hr..vr
  | row (s e sid : Nat)            -- SetRowStyle
  | col (mn mx sid : Nat)          -- SetColStyle
  | write (c r : Nat)              -- a cell setter that stores the inherited style

def GOp.ok : GOp → Prop
  | .cell hc hr _ _ _ => 1 ≤ hc ∧ 1 ≤ hr
  | .row s e _ => 1 ≤ s ∧ s ≤ e
  | .col mn mx _ => 1 ≤ mn ∧ mn ≤ mx
  | .write c r => 1 ≤ c ∧ 1 ≤ r

/-- what the Impl setters leave behind (`setCellStyle_ok`, `setRowStyle_ok`, `setColStyle_ok`) -/
def stepI (g : Grid) : GOp → Grid
  | .cell hc hr vc vr sid => setRectGrown g hc hr vc vr sid
  | .row s e sid => setRowGrid g s e sid
  | .col mn mx sid => if g.rows.length > 0 then setColGrid g mn mx sid else { g with cols := flatCols mn mx sid g.cols }
  | .write c r => writeCell g c r

def stepS (l : Spec.Levels) : GOp → Spec.Levels
  | .cell hc hr vc vr sid => Spec.setCell l hc hr vc vr sid
  | .row s e sid => Spec.setRow l s e sid
  | .col mn mx sid => Spec.setCol l mn mx sid
  | .write c r => Spec.write l c r

/-- **setRow_refines / setCol_refines / setCell_refines / write_refines**: each operation keeps the
refinement — same row and column levels, same resolution at every position, flat column list.
SetColStyle goes through `flatCols` (new range first, older entries of the range dropped) and the
overwrite of the cells of the rows that exist; both cases `len(Row) > 0` and `= 0` are covered -/
theorem step_refines {g : Grid} {l : Spec.Levels} (h : Refines g l) (o : GOp) (ok : o.ok) :
    Refines (stepI g o) (stepS l o) := by
  cases o with
  | cell hc hr vc vr sid => exact setCell_refines h hc hr vc vr sid ok.1 ok.2
  | row s e sid => exact setRow_refines h s e sid ok.1 ok.2
  | col mn mx sid =>
    unfold stepI
    by_cases hr : g.rows.length > 0
    · simp only [hr, if_true]; exact setCol_refines h mn mx sid ok.1 ok.2
    · simp only [hr, if_false]; exact setCol_refines_norows h mn mx sid ok.2 (by omega)
  | write c r => exact write_refines h c r ok.1 ok.2

/-- over every history of SetCellStyle / SetRowStyle / SetColStyle / cell writes, in any interleaving,
starting from a new worksheet -/
theorem grid_refines_history (ops : List GOp) (hok : ∀ o ∈ ops, o.ok) :
    Refines (ops.foldl stepI Grid.empty) (ops.foldl stepS Spec.Levels.empty) := by
  suffices H : ∀ (g : Grid) (l : Spec.Levels), Refines g l → Refines (ops.foldl stepI g) (ops.foldl stepS l) from
    H _ _ refines_empty
  induction ops with
  | nil => intro g l h; exact h
  | cons o t ih =>
    intro g l h
    simp only [List.foldl_cons]
    exact ih (fun x hx => hok x (List.mem_cons_of_mem _ hx)) _ _ (step_refines h o (hok o (by simp)))

/-- **resolve_cell_row_col over histories** ("the style a cell reports is the one explicitly set on
it, otherwise its row's, otherwise its column's; the setters affect exactly the addressed range"):
after ANY history, `GetCellStyle` of every position equals the three-level Spec's resolution, and
`GetColStyle`'s level equals the Spec's column level -/
theorem getcellstyle_history (ops : List GOp) (hok : ∀ o ∈ ops, o.ok) (c r : Nat) (hc : 1 ≤ c) (hr : 1 ≤ r) :
    getCellStyle (ops.foldl stepI Grid.empty) c r = Spec.resolve (ops.foldl stepS Spec.Levels.empty) c r := by
  have e : getCellStyle (ops.foldl stepI Grid.empty) c r =
      Spec.resolve (levelsOf (ops.foldl stepI Grid.empty)) c r := prepareCellStyle_eq_resolve _ c r hr
  rw [e]
  exact (grid_refines_history ops hok).res c r hc hr

/-- the column list stays flat (one entry per column, no column twice), so the first-match lookup of
`prepareCellStyle` and the last-match lookup of `GetColStyle` cannot disagree -/
theorem cols_flat_history (ops : List GOp) (hok : ∀ o ∈ ops, o.ok) :
    FlatUnique (ops.foldl stepI Grid.empty).cols := (grid_refines_history ops hok).flat

/-- `stepI` is what the Impl setters return for a valid id and normalised arguments -/
theorem stepI_is_impl (reg : Reg) (g : Grid) (sid : Int) (hv : validId reg sid = true) :
    (∀ hc hr vc vr, hc ≤ vc → hr ≤ vr → (setCellStyle reg g hc hr vc vr sid).1 = stepI g (.cell hc hr vc vr sid.toNat)) ∧
    (∀ s e : Nat, 1 ≤ s → s ≤ e → e ≤ Facts.TotalRows →
      (setRowStyle reg g (s : Int) (e : Int) sid).1 = stepI g (.row s e sid.toNat)) ∧
    (∀ mn mx, mn ≤ mx → (setColStyle reg g mn mx sid).1 = stepI g (.col mn mx sid.toNat)) := by
  refine ⟨fun hc hr vc vr h1 h2 => by rw [setCellStyle_ok reg g hc hr vc vr sid hv h1 h2]; rfl,
    fun s e h1 h2 h3 => by rw [setRowStyle_ok reg g s e sid hv h1 h2 h3]; rfl,
    fun mn mx h => by rw [setColStyle_ok reg g mn mx sid hv h]; rfl⟩

/-- a definition that `getStyleID` finds at `id`: the xf there is accepted by all six lookup predicates -/
theorem getStyleID_matches {r : Reg} {s s' : Style} {id : Nat} (h : getStyleID r s = .ok (some id, s')) :
    ∃ xf fontID, r.xfs[id]? = some xf ∧
      xfMatches (numKey r s) fontID (getFillID r s) (getBorderID r s) s' xf = true := by
  rw [getStyleID_eq] at h
  cases hg : getFontID r s with
  | error e => rw [hg] at h; simp at h
  | ok p =>
    obtain ⟨k, t⟩ := p
    rw [hg] at h
    simp only at h
    injection h with h; injection h with h1 h2
    subst h2
    rw [List.findIdx?_eq_some_iff_getElem] at h1
    obtain ⟨hi, hp, _⟩ := h1
    exact ⟨r.xfs[id], k, List.getElem?_eq_getElem hi, hp⟩

/-- **custom codes, style level** ("dedup only of equal definitions"): in every registry reachable
from `NewFile()`, two definitions with custom number formats that are found at the SAME style id carry
the same format code — `NewStyle` never hands the id of a style with one custom code to a request
with another (case, spaces, quoting all matter) -/
theorem custom_styles_same_id_same_code (ss : List Style) (s1 s2 s1' s2' : Style) (c1 c2 : Str) (id : Nat)
    (hc1 : s1.customNumFmt = some c1) (hc2 : s2.customNumFmt = some c2)
    (h1 : getStyleID (runNew initReg ss) s1 = .ok (some id, s1'))
    (h2 : getStyleID (runNew initReg ss) s2 = .ok (some id, s2')) : c1 = c2 := by
  obtain ⟨xf1, f1, hx1, m1⟩ := getStyleID_matches h1
  obtain ⟨xf2, f2, hx2, m2⟩ := getStyleID_matches h2
  rw [hx1] at hx2; injection hx2 with hx; subst hx
  have key : ∀ (s s' : Style) (c : Str) (f : Option Nat), s.customNumFmt = some c →
      xfMatches (numKey (runNew initReg ss) s) f (getFillID (runNew initReg ss) s) (getBorderID (runNew initReg ss) s) s' xf1 = true →
      s'.customNumFmt = s.customNumFmt →
      ∃ n, getCustomNumFmtID (runNew initReg ss) c = some n ∧ xf1.numFmtId = some n := by
    intro s s' c f hc hm hsame
    rw [xfMatches_and] at hm
    simp only [Bool.and_eq_true] at hm
    have hn := hm.1.1.1.1.1
    unfold xfNumFmt numKey at hn
    rw [hsame, hc] at hn
    simp only [Option.isNone_some, Bool.false_eq_true, false_and, if_false] at hn
    cases hg : getCustomNumFmtID (runNew initReg ss) c with
    | none => rw [hg] at hn; simp at hn
    | some n =>
      rw [hg] at hn
      have : ¬ ((n : Int) < 0) := by omega
      simp only [this, if_false, Int.toNat_natCast, beq_iff_eq] at hn
      exact ⟨n, rfl, hn⟩
  have sh1 := (getStyleID_style (by
    intro hh; have := (wf_reachable ss).fontsNe; rw [hh] at this; simp at this) h1).1
  have sh2 := (getStyleID_style (by
    intro hh; have := (wf_reachable ss).fontsNe; rw [hh] at this; simp at this) h2).1
  obtain ⟨n1, g1, e1⟩ := key s1 s1' c1 f1 hc1 m1 sh1.custom
  obtain ⟨n2, g2, e2⟩ := key s2 s2' c2 f2 hc2 m2 sh2.custom
  rw [e1] at e2; injection e2 with e2; subst e2
  exact custom_code_injective ss c1 c2 n1 g1 g2

/-! ## `<cols>` with ranges (worksheets opened from files) -/

/-- the rule the code implements on range entries: `prepareCellStyle` (hence `GetCellStyle`) takes
the FIRST entry that covers the column and has a non-zero style, `GetColStyle` the LAST entry that
covers it. On every column list without overlapping entries (what the file format allows) the two
agree, for every column — flatness is not assumed -/
theorem getcolstyle_agrees_on_ranges (g : Grid) (h : ColsDisjoint g.cols) (c : Nat) :
    getColStyle g c = colS g c := cols_disjoint_agree g h c

/-- … and therefore the column level `GetCellStyle` falls back to is what `GetColStyle` reports -/
theorem getcellstyle_column_level (g : Grid) (h : ColsDisjoint g.cols) (c r : Nat) (hr : 1 ≤ r)
    (hcell : cellS g c r = 0) (hrow : rowS g r = 0) : getCellStyle g c r = getColStyle g c := by
  have e : getCellStyle g c r = Spec.resolve (levelsOf g) c r := prepareCellStyle_eq_resolve g c r hr
  rw [e, resolve_levelsOf, hcell, hrow, cols_disjoint_agree g h c]; simp

/-- on OVERLAPPING entries (not valid in a file; the transcript carries this witness) the two lookups
follow different entries: column B of `<col min=1 max=3 style=5/><col min=2 max=2 style=7/>` reports
5 through GetCellStyle and 7 through GetColStyle. Recorded as a limitation of invalid input, not as a
finding -/
theorem cols_overlap_disagree :
    getCellStyle ⟨[], [⟨1, 3, 5⟩, ⟨2, 2, 7⟩]⟩ 2 1 = 5 ∧ getColStyle ⟨[], [⟨1, 3, 5⟩, ⟨2, 2, 7⟩]⟩ 2 = 7 := by
  decide

/-- every xf record in a registry reachable from `NewFile()` has the shape `setCellXfs` writes: all
four component ids present, apply flags of font / fill / border never `false`, alignment and
protection stored consistently with their flags (the invariant a read-back theorem for FOUND styles
needs; that theorem itself is not proved) -/
theorem xf_shape_history (ss : List Style) : ShapeOk (runNew initReg ss) := by
  suffices H : ∀ r, WF r → ShapeOk r → ShapeOk (runNew r ss) from H _ wf_init shape_init
  induction ss with
  | nil => intro r _ h; exact h
  | cons s t ih =>
    intro r w h
    simp only [runNew]
    split
    · rename_i r' _ _ hn; exact ih r' (newStyle_spec w hn).2.1 (newStyle_shape w h hn)
    · exact ih r w h

/-! ### non-vacuity and the positive cases -/

/-- a plain definition is deduplicated and read back (bold font, solid fill, border, protection,
built-in format 4): same id twice -/
theorem idem_example :
    twice { zs with font := some boldFont, fill := ⟨"pattern".toList, 1, ["ff0000".toList], 0⟩,
                    border := [⟨"left".toList, "00ff00".toList, 1⟩], protection := some (true, false),
                    numFmt := 4 } = .ok (1, 1) := by
  decide +kernel

/-- the guards of `newFills` / `newBorders` stay inside the tables they index (no panic) -/
theorem tables_cover_guards :
    Facts.C17.styleFillPatterns.length = 19 ∧ Facts.C17.fillVariants.length = 17 ∧
    Facts.C17.styleBorders.length = 14 := by decide

/-! ## three levels -/

/-- **resolve_cell_row_col**: for every stored grid and every position, the style the code reports
(`prepareCellStyle` on the cell's stored style) is the cell's explicit style if set, otherwise the
row's if set, otherwise the column's — all eight combinations of set/unset -/
theorem resolve_cell_row_col (g : Grid) (c r : Nat) (hr : 1 ≤ r) :
    prepareCellStyle g c r (cellS g c r) = Spec.resolve (levelsOf g) c r :=
  prepareCellStyle_eq_resolve g c r hr

/-- `GetCellStyle` is a pure read (since the C04 repair it creates neither rows nor cells): it
returns the three-level resolution of the grid as stored, for cells that exist and cells that do not -/
theorem getcellstyle_resolves (g : Grid) (c r : Nat) (hr : 1 ≤ r) :
    getCellStyle g c r = Spec.resolve (levelsOf g) c r :=
  prepareCellStyle_eq_resolve g c r hr

/-- the eight combinations spelled out on the Spec -/
theorem resolve_cases (l : Spec.Levels) (c r : Nat) :
    (l.cell c r ≠ 0 → Spec.resolve l c r = l.cell c r) ∧
    (l.cell c r = 0 → l.row r ≠ 0 → Spec.resolve l c r = l.row r) ∧
    (l.cell c r = 0 → l.row r = 0 → Spec.resolve l c r = l.col c) := by
  unfold Spec.resolve
  refine ⟨fun h => by simp [h], fun h1 h2 => by simp [h1, h2], fun h1 h2 => by simp [h1, h2]⟩

/-- **setstyle_frame** (SetCellStyle): exactly the addressed rectangle changes -/
theorem setCell_frame (l : Spec.Levels) (c1 r1 c2 r2 sid c r : Nat) :
    (Spec.inRect c1 r1 c2 r2 c r → sid ≠ 0 → Spec.resolve (Spec.setCell l c1 r1 c2 r2 sid) c r = sid) ∧
    (¬ Spec.inRect c1 r1 c2 r2 c r → Spec.resolve (Spec.setCell l c1 r1 c2 r2 sid) c r = Spec.resolve l c r) := by
  unfold Spec.resolve Spec.setCell
  refine ⟨fun h hs => by simp [h, hs], fun h => by simp [h]⟩

/-- **setstyle_frame** (SetRowStyle): exactly the addressed rows change -/
theorem setRow_frame (l : Spec.Levels) (r1 r2 sid c r : Nat) :
    (r1 ≤ r ∧ r ≤ r2 → sid ≠ 0 → Spec.resolve (Spec.setRow l r1 r2 sid) c r = sid) ∧
    (r1 ≤ r ∧ r ≤ r2 → sid = 0 → Spec.resolve (Spec.setRow l r1 r2 sid) c r = l.col c) ∧
    (¬ (r1 ≤ r ∧ r ≤ r2) → Spec.resolve (Spec.setRow l r1 r2 sid) c r = Spec.resolve l c r) := by
  unfold Spec.resolve Spec.setRow
  refine ⟨fun h hs => by simp [h, hs], fun h hs => by simp [h, hs], fun h => by simp [h]⟩

/-- **setstyle_frame** (SetColStyle): exactly the addressed columns change -/
theorem setCol_frame (l : Spec.Levels) (c1 c2 sid c r : Nat) :
    (c1 ≤ c ∧ c ≤ c2 → sid ≠ 0 → Spec.resolve (Spec.setCol l c1 c2 sid) c r = sid) ∧
    (c1 ≤ c ∧ c ≤ c2 → sid = 0 → Spec.resolve (Spec.setCol l c1 c2 sid) c r = l.row r) ∧
    (¬ (c1 ≤ c ∧ c ≤ c2) → Spec.resolve (Spec.setCol l c1 c2 sid) c r = Spec.resolve l c r) := by
  unfold Spec.resolve Spec.setCol
  refine ⟨fun h hs => by simp [h, hs], fun h hs => ?_, fun h => by simp [h]⟩
  simp only [h, hs, and_self, if_true, ne_eq, not_true_eq_false, if_false]
  split <;> simp_all

/-- a later cell write reports what it inherited, everywhere else nothing changes; afterwards the
cell keeps that style whatever happens to the *column* level -/
theorem write_inherits (l : Spec.Levels) (c r c' r' : Nat) :
    Spec.resolve (Spec.write l c r) c' r' = Spec.resolve l c' r' := by
  unfold Spec.resolve Spec.write
  by_cases h : c' = c ∧ r' = r
  · obtain ⟨h1, h2⟩ := h; subst h1; subst h2
    simp only [and_self, if_true]
    unfold Spec.resolve
    split <;> rename_i h1
    · rfl
    · split <;> rename_i h2
      · simp_all
      · simp_all
  · simp [h]

/-- **invalid_id_noop**: an id outside `0 .. len(cellXfs)-1` is rejected by all three setters;
SetRowStyle and SetColStyle leave the worksheet untouched, SetCellStyle only grows the grid
(`prepareSheetXML` / `makeContiguousColumns` run before the check) without storing any style: the
three levels are unchanged -/
theorem invalid_id_noop (reg : Reg) (g : Grid) (sid : Int) (hbad : validId reg sid = false) :
    (∀ a b, (setRowStyle reg g a b sid).1 = g ∧ (setRowStyle reg g a b sid).2 ≠ .ok ()) ∧
    (∀ a b, setColStyle reg g a b sid = (g, .error .invalidStyle)) ∧
    (∀ hc hr vc vr, 1 ≤ hr → 1 ≤ vr →
      (setCellStyle reg g hc hr vc vr sid).2 = .error .invalidStyle ∧
      levelsEq (levelsOf (setCellStyle reg g hc hr vc vr sid).1) (levelsOf g)) := by
  refine ⟨fun a b => ?_, fun a b => ?_, fun hc hr vc vr h1 h2 => ?_⟩
  · unfold setRowStyle
    simp only [hbad, Bool.not_false, if_true]
    repeat' split
    all_goals exact ⟨rfl, by simp⟩
  · unfold setColStyle; simp [hbad]
  · exact setCellStyle_invalid reg g hc hr vc vr sid hbad h1 h2

/-- a valid id is accepted by SetCellStyle and written to exactly the rectangle (Impl) -/
theorem valid_id_accepted (reg : Reg) (g : Grid) (hc hr vc vr : Nat) (sid : Int) (h : validId reg sid = true) :
    (setCellStyle reg g hc hr vc vr sid).2 = .ok () := by
  unfold setCellStyle; simp [h]

end XlModel.Props.C17
