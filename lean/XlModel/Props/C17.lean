import XlModel.Styles
namespace XlModel.Props.C17
open XlModel XlModel.Styles

theorem placeholder : (1 : Nat) = 1 := rfl

end XlModel.Props.C17
