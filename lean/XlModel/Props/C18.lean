/-
C18 — Workbook, sheet and document settings read back as set, and persist.
Property theorems only; helper lemmas are in `Lemmas/Settings.lean`.

The property is claimed PARTIAL: the theorems below carry the generic
reflection copy helpers, the formula / drop-list escapers, the legacy XOR
password hash, the protect/unprotect password law and defined-name set / get /
delete.  Every other Set*/Get* pair (sheet properties, views, panes, page
layout, margins, header/footer, dimension, data-validation lists, conditional
formats, comments, hyperlinks, tables) is covered by the differential oracle of
`harness/cmd/vh/c18*.go` only.
-/
import XlModel.Lemmas.Settings
import XlModel.Lemmas.CondFmt
import XlModel.Lemmas.DvDelete
import XlModel.DvRecord
import XlModel.CfRule
import XlModel.Lemmas.XmlAttr
import XlModel.Lemmas.Margins
import XlModel.HeaderFooter

namespace XlModel.Props.C18
open XlModel XlModel.Settings

/-! ## facts the proofs were written for (an edit of the Go source breaks these) -/

/-- the replacer tables of datavalidation.go are the ones the escape proofs use -/
theorem tables_pinned :
    escTbl = [(['&'], ['&','a','m','p',';']), (['<'], ['&','l','t',';']), (['>'], ['&','g','t',';'])] ∧
    unescTbl = [(['&','a','m','p',';'], ['&']), (['&','l','t',';'], ['<']), (['&','g','t',';'], ['>'])] ∧
    quoteTbl = [(['"'], ['"','"'])] ∧ unquoteTbl = [(['"','"'], ['"'])] :=
  ⟨escTbl_eq, unescTbl_eq, quoteTbl_eq, unquoteTbl_eq⟩

/-- every place that writes a data-validation formula escapes it, and every place that
reads one unescapes it: the call sites of `formulaEscaper.Replace` /
`formulaUnescaper.Replace` are the ones the round-trip argument relies on
(SetDropList, SetRange, SetSqrefDropList and the row/column adjuster write;
getDataValidations, unescapeDataValidationFormula and the adjuster read). A dropped or added call
changes this fact. -/
theorem escaper_call_sites_pinned :
    Facts.C18.formulaEscaperCallers =
      [("SetDropList", 2), ("SetRange", 1), ("SetSqrefDropList", 1), ("adjustDataValidations", 2)] ∧
    Facts.C18.formulaUnescaperCallers =
      [("adjustDataValidations", 2), ("getDataValidations", 2), ("unescapeDataValidationFormula", 1)] := by decide

/-- `assignFieldValue` has a case for bool, int and float64 (string goes through the default) -/
theorem assign_kinds_pinned :
    kindCase .bool = true ∧ kindCase .int = true ∧ kindCase .float = true := by decide

/-- setter and getter of each reflection-routed pair use the same field list, the
setter through `setNoPtrFieldsVal`, the getter through `setPtrFieldsVal` -/
theorem pair_field_lists_agree :
    Facts.C18.fields_SetWorkbookProps = Facts.C18.fields_GetWorkbookProps ∧
    Facts.C18.fields_SetCalcProps = Facts.C18.fields_GetCalcProps ∧
    Facts.C18.helper_SetWorkbookProps = "setNoPtrFieldsVal" ∧ Facts.C18.helper_GetWorkbookProps = "setPtrFieldsVal" ∧
    Facts.C18.helper_SetCalcProps = "setNoPtrFieldsVal" ∧ Facts.C18.helper_GetCalcProps = "setPtrFieldsVal" ∧
    Facts.C18.helper_SetAppProps = "setNoPtrFieldsVal" ∧ Facts.C18.helper_SetDocProps = "setNoPtrFieldsVal" := by decide

/-- every listed field exists in both structs of its pair with one handled kind
(bool / int / float64 / string), plain in the part struct: the typing hypothesis
of `copy_roundtrip` holds for the declared production structs -/
theorem pair_structs_welltyped :
    wtDecl Facts.C18.fields_SetWorkbookProps Facts.C18.struct_WorkbookPropsOptions Facts.C18.struct_xlsxWorkbookPr = true ∧
    wtDecl Facts.C18.fields_SetCalcProps Facts.C18.struct_CalcPropsOptions Facts.C18.struct_xlsxCalcPr = true ∧
    wtDecl Facts.C18.fields_SetAppProps Facts.C18.struct_AppProperties Facts.C18.struct_xlsxProperties = true ∧
    wtDecl Facts.C18.fields_SetDocProps Facts.C18.struct_DocProperties Facts.C18.struct_xlsxCoreProperties = true := by decide

/-- the XOR hash constants -/
theorem xor_consts_pinned :
    Facts.C18.xorMask = 32767 ∧ Facts.C18.xorConst = 52811 ∧ Facts.C18.xorRot = 15 := by decide

/-! ## generic copy: get (set o st) = normalize o st, and frame -/

/-- Clause "the matching getter returns an equal (default-normalised) structure", for
EVERY options structure routed through `setNoPtrFieldsVal` (setter) and
`setPtrFieldsVal` (getter): for any field list, any option values (nil or set
pointers, zero values) and any previous part state, neither helper panics, the
getter reports for each listed field the new value if one was given and the
previous one otherwise, with the zero value reported as nil; a nil option leaves
the stored value unchanged; fields not listed are untouched on both sides. -/
theorem copy_roundtrip (fs : List String) (o p g : Rec)
    (hn : ∀ f ∈ fs, OKn o p f)
    (hg : ∀ f ∈ fs, ∀ w, p.get f = some (.plain w) → g.get f = some (.ptr w.kind none)) :
    ∃ p' g', setNoPtr fs o p = .ok p' ∧ setPtr fs p' g = .ok g' ∧
      (∀ f ∈ fs, ∀ k ov w, o.get f = some (.ptr k ov) → p.get f = some (.plain w) →
        g'.get f = some (.ptr k (Spec.normalize ov w))) ∧
      (∀ x, x ∉ fs → p'.get x = p.get x ∧ g'.get x = g.get x) ∧
      (∀ x k, o.get x = some (.ptr k none) → p'.get x = p.get x) := by
  obtain ⟨p', h1, h2⟩ := setNoPtr_spec fs o p hn
  have hokp : ∀ f ∈ fs, OKp p' g f := by
    intro f hf
    obtain ⟨k, ov, w, ho, hk, _, hp, hw⟩ := hn f hf
    have hgf := hg f hf w hp
    cases ov with
    | none => exact ⟨k, w, none, by rw [h2 f]; simp [updN, hf, ho, hp], hw, by rw [hgf, hw]⟩
    | some v => exact ⟨k, v, none, by rw [h2 f]; simp [updN, hf, ho], hk v rfl, by rw [hgf, hw]⟩
  obtain ⟨g', h3, h4⟩ := setPtr_spec fs p' g hokp
  refine ⟨p', g', h1, h3, ?_, ?_, ?_⟩
  · intro f hf k ov w ho hp
    obtain ⟨k', ov', w', ho', hk', _, hp', hw'⟩ := hn f hf
    rw [ho] at ho'; injection ho' with e; injection e with e1 e2
    rw [hp] at hp'; injection hp' with e; injection e with e3
    subst e1; subst e2; subst e3
    have hgf := hg f hf w hp
    rw [h4 f]
    cases ov with
    | none =>
      have : p'.get f = some (.plain w) := by rw [h2 f]; simp [updN, hf, ho, hp]
      by_cases hz : w.isZero = true
      · simp [updP, hf, this, hz, hgf, Spec.normalize, hw']
      · simp [updP, hf, this, hz, Spec.normalize, hw']
    | some v =>
      have : p'.get f = some (.plain v) := by rw [h2 f]; simp [updN, hf, ho]
      have hvk : v.kind = w.kind := by rw [hk' v rfl, hw']
      by_cases hz : v.isZero = true
      · simp [updP, hf, this, hz, hgf, Spec.normalize, hw']
      · simp [updP, hf, this, hz, Spec.normalize, hvk, hw']
  · intro x hx
    exact ⟨by rw [h2 x]; simp [updN, hx], by rw [h4 x]; simp [updP, hx]⟩
  · intro x k ho
    rw [h2 x]
    unfold updN
    by_cases hx : x ∈ fs <;> simp [hx, ho]

/-- non-vacuity: the hypotheses of `copy_roundtrip` are satisfiable and the result is
the expected one on a WorkbookProps-like record (pointer to `false` reads back nil,
nil keeps the stored `true`, a string is copied) -/
theorem copy_roundtrip_example :
    let o : Rec := [("Date1904", .ptr .bool (some (.b false))), ("FilterPrivacy", .ptr .bool none), ("CodeName", .ptr .str (some (.s ['x'])))]
    let p : Rec := [("Date1904", .plain (.b true)), ("FilterPrivacy", .plain (.b true)), ("CodeName", .plain (.s []))]
    let g : Rec := [("Date1904", .ptr .bool none), ("FilterPrivacy", .ptr .bool none), ("CodeName", .ptr .str none)]
    (match setNoPtr Facts.C18.fields_SetWorkbookProps o p with
     | .ok p' => (match setPtr Facts.C18.fields_GetWorkbookProps p' g with
        | .ok g' => g' == [("Date1904", .ptr .bool none), ("FilterPrivacy", .ptr .bool (some (.b true))), ("CodeName", .ptr .str (some (.s ['x'])))]
        | .panic => false)
     | .panic => false) = true := by decide

/-- the helpers do panic outside the typing hypothesis (the model is not totalised):
a bool option copied into a string field -/
theorem copy_panics_on_kind_mismatch :
    (match setNoPtr ["B"] [("B", .ptr .bool (some (.b true)))] [("B", .plain (.s []))] with
     | .panic => true | .ok _ => false) = true := by decide

/-! ## formula escaping -/

/-- Clause "text needing … formula escaping": `formulaUnescaper ∘ formulaEscaper` is
the identity on every string -/
theorem escape_roundtrip (s : List Char) : unescape (escape s) = s := unescape_escape s

theorem getLast_snoc (l : List Char) (b : Char) : (l ++ [b]).getLast? = some b := by
  induction l with
  | nil => rfl
  | cons a l ih =>
    cases l with
    | nil => rfl
    | cons c r =>
      simp only [List.cons_append] at ih ⊢
      rw [List.getLast?_cons_cons]
      exact ih

/-- the decoded form of a quote-enclosed text -/
theorem unescapeDV_wrapped (x : List Char) :
    unescapeDV ('"' :: quote (escape x) ++ ['"']) = '"' :: x ++ ['"'] := by
  have hu : unescape ('"' :: quote (escape x) ++ ['"']) = '"' :: quote x ++ ['"'] := by
    simp only [List.cons_append]
    rw [unescape_other _ _ (by decide), unescape_quote_escape]
    have : unescape ['"'] = ['"'] := by decide
    rw [this]
  unfold unescapeDV
  simp only [hu]
  have h1 : ('"' :: quote x ++ ['"']).length > 1 := by simp
  have h2 : [dq].isPrefixOf ('"' :: quote x ++ ['"']) = true := by simp [dq, List.isPrefixOf]
  have h3 : ('"' :: quote x ++ ['"']).getLast? = some dq := by
    have := getLast_snoc ('"' :: quote x) '"'
    simpa [dq] using this
  have h4 : (('"' :: quote x ++ ['"']).drop 1).dropLast = quote x := by
    simp
  simp only [h1, h2, h3, h4, decide_true, Bool.and_self, beq_self_eq_true, if_true]
  have := unquote_quote_append x []
  have hn : unquote [] = [] := rfl
  rw [List.append_nil, hn, List.append_nil] at this
  rw [this]; rfl

/-- a drop list reads back as the quoted, unescaped list — FULL after the repair of the
quote decoding: for every joined text within the length limit that does not start with `=` -/
theorem droplist_roundtrip (f : List Char) (hlen : ¬ Facts.MaxFieldLength < utf16Len f)
    (heq : ['='].isPrefixOf f = false) :
    (setDropList f).map unescapeDV = some ('"' :: f ++ ['"']) := by
  have h1 : setDropList f = some ('"' :: quote (escape f) ++ ['"']) := by
    simp [setDropList, hlen, heq, dq]
  rw [h1]
  simp only [Option.map_some, Option.some.injEq]
  exact unescapeDV_wrapped f

/-- a formula-style list (`=…`) is only escaped, and reads back verbatim -/
theorem droplist_formula_roundtrip (f : List Char) (hlen : ¬ Facts.MaxFieldLength < utf16Len f)
    (heq : ['='].isPrefixOf f = true) : (setDropList f).map unescapeDV = some f := by
  have h1 : setDropList f = some (escape f) := by simp [setDropList, hlen, heq]
  rw [h1]
  cases f with
  | nil => simp [List.isPrefixOf] at heq
  | cons c r =>
    have hc : '=' = c := by simpa [List.isPrefixOf] using heq
    subst hc
    simp only [Option.map_some, Option.some.injEq]
    unfold unescapeDV
    simp only [unescape_escape]
    have : [dq].isPrefixOf ('=' :: r) = false := by simp [dq, List.isPrefixOf]
    simp [this]

/-- regression of the fixed finding dv:droplist:Formula1:only-quotes: the one-item list `"`
now reads back as `"""` -/
theorem droplist_only_quotes_regression :
    (setDropList ['"']).map unescapeDV = some ['"', '"', '"'] ∧
    (setDropList []).map unescapeDV = some ['"', '"'] := by decide

/-! ### data-validation formulas set by SetRange / SetSqrefDropList -/

/-- `dv_formula_roundtrip`, FULL after the repair: SetRange (string formula) stores
`formulaEscaper(f)`; GetDataValidations returns every formula that is not the first formula
of a list validation through `formulaUnescaper` only: set/get is the identity on ALL formulas -/
theorem dv_formula_roundtrip (f : List Char) : getFormula false (escape f) = f := by
  simp [getFormula, unescape_escape]

/-- the first formula of a list validation set through SetSqrefDropList reads back as set
unless it is enclosed in double quotes (then it IS a drop-list text and is decoded as one) -/
theorem dv_sqref_droplist_roundtrip_partial (f : List Char)
    (h : ([dq].isPrefixOf f && f.getLast? == some dq) = false) :
    getFormula true (escape f) = f := by
  simp only [getFormula, if_true]
  unfold unescapeDV
  simp only [unescape_escape]
  have : (decide (f.length > 1) && [dq].isPrefixOf f && f.getLast? == some dq) = false := by
    cases hd : decide (f.length > 1) <;> simp_all
  simp [this]

/-- regression of the fixed finding dv:Formula1:string-literal-doubled-quote, and the witness
for the hypothesis of `dv_sqref_droplist_roundtrip_partial`: as a non-list formula `"a""b"`
is returned as set; as the first formula of a LIST validation it is a drop-list text -/
theorem dv_string_literal_regression :
    getFormula false (escape ['"', 'a', '"', '"', 'b', '"']) = ['"', 'a', '"', '"', 'b', '"'] ∧
    getFormula true (escape ['"', 'a', '"', '"', 'b', '"']) = ['"', 'a', '"', 'b', '"'] := by decide

/-! ## legacy XOR password hash -/

/-- `xor_hash_range`, FULL for ASCII passwords after the second fix window: whatever the
length (below 65536 characters), the legacy hash is a 16-bit value (at most 4 hex digits) -/
theorem xor_hash_range (runes : List Nat) (hr : ∀ v ∈ runes, v < 128) (hl : runes.length < 65536) :
    xorHash runes.length runes < 65536 := by
  unfold xorHash
  have h1 : xorFold 0 1 runes < 32768 := xorFold_lt runes 0 1 (by omega) hr
  have h2 : xorFold 0 1 runes ^^^ runes.length < 2 ^ 16 := Nat.xor_lt_two_pow (by omega) (by omega)
  have h3 : Facts.C18.xorConst < 2 ^ 16 := by decide
  exact Nat.xor_lt_two_pow h2 h3

/-- regression of the fixed finding xorpw:range: 25 × 'A' (formerly a 17-bit value) and a
255-character password hash into 16 bits; the rotation has period 15 -/
theorem xor_hash_regression :
    xorHash 25 (List.replicate 25 65) < 65536 ∧ xorHash 255 (List.replicate 255 121) < 65536 ∧
    xorTerm 65 16 = xorTerm 65 1 := by decide +kernel

/-- the known Excel value: "password" hashes to 83AF -/
theorem xor_hash_example : passwdOf "password".toList = "83AF".toList := by decide +kernel

/-! ## protection: a password that was set always verifies -/

/-- Clause "a protection password that was set always verifies": whatever the
algorithm (XOR or any ISO hash function `H`), salt and non-empty password,
unprotecting with the same password succeeds and removes the protection -/
theorem passwd_verifies (H : IsoHash) (salt alg pw : List Char) (pr : Prot)
    (hpw : pw.isEmpty = false) (h : protectSheet H salt alg pw = some pr) :
    unprotectSheet H (some pr) (some pw) = .ok none := by
  unfold protectSheet at h
  simp only [hpw] at h
  by_cases ha : alg.isEmpty = true
  · simp [ha] at h; subst h
    simp [unprotectSheet]
  · simp only [ha] at h
    cases hh : H alg pw salt with
    | none => simp [hh] at h
    | some hv =>
      simp [hh] at h; subst h
      simp [unprotectSheet, ha, hh]

/-- an empty password is "no password": nothing is stored, and `UnprotectSheet(sheet, "")`
is refused (the XOR hash of "" is CE4B, never the empty attribute) -/
theorem empty_password_is_no_password (H : IsoHash) (salt alg : List Char) :
    protectSheet H salt alg [] = some ⟨[], [], [], []⟩ ∧
    unprotectSheet H (some ⟨[], [], [], []⟩) (some []) = .error .badPassword := by
  constructor
  · rfl
  · have h : passwdOf [] ≠ [] := by decide +kernel
    simp [unprotectSheet, Ne.symm h]

/-- Clause "under the SHA/MD hash algorithms any other password is refused": this
rests on collision resistance, which is an ASSUMPTION (hypothesis `hinj`), not a
theorem: if no other password has the same hash under the stored salt, every other
password is refused -/
theorem wrong_password_refused_of_collision_free (H : IsoHash) (salt alg pw q : List Char) (pr : Prot)
    (hpw : pw.isEmpty = false) (ha : alg.isEmpty = false)
    (h : protectSheet H salt alg pw = some pr)
    (hinj : H alg q salt = H alg pw salt → q = pw) (hq : q ≠ pw) :
    unprotectSheet H (some pr) (some q) ≠ .ok none := by
  unfold protectSheet at h
  simp only [hpw, ha] at h
  cases hh : H alg pw salt with
  | none => simp [hh] at h
  | some hv =>
    simp [hh] at h; subst h
    cases hq2 : H alg q salt with
    | none => simp [unprotectSheet, ha, hq2]
    | some hv2 =>
      have hne : hv ≠ hv2 := by
        intro e; apply hq; apply hinj; rw [hq2, hh, e]
      simp [unprotectSheet, ha, hq2, hne]

/-- for the XOR algorithm a different password is refused exactly when its 16-bit
hash differs: collisions exist by design of the algorithm Excel defines -/
theorem xor_refuses_iff_hash_differs (H : IsoHash) (pw q : List Char) (hpw : pw.isEmpty = false) :
    unprotectSheet H (protectSheet H [] [] pw) (some q) = .ok none ↔ passwdOf q = passwdOf pw := by
  simp [protectSheet, hpw, unprotectSheet]
  constructor <;> intro h <;> exact h.symm

/-! ## defined names -/

/-- the scope `GetDefinedName` reports for a stored local sheet ID -/
def scopeName (sheets : List (List Char)) : Option Nat → List Char
  | some i => sheetName sheets i
  | none => workbookS

/-- Clause "the matching getter returns an equal structure" for defined names: an accepted
`SetDefinedName` appends exactly one item, equal to the one set with its scope resolved
(case-insensitive sheet lookup, "" = "Workbook"), and leaves every listed item as it was -/
theorem definedname_set_get (st st' : DNState) (d : DN) (h : setDN st d = .ok st') :
    ∃ id, resolveScope st.sheets d.scope = .ok id ∧
      getDN st' = getDN st ++ [⟨d.name, scopeName st.sheets id, d.refersTo, d.comment⟩] ∧
      st'.sheets = st.sheets := by
  unfold setDN at h
  split at h
  · cases h
  · split at h
    · cases h
    · cases hr : resolveScope st.sheets d.scope with
      | error e => simp [hr] at h
      | ok id =>
        simp only [hr] at h
        split at h
        · cases h
        · injection h with h; subst h
          refine ⟨id, rfl, ?_, rfl⟩
          simp only [getDN, List.map_append, List.map_cons, List.map_nil, storedScopeGet, scopeName]
          cases id <;> rfl

/-- a scope that names no sheet is rejected (fixed finding definedname:Scope:unknown-sheet-accepted) -/
theorem definedname_unknown_scope_rejected (st : DNState) (d : DN)
    (h : resolveScope st.sheets d.scope = .error .scope) : ∃ e, setDN st d = .error e := by
  unfold setDN
  split
  · exact ⟨_, rfl⟩
  · split
    · exact ⟨_, rfl⟩
    · simp [h]

/-- no two stored names share name and scope -/
def Unique (st : DNState) : Prop :=
  st.names.Pairwise (fun a b => ¬ (a.localSheetID = b.localSheetID ∧ eqFold a.name b.name = true))

/-- `definedname_unique` (fixed finding definedname:duplicate): whatever spelling of the scope
is used, an accepted `SetDefinedName` never stores the same name (names are not
case-sensitive) twice in one scope -/
theorem definedname_unique (st st' : DNState) (d : DN) (hu : Unique st) (h : setDN st d = .ok st') :
    Unique st' := by
  unfold setDN at h
  split at h
  · cases h
  · split at h
    · cases h
    · cases hr : resolveScope st.sheets d.scope with
      | error e => simp [hr] at h
      | ok id =>
        simp only [hr] at h
        split at h
        · cases h
        · rename_i hany
          injection h with h; subst h
          unfold Unique
          simp only [List.pairwise_append, List.pairwise_cons, List.Pairwise.nil, List.mem_singleton]
          refine ⟨hu, ⟨by simp, trivial⟩, ?_⟩
          intro a ha b hb
          subst hb
          intro hab
          apply hany
          simp only [List.any_eq_true]
          exact ⟨a, ha, by simp [hab.1, hab.2]⟩

/-- Clause "deleting … removes exactly that item": an accepted `DeleteDefinedName` removes one
item with that name in that (resolved) scope, the first such, and nothing else -/
theorem definedname_delete_exactly_one (st st' : DNState) (n s : List Char) (h : delDN st n s = .ok st') :
    ∃ id l1 x l2, resolveScope st.sheets s = .ok id ∧ st.names = l1 ++ x :: l2 ∧ st'.names = l1 ++ l2 ∧
      st'.sheets = st.sheets ∧ sameName id n x = true ∧ ∀ y ∈ l1, sameName id n y = false := by
  unfold delDN at h
  cases hr : resolveScope st.sheets s with
  | error e => simp [hr] at h
  | ok id =>
    simp only [hr] at h
    cases hd : delFirst (sameName id n) st.names with
    | none => simp [hd] at h
    | some l =>
      simp [hd] at h; subst h
      obtain ⟨l1, x, l2, e1, e2, hx, hall⟩ := delFirst_spec _ _ _ hd
      exact ⟨id, l1, x, l2, rfl, e1, e2, rfl, hx, hall⟩

theorem delFirst_isSome_of_mem (p : XDN → Bool) : ∀ (l : List XDN) (x : XDN), x ∈ l → p x = true →
    ∃ l', delFirst p l = some l' := by
  intro l
  induction l with
  | nil => intro x hx; simp at hx
  | cons a l ih =>
    intro x hx hp
    by_cases ha : p a = true
    · exact ⟨l, by simp [delFirst, ha]⟩
    · simp only [List.mem_cons] at hx
      rcases hx with e | e
      · subst e; exact absurd hp ha
      · obtain ⟨l', hl⟩ := ih x e hp
        exact ⟨a :: l', by simp [delFirst, ha, hl]⟩

/-- fixed finding definedname:delete-refused: a name that was just set can be deleted with the
very same structure (same name, same spelling of the scope) -/
theorem definedname_set_then_delete (st st' : DNState) (d : DN) (h : setDN st d = .ok st') :
    ∃ st'', delDN st' d.name d.scope = .ok st'' := by
  obtain ⟨id, hr, _, hs⟩ := definedname_set_get st st' d h
  have hmem : (⟨d.name, d.refersTo, d.comment, id⟩ : XDN) ∈ st'.names := by
    unfold setDN at h
    split at h
    · cases h
    · split at h
      · cases h
      · simp only [hr] at h
        split at h
        · cases h
        · injection h with h; subst h; simp
  obtain ⟨l', hl⟩ := delFirst_isSome_of_mem (sameName id d.name) st'.names _ hmem (by simp [sameName])
  unfold delDN
  rw [hs, hr]
  simp [hl]

def wSheets : List (List Char) := ["Sheet1".toList, "Data".toList, "other".toList]

/-- regressions of the three fixed defined-name findings on their recorded witnesses: the second
spelling of the scope is a duplicate, an unknown sheet is rejected, set-then-delete with "DATA" works -/
theorem definedname_regressions :
    (match setDN ⟨wSheets, []⟩ ⟨"Amount".toList, "Sheet1".toList, "Sheet1!$A$2".toList, []⟩ with
     | .ok s1 => (match setDN s1 ⟨"Amount".toList, "sheet1".toList, "Sheet1!$A$2".toList, []⟩ with
        | .error e => e == .duplicate
        | .ok _ => false)
     | .error _ => false) = true ∧
    (match setDN ⟨wSheets, []⟩ ⟨"Amount".toList, [], "Sheet1!$A$2".toList, []⟩ with
     | .ok s1 => (match setDN s1 ⟨"Amount".toList, "Workbook".toList, "Sheet1!$B$2".toList, []⟩ with
        | .error e => e == .duplicate
        | .ok _ => false)
     | .error _ => false) = true ∧
    (match setDN ⟨wSheets, []⟩ ⟨"Amount".toList, "Nope".toList, "Sheet1!$A$2".toList, []⟩ with
     | .error e => e == .scope
     | .ok _ => false) = true ∧
    (match setDN ⟨wSheets, []⟩ ⟨"Rate".toList, "DATA".toList, "Data!$A$2".toList, []⟩ with
     | .ok s1 => (match delDN s1 "Rate".toList "DATA".toList with
        | .ok s2 => (getDN s2).isEmpty
        | .error _ => false)
     | .error _ => false) = true := by decide

/-! ## protection as a state transformer (sheet and workbook) -/

section ProtectionThms
open XlModel.Protection

/-- the extracted tables are the ones of the composite literals in ProtectSheet /
ProtectWorkbook: 15 inverted "allow" options + the constant `Sheet: true`; two plain
workbook locks; the six ISO algorithm names; both spin counts 100 000 -/
theorem protection_facts_pinned :
    Facts.C18.sheetProtFlags.length = 15 ∧ Facts.C18.sheetProtFlags.all (fun t => t.2.2) = true ∧
    Facts.C18.sheetProtFlags.contains ("Objects", "EditObjects", true) = true ∧
    Facts.C18.sheetProtFlags.contains ("Scenarios", "EditScenarios", true) = true ∧
    Facts.C18.sheetProtConsts = [("Sheet", true)] ∧
    Facts.C18.workbookProtFlags = [("LockStructure", "LockStructure", false), ("LockWindows", "LockWindows", false)] ∧
    Facts.C18.workbookProtConsts = [] ∧
    Facts.C18.isoAlgorithms = ["MD4", "MD5", "SHA-1", "SHA-256", "SHA-384", "SHA-512"] ∧
    Facts.C18.sheetProtectionSpinCount = 100000 ∧ Facts.C18.workbookProtectionSpinCount = 100000 := by decide

/-- Clause "re-setting replaces the previous item" (the class of seeded change C18b/1):
the state after a protect call does not depend on the protection that was there before -/
theorem protect_replaces (k : PKind) (H : Hash) (salt : List Char) (prev prev' : Option PRec) (o : Opts) :
    protect k H salt prev o = protect k H salt prev' o := by
  unfold protect
  rfl

/-- Impl ⊑ Spec: an accepted protect call stores exactly `recordOf o`; a rejected one
(unsupported algorithm / password length) returns the error and leaves the flags-only record -/
theorem protect_stores_recordOf (k : PKind) (H : Hash) (salt : List Char) (prev : Option PRec) (o : Opts) :
    (∀ r, recordOf k H salt o = some r → protect k H salt prev o = (some r, true)) ∧
    (recordOf k H salt o = none → protect k H salt prev o = (some ⟨[], [], [], [], 0, flagsOf k o⟩, false)) := by
  cases k <;> cases hp : o.pw.isEmpty
  · cases ha : o.alg.isEmpty
    · cases hi : iso H o.alg o.pw salt <;> simp [recordOf, protect, hp, ha, hi]
    · simp [recordOf, protect, hp, ha]
  · simp [recordOf, protect, hp]
  · cases hi : iso H (wbAlg o.alg) o.pw salt <;> simp [recordOf, protect, hp, hi]
  · simp [recordOf, protect, hp]

theorem flag_names_nodup (k : PKind) : ((flagTable k).map (·.1)).Nodup := by
  cases k <;> decide

/-- `protect_get_roundtrip` for the flags: every stored flag reads back as its option
(inverted for the sheet "allow" options), for every option combination -/
theorem protect_get_roundtrip (k : PKind) (o : Opts) (t : String × String × Bool) (ht : t ∈ flagTable k) :
    (flagsOf k o).lookup t.1 = some (xor t.2.2 (o.field t.2.1)) := by
  unfold flagsOf
  exact lookup_map_fst (flagTable k) (fun t => xor t.2.2 (o.field t.2.1)) (constTable k) (flag_names_nodup k) t ht

/-- the flags of the stored record are those of the last accepted (or rejected) call -/
theorem protect_flags (k : PKind) (H : Hash) (salt : List Char) (prev : Option PRec) (o : Opts) :
    ∃ r ok, protect k H salt prev o = (some r, ok) ∧ r.flags = flagsOf k o := by
  cases k <;> cases hp : o.pw.isEmpty
  · cases ha : o.alg.isEmpty
    · cases hi : iso H o.alg o.pw salt <;> simp [protect, hp, ha, hi]
    · simp [protect, hp, ha]
  · simp [protect, hp]
  · cases hi : iso H (wbAlg o.alg) o.pw salt <;> simp [protect, hp, hi]
  · simp [protect, hp]

/-- `unprotect_removes_iff_verifies`: the protection is removed exactly when the password
argument verifies against the stored record (or no password is given); otherwise the call
is refused and the state is unchanged -/
theorem unprotect_removes_iff_verifies (k : PKind) (H : Hash) (st : Option PRec) (pw : Option (List Char)) :
    (verifies k H st pw = true → unprotect k H st pw = (none, true)) ∧
    (verifies k H st pw = false → unprotect k H st pw = (st, false)) := by
  cases pw with
  | none => simp [verifies, unprotect]
  | some p =>
    cases st with
    | none => simp [verifies, unprotect]
    | some r =>
      cases k <;> cases ha : r.alg.isEmpty
      · cases hi : iso H r.alg p r.salt with
        | none => simp [verifies, unprotect, ha, hi]
        | some h =>
          by_cases hh : r.hash = h
          · subst hh; simp [verifies, unprotect, ha, hi]
          · have hh' : ¬ h = r.hash := fun e => hh e.symm
            simp [verifies, unprotect, ha, hi, hh, hh']
      · by_cases hq : r.password = passwdOf p <;> simp [verifies, unprotect, ha, hq]
      · cases hi : iso H r.alg p r.salt with
        | none => simp [verifies, unprotect, ha, hi]
        | some h =>
          by_cases hh : r.hash = h
          · subst hh; simp [verifies, unprotect, ha, hi]
          · have hh' : ¬ h = r.hash := fun e => hh e.symm
            simp [verifies, unprotect, ha, hi, hh, hh']
      · simp [verifies, unprotect, ha]

/-- a password that was set always verifies, in the state-transformer model: after an
accepted protect with a non-empty password, unprotect with the same password removes it -/
theorem protect_then_unprotect (k : PKind) (H : Hash) (salt : List Char) (prev : Option PRec) (o : Opts) (st : Option PRec)
    (hpw : o.pw.isEmpty = false) (h : protect k H salt prev o = (st, true)) :
    unprotect k H st (some o.pw) = (none, true) := by
  apply (unprotect_removes_iff_verifies k H st (some o.pw)).1
  cases k
  · cases ha : o.alg.isEmpty
    · cases hi : iso H o.alg o.pw salt with
      | none => simp [protect, hpw, ha, hi] at h
      | some hv =>
        simp [protect, hpw, ha, hi] at h
        subst h
        simp [verifies, ha, hi]
    · simp [protect, hpw, ha] at h
      subst h
      simp [verifies]
  · have hne : (wbAlg o.alg).isEmpty = false := by
      unfold wbAlg
      cases hz : o.alg.isEmpty
      · simp [hz]
      · simp; decide
    cases hi : iso H (wbAlg o.alg) o.pw salt with
    | none => simp [protect, hpw, hi] at h
    | some hv =>
      simp [protect, hpw, hi] at h
      subst h
      simp [verifies, hne, hi]

/-- non-vacuity / the seeded history C18b/1 in the model: protect with a password, then
protect without one: no hash is left and any password is accepted by the workbook variant -/
theorem protect_replaces_example :
    let H : Hash := fun a p s => a ++ p ++ s
    let s1 := (protect .workbook H ['s'] none ⟨"SHA-256".toList, "first".toList, [("LockStructure", true)]⟩).1
    let s2 := (protect .workbook H ['s'] s1 ⟨[], [], [("LockWindows", true)]⟩).1
    s2 = some ⟨[], [], [], [], 0, [("LockStructure", false), ("LockWindows", true)]⟩ ∧
    unprotect .workbook H s2 (some "anything".toList) = (none, true) := by decide

end ProtectionThms

/-! ## DeleteDataValidation: exactly the covered cells lose their rule -/

section DvDeleteThms
open XlModel.DvDelete

/-- `dv_delete_exactly`, clause "deleting … removes exactly that item" for data validations —
FULL after the second fix window, for EVERY list of stored rules (areas overlapping or written
in any order) and every delete range: after `DeleteDataValidation(range)`
* every rule denotes exactly its former cells outside the range,
* a rule survives iff it has a cell outside the range — in particular a rule wholly inside the
  range never survives, wherever it stands in the list (the class of seeded change C18d/2),
* a cell is covered afterwards iff it was covered before and is not in the range. -/
theorem dv_delete_exactly (rules : List (List Cell)) (del : List Cell) :
    (∀ r ∈ rules, ∀ a, a ∈ rewriteRule r del ↔ a ∈ r ∧ a ∉ del) ∧
    (∀ r ∈ rules, (rewriteRule r del ∈ deleteRules rules del ↔ ∃ a ∈ r, a ∉ del)) ∧
    (∀ a, (∃ r' ∈ deleteRules rules del, a ∈ r') ↔ (∃ r ∈ rules, a ∈ r) ∧ a ∉ del) := by
  have h1 : ∀ r ∈ rules, ∀ a, a ∈ rewriteRule r del ↔ a ∈ r ∧ a ∉ del :=
    fun r _ a => mem_rewriteRule r del a
  refine ⟨h1, ?_, ?_⟩
  · intro r hr
    unfold deleteRules
    simp only [List.mem_filter, List.mem_map]
    constructor
    · intro ⟨_, hne⟩
      cases hrw : rewriteRule r del with
      | nil => simp [hrw] at hne
      | cons a t =>
        have : a ∈ rewriteRule r del := by rw [hrw]; simp
        exact ⟨a, ((h1 r hr a).1 this).1, ((h1 r hr a).1 this).2⟩
    · intro ⟨a, ha, hd⟩
      refine ⟨⟨r, hr, rfl⟩, ?_⟩
      have : a ∈ rewriteRule r del := (h1 r hr a).2 ⟨ha, hd⟩
      cases hrw : rewriteRule r del with
      | nil => rw [hrw] at this; simp at this
      | cons _ _ => rfl
  · intro a
    unfold deleteRules
    constructor
    · intro ⟨r', hr', ha⟩
      simp only [List.mem_filter, List.mem_map] at hr'
      obtain ⟨⟨r, hr, e⟩, _⟩ := hr'
      subst e
      exact ⟨⟨r, hr, ((h1 r hr a).1 ha).1⟩, ((h1 r hr a).1 ha).2⟩
    · intro ⟨⟨r, hr, ha⟩, hd⟩
      have hm : a ∈ rewriteRule r del := (h1 r hr a).2 ⟨ha, hd⟩
      refine ⟨rewriteRule r del, ?_, hm⟩
      simp only [List.mem_filter, List.mem_map]
      refine ⟨⟨r, hr, rfl⟩, ?_⟩
      cases hrw : rewriteRule r del with
      | nil => rw [hrw] at hm; simp at hm
      | cons _ _ => rfl

/-- the order of the surviving rules is the stored order (the result is a filtered map) -/
theorem dv_delete_keeps_order (rules : List (List Cell)) (del : List Cell) :
    deleteRules rules del = (rules.map (fun r => rewriteRule r del)).filter (fun r => !r.isEmpty) := rfl

/-- the seeded history C18d/2 in the model: rules A1:A3, B1:B3, C1:C3, E1:E5; delete A1:C3
leaves exactly the rule on E1:E5 -/
theorem dv_delete_adjacent_example :
    (match flatSqref "A1:A3".toList, flatSqref "B1:B3".toList, flatSqref "C1:C3".toList,
           flatSqref "E1:E5".toList, flatSqref "A1:C3".toList with
     | .ok a, .ok b, .ok c, .ok e, .ok d => deleteRules [a, b, c, e] d == [e]
     | _, _, _, _, _ => false) = true := by decide +kernel

/-- a rule without a cell in the range keeps its sqref as it is (no rewrite at all) -/
theorem dv_delete_untouched (cells del : List Cell) (h : hits cells del = false) :
    rewriteRule cells del = cells := by
  simp [rewriteRule, h]

/-- regressions of the fixed findings dvdel:areas-not-ascending and dvdel:overlapping-areas:
the bottom-up rule "A5:A6 A1:A2" survives an unrelated delete unchanged and loses exactly A5
when A5 is deleted; the cell listed twice by "A1:A2 A2" is gone after deleting A2 -/
theorem dv_delete_regressions :
    rewriteRule [(1, 5), (1, 6), (1, 1), (1, 2)] [(3, 9)] = [(1, 5), (1, 6), (1, 1), (1, 2)] ∧
    rewriteRule [(1, 5), (1, 6), (1, 1), (1, 2)] [(1, 5)] = [(1, 1), (1, 2), (1, 6)] ∧
    rewriteRule [(1, 1), (1, 2), (1, 2)] [(1, 2)] = [(1, 1)] := by decide +kernel

end DvDeleteThms

/-! ## the data-validation record through the builder methods, AddDataValidation and the getter -/

section DvRecordThms
open XlModel.DvRecord

/-- the enum strings of the two maps (constants 1..8 in iota order) and the three error styles -/
theorem dv_enum_facts_pinned :
    Facts.C18.dvTypeNames = ["none", "custom", "date", "decimal", "list", "textLength", "time", "whole"] ∧
    Facts.C18.dvOperatorNames = ["between", "equal", "greaterThan", "greaterThanOrEqual", "lessThan",
      "lessThanOrEqual", "notBetween", "notEqual"] ∧
    Facts.C18.dvErrorStyles = ["stop", "warning", "information"] ∧ listType = "list".toList := by decide

theorem getFormula_nil (b : Bool) : getFormula b [] = [] := by cases b <;> decide

/-- `dv_set_get_roundtrip`: for EVERY DataValidation structure, what GetDataValidations returns
after AddDataValidation is the structure itself with the two formulas decoded (Formula1 of a
list validation as a drop-list text, every other formula only unescaped); every other field —
flags, sqref, type, operator, the five optional texts, nil or set — is returned unchanged -/
theorem dv_set_get_roundtrip (dv : DV) :
    getDV (addDV dv) =
      { dv with formula1 := getFormula (dv.type == listType) dv.formula1,
                formula2 := getFormula false dv.formula2 } := by
  obtain ⟨ab, e, es, et, op, p, pt, dd, sem, sim, sq, ty, f1, f2⟩ := dv
  simp only [getDV, addDV]
  congr 1
  · cases f1 with
    | nil => simp [getFormula_nil]
    | cons c r => simp
  · cases f2 with
    | nil => simp [getFormula_nil]
    | cons c r => simp

/-- SetRange with string formulas reads back as set: Formula2 always, Formula1 for every
validation type except "list" (there a quoted text is a drop list by design) -/
theorem dv_setrange_roundtrip (dv : DV) (a b : List Char) (t o : Nat)
    (ht : (enumName Facts.C18.dvTypeNames t == listType) = false) :
    (getDV (addDV (setRange dv (.str a) (.str b) t o))).formula1 = a ∧
    (getDV (addDV (setRange dv (.str a) (.str b) t o))).formula2 = b := by
  rw [dv_set_get_roundtrip]
  simp only [setRange, genFormula, ht]
  exact ⟨dv_formula_roundtrip a, dv_formula_roundtrip b⟩

/-- SetDropList reads back as the quoted joined list, with type "list", for every key list
within the length limit whose joined text does not start with `=` -/
theorem dv_droplist_record_roundtrip (dv d : DV) (keys : List (List Char))
    (heq : ['='].isPrefixOf (joinKeys keys) = false) (h : setDropListDV dv keys = some d) :
    (getDV (addDV d)).formula1 = '"' :: joinKeys keys ++ ['"'] ∧ (getDV (addDV d)).type = listType := by
  unfold setDropListDV at h
  cases hs : setDropList (joinKeys keys) with
  | none => simp [hs] at h
  | some f =>
    simp [hs] at h; subst h
    rw [dv_set_get_roundtrip]
    simp only [beq_self_eq_true, getFormula, if_true]
    have hlen : ¬ Facts.MaxFieldLength < utf16Len (joinKeys keys) := by
      intro hl; simp [setDropList, hl] at hs
    have := droplist_roundtrip (joinKeys keys) hlen heq
    rw [hs] at this
    simp only [Option.map_some, Option.some.injEq] at this
    exact ⟨this, trivial⟩

/-- SetError / SetInput read back: message, title, flag; an unknown style falls back to "stop" -/
theorem dv_seterror_setinput_roundtrip (dv : DV) (style : Nat) (t m it im : List Char) :
    let d := getDV (addDV (setInput (setError dv style t m) it im))
    d.error = some m ∧ d.errorTitle = some t ∧ d.showErrorMessage = true ∧
    d.prompt = some im ∧ d.promptTitle = some it ∧ d.showInputMessage = true ∧
    (¬ (1 ≤ style ∧ style ≤ 3) → d.errorStyle = some "stop".toList) := by
  simp only [dv_set_get_roundtrip, setInput, setError]
  refine ⟨trivial, trivial, trivial, trivial, trivial, trivial, ?_⟩
  intro h
  simp only [h, if_false]
  decide

end DvRecordThms

/-! ## conditional formats: type tables and list semantics -/

section CondFmtThms
open XlModel.CondFmt

/-- every rule type the setter accepts has a draw function (else a "valid" type would be
rejected), and every criteria word decodes to a canonical word that encodes to the same
operator: `encode (decode (encode c)) = encode c` for every entry of the table -/
theorem cf_type_tables :
    Facts.C18.validType.all (fun p => Facts.C18.drawContFmtFuncKeys.contains p.2) = true ∧
    Facts.C18.criteriaType.all (fun p =>
      match Facts.C18.operatorType.lookup p.2 with
      | some w => Facts.C18.criteriaType.lookup w == some p.2
      | none => false) = true ∧
    Facts.C18.operatorType.all (fun p => Facts.C18.criteriaType.lookup p.2 == some p.1) = true := by decide

/-- `cf_set_get`: an accepted set of `n` rules on range `r` adds exactly `n` rules under key
`r` (several formats per range accumulate) and leaves every other key as it was -/
theorem cf_set_get (s : Sheet) (r r' : List Char) (n : Nat) :
    count (setCF s r n) r' = count s r' + (if r' = r then n else 0) ∧ listed (setCF s r n) r = true := by
  constructor
  · unfold setCF
    rw [count_append]
    by_cases h : r' = r
    · subst h; simp [count]
    · have : (r == r') = false := by simpa using fun e => h e.symm
      simp [count, h, this]
  · simp [listed, setCF]

/-- `cf_unset_exactly`: unset removes every format of exactly that range — the key
disappears — and the blocks of every other range are untouched, in order -/
theorem cf_unset_exactly (s : Sheet) (r r' : List Char) :
    listed (unsetCF s r) r = false ∧ count (unsetCF s r) r = 0 ∧
    (r' ≠ r → (unsetCF s r).filter (fun b => b.sqref == r') = s.filter (fun b => b.sqref == r')) := by
  refine ⟨?_, ?_, ?_⟩
  · simp [listed, unsetCF]
  · have : (unsetCF s r).filter (fun b => b.sqref == r) = [] := by
      simp [unsetCF, List.filter_filter]
    simp [count, this]
  · intro h
    unfold unsetCF
    rw [List.filter_filter]
    apply List.filter_congr
    intro b _
    by_cases hb : b.sqref = r'
    · subst hb; simp [h]
    · simp [hb]

/-- the numbering repaired by 08e0c15: rule priorities (and with them the x14 ids) stay
pairwise distinct under set and unset, whatever the history -/
theorem cf_priorities_unique (s : Sheet) (r : List Char) (n : Nat) (h : (allPrios s).Nodup) :
    (allPrios (setCF s r n)).Nodup ∧ (allPrios (unsetCF s r)).Nodup := by
  constructor
  · rw [allPrios_setCF, List.nodup_append]
    refine ⟨h, ?_, ?_⟩
    · show List.Pairwise (· ≠ ·) _
      exact List.Pairwise.map _ (fun a b (h : a ≠ b) => by omega) List.nodup_range
    · intro a ha b hb
      have := le_maxPrio s a ha
      simp only [List.mem_map, List.mem_range] at hb
      obtain ⟨i, _, e⟩ := hb
      omega
  · exact List.Nodup.sublist (allPrios_filter_sublist s _) h

/-- the history of seeded change C18a/1 and of defect 08e0c15 in the model: set one rule,
set three, unset the first range, set three more: all six priorities differ -/
theorem cf_numbering_example :
    allPrios (setCF (unsetCF (setCF (setCF [] ['E'] 1) ['C'] 3) ['E']) ['A'] 3) = [2, 3, 4, 5, 6, 7] := by decide

end CondFmtThms

/-! ## sheet view validation, first page number -/

theorem ignore_guards_pinned :
    Facts.C18.sheetViewNames = ["normal", "pageLayout", "pageBreakPreview"] ∧
    Facts.C18.zoomMin = 10 ∧ Facts.C18.zoomMax = 400 := by decide

/-- setPageSetUp has no literal guard on the value of FirstPageNumber (it is stored as given) -/
theorem first_page_number_unguarded : Facts.C18.firstPageNumberGuarded = false := by decide

/-- a valid View / in-range ZoomScale reads back as set, and EVERY FirstPageNumber does
(0 included, after the second fix window: fixed finding layout:FirstPageNumber:zero) -/
theorem view_zoom_firstpage_roundtrip (oldV newV : List Char) (oldZ newZ : Int) (oldP : Option Nat) (newP : Nat)
    (hv : Facts.C18.sheetViewNames.any (fun n => n.toList == newV) = true)
    (hz : 10 ≤ newZ ∧ newZ ≤ 400) :
    getView (setView oldV newV) = newV ∧ getZoom (setZoom oldZ newZ) = newZ ∧
    getFirstPage (setFirstPage oldP newP) = newP := by
  have hg := ignore_guards_pinned
  refine ⟨?_, ?_, ?_⟩
  · have hne : newV.isEmpty = false := by
      cases newV with
      | nil => rw [hg.1] at hv; simp at hv
      | cons _ _ => rfl
    simp [setView, hv, getView, hne]
  · have h1 : newZ ≥ (Facts.C18.zoomMin : Int) ∧ newZ ≤ (Facts.C18.zoomMax : Int) := by
      rw [hg.2.1, hg.2.2]; omega
    simp [setZoom, getZoom, h1]
  · simp [setFirstPage, getFirstPage]

/-- fixed findings sheetview:View:invalid-value / sheetview:ZoomScale:out-of-range:
`SetSheetView` now validates both against the documented ranges: an invalid value is an ERROR
and nothing is stored; a valid pair is stored and reads back -/
theorem sheetview_validates (st : List Char × Int) (v : List Char) (z : Int) :
    ((Facts.C18.sheetViewNames.any (fun n => n.toList == v) = false ∨ z < 10 ∨ 400 < z) →
      setSheetViewVZ st v z = none) ∧
    ((Facts.C18.sheetViewNames.any (fun n => n.toList == v) = true ∧ 10 ≤ z ∧ z ≤ 400) →
      ∃ st', setSheetViewVZ st v z = some st' ∧ getView st'.1 = v ∧ getZoom st'.2 = z) := by
  have hg := ignore_guards_pinned
  constructor
  · intro h
    unfold setSheetViewVZ
    rcases h with h | h | h
    · simp [h]
    · by_cases hv : Facts.C18.sheetViewNames.any (fun n => n.toList == v) = true
      · have : z < (Facts.C18.zoomMin : Int) ∨ z > (Facts.C18.zoomMax : Int) := by rw [hg.2.1]; left; omega
        simp [hv, this]
      · simp [hv]
    · by_cases hv : Facts.C18.sheetViewNames.any (fun n => n.toList == v) = true
      · have : z < (Facts.C18.zoomMin : Int) ∨ z > (Facts.C18.zoomMax : Int) := by rw [hg.2.2]; right; omega
        simp [hv, this]
      · simp [hv]
  · intro ⟨hv, h1, h2⟩
    have hz : ¬ (z < (Facts.C18.zoomMin : Int) ∨ z > (Facts.C18.zoomMax : Int)) := by
      rw [hg.2.1, hg.2.2]; omega
    refine ⟨(setView st.1 v, setZoom st.2 z), by simp [setSheetViewVZ, hv, hz], ?_, ?_⟩
    · exact (view_zoom_firstpage_roundtrip st.1 v st.2 z none 1 hv ⟨h1, h2⟩).1
    · exact (view_zoom_firstpage_roundtrip st.1 v st.2 z none 1 hv ⟨h1, h2⟩).2.1

/-- the inner guards of the method setSheetView (unreachable through SetSheetView for invalid
values since the first fix window): an invalid View / out-of-range ZoomScale leaves the stored one -/
theorem inner_guards_keep_previous (oldV newV : List Char) (oldZ newZ : Int)
    (hv : Facts.C18.sheetViewNames.any (fun n => n.toList == newV) = false)
    (hz : newZ < 10 ∨ 400 < newZ) :
    setView oldV newV = oldV ∧ setZoom oldZ newZ = oldZ := by
  have hg := ignore_guards_pinned
  refine ⟨by simp [setView, hv], ?_⟩
  have h1 : ¬ (newZ ≥ (Facts.C18.zoomMin : Int) ∧ newZ ≤ (Facts.C18.zoomMax : Int)) := by
    rw [hg.2.1, hg.2.2]; omega
  simp [setZoom, h1]

/-- regression witnesses replayed by the harness: FirstPageNumber 0 after 5 now reads 0 -/
theorem first_page_zero_regression :
    getFirstPage (setFirstPage (some 5) 0) = 0 ∧ getFirstPage none = 1 := by decide

/-! ## conditional-format rule contents: set → get per rule type -/

section CfRuleThms
open XlModel.CfRule

local macro "cf_simp" : tactic =>
  `(tactic| simp (config := { decide := true }) only [drawRule, getRule, XRule.base, Opts.empty, orDefault, Bool.not_true, Bool.not_false,
      Bool.false_eq_true, if_false, if_true, Bool.or_self, Bool.or_true, Bool.true_or, Bool.not_not, Option.map_some, List.cons_append, List.nil_append])

/-- the extra tables of the rule-content model: criteria-free types, cellIs criteria, 17 icon presets -/
theorem cf_rule_facts_pinned :
    Facts.C18.noCriteriaTypes = ["containsBlanks", "notContainsBlanks", "containsErrors", "notContainsErrors", "expression", "iconSet"] ∧
    Facts.C18.cellIsCriteriaType = ["equal", "notEqual", "greaterThan", "lessThan", "greaterThanOrEqual", "lessThanOrEqual",
      "containsText", "notContains", "beginsWith", "endsWith"] ∧
    Facts.C18.condFmtIconSetPresetsKeys.length = 17 := by decide

/-- acceptance of `SetConditionalFormat` for one rule: known type, criteria known or not needed -/
theorem setGet_eq (o : Opts) (vt : String) (ct : Option String)
    (hv : lookupS Facts.C18.validType o.type = some vt)
    (hc : lookupS Facts.C18.criteriaType o.criteria = ct)
    (hok : (ct.isSome || Facts.C18.noCriteriaTypes.contains vt) = true)
    (hd : Facts.C18.drawContFmtFuncKeys.contains vt = true) :
    setGet o = (drawRule vt (strOr ct) o).map getRule := by
  subst hc
  unfold setGet setRule
  simp only [hv]
  simp only [hok, hd, if_true]

/-- an unknown type, or a type that needs a criteria given an unknown one, is rejected -/
theorem cf_rejected (o : Opts) :
    (lookupS Facts.C18.validType o.type = none → setGet o = none) ∧
    (∀ vt, lookupS Facts.C18.validType o.type = some vt → lookupS Facts.C18.criteriaType o.criteria = none →
      Facts.C18.noCriteriaTypes.contains vt = false → setGet o = none) := by
  constructor
  · intro h; simp [setGet, setRule, h]
  · intro vt hv hc hn
    simp only [setGet, setRule, hv, hc, Option.isSome_none, Bool.false_or, hn, Bool.false_eq_true, if_false, Option.map_none]

/-- `cf_set_get_roundtrip`, rule type "duplicate": format and stop-if-true read back, everything else is dropped -/
theorem cf_duplicate_roundtrip (o : Opts) (ht : o.type = "duplicate".toList) (ct : String) (hc : lookupS Facts.C18.criteriaType o.criteria = some ct) :
    setGet o = some (some { Opts.empty with type := "duplicate".toList, format := o.format, stopIfTrue := o.stopIfTrue, criteria := ['='] }) := by
  rw [setGet_eq o "duplicateValues" (some ct) (by rw [ht]; decide) hc (by simp) (by decide)]
  cf_simp

/-- `cf_set_get_roundtrip`, rule type "unique": format and stop-if-true read back, everything else is dropped -/
theorem cf_unique_roundtrip (o : Opts) (ht : o.type = "unique".toList) (ct : String) (hc : lookupS Facts.C18.criteriaType o.criteria = some ct) :
    setGet o = some (some { Opts.empty with type := "unique".toList, format := o.format, stopIfTrue := o.stopIfTrue, criteria := ['='] }) := by
  rw [setGet_eq o "uniqueValues" (some ct) (by rw [ht]; decide) hc (by simp) (by decide)]
  cf_simp

/-- `cf_set_get_roundtrip`, rule type "blanks": format and stop-if-true read back, everything else is dropped -/
theorem cf_blanks_roundtrip (o : Opts) (ht : o.type = "blanks".toList) :
    setGet o = some (some { Opts.empty with type := "blanks".toList, format := o.format, stopIfTrue := o.stopIfTrue, criteria := [] }) := by
  rw [setGet_eq o "containsBlanks" _ (by rw [ht]; decide) rfl (by simp; right; decide) (by decide)]
  cf_simp

/-- `cf_set_get_roundtrip`, rule type "no_blanks": format and stop-if-true read back, everything else is dropped -/
theorem cf_no_blanks_roundtrip (o : Opts) (ht : o.type = "no_blanks".toList) :
    setGet o = some (some { Opts.empty with type := "no_blanks".toList, format := o.format, stopIfTrue := o.stopIfTrue, criteria := [] }) := by
  rw [setGet_eq o "notContainsBlanks" _ (by rw [ht]; decide) rfl (by simp; right; decide) (by decide)]
  cf_simp

/-- `cf_set_get_roundtrip`, rule type "errors": format and stop-if-true read back, everything else is dropped -/
theorem cf_errors_roundtrip (o : Opts) (ht : o.type = "errors".toList) :
    setGet o = some (some { Opts.empty with type := "errors".toList, format := o.format, stopIfTrue := o.stopIfTrue, criteria := [] }) := by
  rw [setGet_eq o "containsErrors" _ (by rw [ht]; decide) rfl (by simp; right; decide) (by decide)]
  cf_simp

/-- `cf_set_get_roundtrip`, rule type "no_errors": format and stop-if-true read back, everything else is dropped -/
theorem cf_no_errors_roundtrip (o : Opts) (ht : o.type = "no_errors".toList) :
    setGet o = some (some { Opts.empty with type := "no_errors".toList, format := o.format, stopIfTrue := o.stopIfTrue, criteria := [] }) := by
  rw [setGet_eq o "notContainsErrors" _ (by rw [ht]; decide) rfl (by simp; right; decide) (by decide)]
  cf_simp

/-- rule type "average": additionally AboveAverage -/
theorem cf_average_roundtrip (o : Opts) (ct : String) (ht : o.type = "average".toList)
    (hc : lookupS Facts.C18.criteriaType o.criteria = some ct) :
    setGet o = some (some { Opts.empty with type := "average".toList, criteria := ['='], format := o.format, stopIfTrue := o.stopIfTrue, aboveAverage := o.aboveAverage }) := by
  rw [setGet_eq o "aboveAverage" (some ct) (by rw [ht]; decide) hc (by simp) (by decide)]
  cf_simp

/-- rule types "top" / "bottom": Percent reads back; Value is normalised to the decimal text of
the rank `strconv.Atoi` finds in it, 10 when it is not a number ("" → "10", "007" → "7") -/
theorem cf_top_bottom_roundtrip (o : Opts) (ct : String) (ht : o.type = "top".toList ∨ o.type = "bottom".toList)
    (hc : lookupS Facts.C18.criteriaType o.criteria = some ct) :
    setGet o = some (some { Opts.empty with type := o.type, criteria := ['='], format := o.format, stopIfTrue := o.stopIfTrue, percent := o.percent, value := (toString (match Ref.atoi o.value with | some n => n | none => (10 : Int))).toList }) := by
  rcases ht with ht | ht
  · rw [setGet_eq o "top10" (some ct) (by rw [ht]; decide) hc (by simp) (by decide)]
    cf_simp
    simp only [ht]
    cases Ref.atoi o.value <;> simp (config := { decide := true })
  · rw [setGet_eq o "top10" (some ct) (by rw [ht]; decide) hc (by simp) (by decide)]
    cf_simp
    simp only [ht]
    cases Ref.atoi o.value <;> simp (config := { decide := true })

/-- rule type "formula": the criteria text is the formula and reads back verbatim -/
theorem cf_formula_roundtrip (o : Opts) (ht : o.type = "formula".toList) :
    setGet o = some (some { Opts.empty with type := "formula".toList, criteria := o.criteria, format := o.format, stopIfTrue := o.stopIfTrue }) := by
  rw [setGet_eq o "expression" _ (by rw [ht]; decide) rfl (by simp; right; decide) (by decide)]
  cf_simp

/-- rule type "icon_set" with a known preset: style, reverse and icons-only read back (Format
and StopIfTrue are not part of an icon-set rule) -/
theorem cf_icon_set_roundtrip (o : Opts) (ht : o.type = "icon_set".toList)
    (hi : Facts.C18.condFmtIconSetPresetsKeys.contains (String.ofList o.iconStyle) = true) :
    setGet o = some (some { Opts.empty with type := "icon_set".toList, iconStyle := o.iconStyle, reverseIcons := o.reverseIcons, iconsOnly := o.iconsOnly }) := by
  rw [setGet_eq o "iconSet" _ (by rw [ht]; decide) rfl (by simp; right; decide) (by decide)]
  simp only [drawRule]
  simp (config := { decide := true }) only [hi, if_true, if_false, Option.map_some]
  cf_simp

/-- an icon style that is no preset is rejected -/
theorem cf_icon_set_unknown_rejected (o : Opts) (ht : o.type = "icon_set".toList)
    (hi : Facts.C18.condFmtIconSetPresetsKeys.contains (String.ofList o.iconStyle) = false) : setGet o = none := by
  rw [setGet_eq o "iconSet" _ (by rw [ht]; decide) rfl (by simp; right; decide) (by decide)]
  simp only [drawRule]
  simp (config := { decide := true }) only [hi, if_true, if_false, Bool.false_eq_true, Option.map_none]

/-- a stored cfvo value reads back with "0" shown as "" (an unset value is written as "0") -/
def normValue (v d : List Char) : List Char := if orDefault v d == ['0'] then [] else orDefault v d

/-- colours: a colour with six hex digits (with or without '#', any case) reads back as '#' + upper case -/
theorem cf_color_roundtrip (c : List Char) (h6 : ((c.map upperC).filter (· != '#')).length = 6) :
    readColor (paletteColor c) = '#' :: (c.map upperC).filter (· != '#') := by
  unfold readColor paletteColor
  simp [h6]

/-- rule type "2_color_scale": types, values (unset = "0" = ""), colours through the palette -/
theorem cf_2_color_scale_roundtrip (o : Opts) (ct : String) (ht : o.type = "2_color_scale".toList)
    (hc : lookupS Facts.C18.criteriaType o.criteria = some ct) :
    setGet o = some (some { Opts.empty with type := "2_color_scale".toList, criteria := ['='], stopIfTrue := o.stopIfTrue, minType := o.minType, minValue := normValue o.minValue ['0'], minColor := readColor (paletteColor o.minColor), maxType := o.maxType, maxValue := normValue o.maxValue ['0'], maxColor := readColor (paletteColor o.maxColor) }) := by
  rw [setGet_eq o "2_color_scale" (some ct) (by rw [ht]; decide) hc (by simp) (by decide)]
  cf_simp
  rfl

/-- rule type "3_color_scale": as above with the mid point, whose unset value reads back as "50" -/
theorem cf_3_color_scale_roundtrip (o : Opts) (ct : String) (ht : o.type = "3_color_scale".toList)
    (hc : lookupS Facts.C18.criteriaType o.criteria = some ct) :
    setGet o = some (some { Opts.empty with type := "3_color_scale".toList, criteria := ['='], stopIfTrue := o.stopIfTrue, minType := o.minType, minValue := normValue o.minValue ['0'], minColor := readColor (paletteColor o.minColor), midType := o.midType, midValue := normValue o.midValue ['5', '0'], midColor := readColor (paletteColor o.midColor), maxType := o.maxType, maxValue := normValue o.maxValue ['0'], maxColor := readColor (paletteColor o.maxColor) }) := by
  rw [setGet_eq o "3_color_scale" (some ct) (by rw [ht]; decide) hc (by simp) (by decide)]
  cf_simp
  rfl

/-- does the data bar need the x14 extension rule? -/
def needsExt (o : Opts) : Bool :=
  o.barSolid || o.barDirection == "leftToRight".toList || o.barDirection == "rightToLeft".toList || !o.barBorderColor.isEmpty

/-- rule type "data_bar" without extension fields: bounds verbatim, colour, bar-only -/
theorem cf_data_bar_roundtrip (o : Opts) (ct : String) (ht : o.type = "data_bar".toList)
    (hc : lookupS Facts.C18.criteriaType o.criteria = some ct) (hn : needsExt o = false) :
    setGet o = some (some { Opts.empty with type := "data_bar".toList, criteria := ['='], stopIfTrue := o.stopIfTrue, minType := o.minType, minValue := o.minValue, maxType := o.maxType, maxValue := o.maxValue, barColor := readColor (paletteColor o.barColor), barOnly := o.barOnly }) := by
  rw [setGet_eq o "dataBar" (some ct) (by rw [ht]; decide) hc (by simp) (by decide)]
  unfold needsExt at hn
  simp only [drawRule]
  simp (config := { decide := true }) only [hn, if_true, if_false, Bool.false_eq_true, Option.map_some]
  cf_simp

/-- rule type "data_bar" with the x14 extension (solid fill, a direction, or a border colour):
direction, solid and border colour read back as well -/
theorem cf_data_bar_ext_roundtrip (o : Opts) (ct : String) (ht : o.type = "data_bar".toList)
    (hc : lookupS Facts.C18.criteriaType o.criteria = some ct) (hn : needsExt o = true) :
    setGet o = some (some { Opts.empty with type := "data_bar".toList, criteria := ['='], stopIfTrue := o.stopIfTrue, minType := o.minType, minValue := o.minValue, maxType := o.maxType, maxValue := o.maxValue, barColor := readColor (paletteColor o.barColor), barOnly := o.barOnly, barDirection := o.barDirection, barSolid := o.barSolid, barBorderColor := if o.barBorderColor.isEmpty then [] else readColor (paletteColor o.barBorderColor) }) := by
  rw [setGet_eq o "dataBar" (some ct) (by rw [ht]; decide) hc (by simp) (by decide)]
  unfold needsExt at hn
  simp only [drawRule]
  simp (config := { decide := true }) only [hn, if_true, if_false, Option.map_some]
  cf_simp
  cases o.barBorderColor.isEmpty <;> simp

/-- rule type "cell" with a comparison criteria of `cellIsCriteriaType`: Value reads back, the
criteria as its canonical words; Min/MaxValue are not part of the rule -/
theorem cf_cell_value_roundtrip (o : Opts) (ct : String) (ht : o.type = "cell".toList)
    (hc : lookupS Facts.C18.criteriaType o.criteria = some ct)
    (hcell : Facts.C18.cellIsCriteriaType.contains ct = true) :
    setGet o = some (some { Opts.empty with type := "cell".toList, format := o.format, stopIfTrue := o.stopIfTrue, criteria := opWords ct, value := o.value }) := by
  have hm : ct ∈ ["equal", "notEqual", "greaterThan", "lessThan", "greaterThanOrEqual", "lessThanOrEqual",
      "containsText", "notContains", "beginsWith", "endsWith"] := by
    have := cf_rule_facts_pinned.2.1
    rw [this] at hcell
    simpa using hcell
  rw [setGet_eq o "cellIs" (some ct) (by rw [ht]; decide) hc (by simp) (by decide)]
  simp only [List.mem_cons, List.mem_nil_iff, or_false] at hm
  rcases hm with h | h | h | h | h | h | h | h | h | h <;> subst h <;> cf_simp <;> simp only [strOr]

/-- rule type "cell" with "between" / "not between": Min/MaxValue read back -/
theorem cf_cell_between_roundtrip (o : Opts) (ct : String) (ht : o.type = "cell".toList)
    (hc : lookupS Facts.C18.criteriaType o.criteria = some ct) (hb : ct = "between" ∨ ct = "notBetween") :
    setGet o = some (some { Opts.empty with type := "cell".toList, format := o.format, stopIfTrue := o.stopIfTrue, criteria := opWords ct, minValue := o.minValue, maxValue := o.maxValue }) := by
  rw [setGet_eq o "cellIs" (some ct) (by rw [ht]; decide) hc (by simp) (by decide)]
  rcases hb with hb | hb <;> subst hb <;> cf_simp <;> simp only [strOr]

/-- rule type "cell" with an accepted criteria that is neither a comparison of `cellIsCriteriaType`
nor between / not between (the time-period words): the rule is accepted and stored WITHOUT a
formula; the criteria reads back as its canonical words, Value and Min/MaxValue are dropped -/
theorem cf_cell_other_roundtrip (o : Opts) (ct : String) (ht : o.type = "cell".toList)
    (hc : lookupS Facts.C18.criteriaType o.criteria = some ct)
    (hcell : Facts.C18.cellIsCriteriaType.contains ct = false) (hb : ¬ (ct = "between" ∨ ct = "notBetween")) :
    setGet o = some (some { Opts.empty with type := "cell".toList, format := o.format, stopIfTrue := o.stopIfTrue, criteria := opWords ct }) := by
  rw [setGet_eq o "cellIs" (some ct) (by rw [ht]; decide) hc (by simp) (by decide)]
  have h1 : ct ≠ "between" := fun h => hb (Or.inl h)
  have h2 : ct ≠ "notBetween" := fun h => hb (Or.inr h)
  simp only [drawRule, strOr]
  simp (config := { decide := true }) only [hcell, h1, h2, decide_false, Bool.or_self, Bool.false_eq_true, if_true, if_false, List.append_nil, Option.map_some]
  cf_simp

/-- rule type "cell", EVERY accepted criteria (the three cases above in one statement): the
criteria reads back as its canonical words; Value reads back exactly for the comparison criteria,
Min/MaxValue exactly for between / not between; every other field is dropped -/
theorem cf_cell_roundtrip (o : Opts) (ct : String) (ht : o.type = "cell".toList)
    (hc : lookupS Facts.C18.criteriaType o.criteria = some ct) :
    setGet o = some (some { Opts.empty with type := "cell".toList, format := o.format, stopIfTrue := o.stopIfTrue, criteria := opWords ct, value := (if Facts.C18.cellIsCriteriaType.contains ct then o.value else []), minValue := (if ct = "between" ∨ ct = "notBetween" then o.minValue else []), maxValue := (if ct = "between" ∨ ct = "notBetween" then o.maxValue else []) }) := by
  by_cases hb : ct = "between" ∨ ct = "notBetween"
  · have hcell : Facts.C18.cellIsCriteriaType.contains ct = false := by
      rcases hb with h | h <;> subst h <;> decide
    rw [cf_cell_between_roundtrip o ct ht hc hb, if_pos hb, if_pos hb, hcell]
    rfl
  · cases hcell : Facts.C18.cellIsCriteriaType.contains ct
    · rw [cf_cell_other_roundtrip o ct ht hc hcell hb, if_neg hb, if_neg hb]
      rfl
    · rw [cf_cell_value_roundtrip o ct ht hc hcell, if_neg hb, if_neg hb]
      rfl

/-- the "other" case is inhabited: a cell rule with the criteria "yesterday" keeps only the criteria -/
theorem cf_cell_other_example :
    setGet { Opts.empty with type := "cell".toList, criteria := "yesterday".toList, value := "5".toList } =
      some (some { Opts.empty with type := "cell".toList, criteria := "yesterday".toList }) := by
  decide +kernel

/-- finding cfr:accepted-but-not-listed:text — a "text" rule whose criteria is not one of the
four text criteria is ACCEPTED, stored with an empty rule type, and not listed by the getter -/
theorem finding_cf_text_rule_hidden :
    setGet { Opts.empty with type := "text".toList, criteria := "greater than".toList, value := "abc".toList } = some none := by
  decide +kernel

/-- rule type "text" with one of the four text criteria: Value reads back, criteria as canonical
words — partial: see `finding_cf_text_rule_hidden` for every other accepted criteria -/
theorem cf_text_roundtrip_partial (o : Opts) (ct : String) (ht : o.type = "text".toList)
    (hc : lookupS Facts.C18.criteriaType o.criteria = some ct)
    (htext : ct = "containsText" ∨ ct = "notContains" ∨ ct = "beginsWith" ∨ ct = "endsWith") :
    setGet o = some (some { Opts.empty with type := "text".toList, format := o.format, stopIfTrue := o.stopIfTrue, criteria := opWords ct, value := o.value }) := by
  rw [setGet_eq o "text" (some ct) (by rw [ht]; decide) hc (by simp) (by decide)]
  rcases htext with h | h | h | h <;> subst h <;> cf_simp <;> simp only [strOr]

/-- rule type "time_period": the criteria reads back as its canonical words for EVERY accepted
criteria (the generated formula is not read back); Value and the other fields are dropped -/
theorem cf_time_period_roundtrip (o : Opts) (ct : String) (ht : o.type = "time_period".toList)
    (hc : lookupS Facts.C18.criteriaType o.criteria = some ct) :
    setGet o = some (some { Opts.empty with type := "time_period".toList, format := o.format, stopIfTrue := o.stopIfTrue, criteria := opWords ct }) := by
  rw [setGet_eq o "timePeriod" (some ct) (by rw [ht]; decide) hc (by simp) (by decide)]
  cf_simp
  simp only [strOr]

end CfRuleThms

/-! ## persistence: attribute-backed records through xml.Marshal / xml.Unmarshal -/

section XmlAttrThms
open XlModel.XmlAttr

/-- in each regenerated tag table the attribute names of the modelled attribute fields are
pairwise distinct (the hypothesis of `xml_attr_roundtrip`), and the tables are the ones of the
three record structs: 21 sheet-protection, 11 workbook-protection, 12 data-validation attributes -/
theorem xml_tag_tables_ok :
    ((attrTags Facts.C18.tags_xlsxSheetProtection).map (·.xml)).Nodup ∧
    ((attrTags Facts.C18.tags_xlsxWorkbookProtection).map (·.xml)).Nodup ∧
    ((attrTags Facts.C18.tags_xlsxDataValidation).map (·.xml)).Nodup ∧
    (attrTags Facts.C18.tags_xlsxSheetProtection).length = 21 ∧
    (attrTags Facts.C18.tags_xlsxWorkbookProtection).length = 11 ∧
    (attrTags Facts.C18.tags_xlsxDataValidation).length = 12 := by decide

/-- Clause "… and persist": for ANY tag table with distinct attribute names and any field
values that fit their tags (nil or set pointers, zero values under `omitempty` or not), reading
back what was written gives the record itself: `unmarshal ∘ marshal = id` on the attribute
fields. (The text codec of the scalar values is encoding/xml's and is not part of the model.) -/
theorem xml_attr_roundtrip (tags : List Tag) (vals : List FVal) (hlen : vals.length = tags.length)
    (hnd : (tags.map (·.xml)).Nodup) (hfit : ∀ p ∈ tags.zip vals, Fits p.1 p.2) :
    unmarshal tags (marshal (tags.zip vals)) = (tags.zip vals).map (fun p => (p.1.go, p.2)) := by
  have htags : (tags.zip vals).map Prod.fst = tags := List.map_fst_zip (by omega)
  have hnd' : ((tags.zip vals).map (fun p => p.1.xml)).Nodup := by
    have : (tags.zip vals).map (fun p => p.1.xml) = ((tags.zip vals).map Prod.fst).map (·.xml) := by
      rw [List.map_map]; rfl
    rw [this, htags]; exact hnd
  unfold unmarshal
  conv => lhs; arg 2; rw [← htags]
  rw [List.map_map]
  apply List.map_congr_left
  intro p hp
  simp only [Function.comp]
  rw [unmarshalField_marshal (tags.zip vals) hnd' p hp (hfit p hp)]

/-- non-vacuity on the data-validation table: a record with nil and set pointers, an omitted
empty operator and a kept `false` AllowBlank survives the round trip -/
theorem xml_attr_roundtrip_example :
    let tags := attrTags Facts.C18.tags_xlsxDataValidation
    let vals : List FVal := [.plain (.b false), .ptr .str (some (.s ['e'])), .ptr .str none, .ptr .str none, .plain (.s []),
      .ptr .str none, .ptr .str (some (.s [])), .plain (.b false), .plain (.b true), .plain (.b false), .plain (.s ['A', '1']), .plain (.s ['l'])]
    (marshal (tags.zip vals)).map (·.1) = ["allowBlank", "error", "promptTitle", "showErrorMessage", "sqref", "type"] ∧
    unmarshal tags (marshal (tags.zip vals)) == (tags.zip vals).map (fun p => (p.1.go, p.2)) := by decide

end XmlAttrThms

/-! ## page margins: the hand-written field copy of SetPageMargins / GetPageMargins -/

section MarginThms
open XlModel.Margins

/-- what justifies the positional model: the reflect loop walks exactly the *float64 fields of the
option struct (loop bound = their number, they come first), every one of them names a float64 field
of `xlsxPageMargins` and no other field exists there, the getter copies each name to the same name,
the two *bool fields go to and come from the same `xlsxPrintOptions` fields, and the defaults the
setter fills in are the defaults the getter reports (name by name) -/
theorem margins_facts_pinned :
    Facts.C18.marginLoopBound = Facts.C18.marginOptFloatFields.length ∧
    Facts.C18.marginOptFloatFields.Nodup ∧
    Facts.C18.marginOptFloatFields.all (Facts.C18.marginPartFloatFields.contains ·) = true ∧
    Facts.C18.marginPartFloatFields.all (Facts.C18.marginOptFloatFields.contains ·) = true ∧
    Facts.C18.marginGetCopies = Facts.C18.marginOptFloatFields.map (fun n => (n, n)) ∧
    Facts.C18.marginOptOtherFields = ["Horizontally:*bool", "Vertically:*bool"] ∧
    Facts.C18.marginPrintSet = Facts.C18.marginPrintGet ∧ Facts.C18.marginPrintSet.length = 2 ∧
    defaultsOf Facts.C18.marginSetDefaults = defaultsOf Facts.C18.marginGetDefaults ∧
    (defaultsOf Facts.C18.marginGetDefaults).map List.length = some Facts.C18.marginLoopBound := by decide

/-- `margins_set_get_roundtrip` (full, any value type, any previous state): after SetPageMargins
every margin given reads back as given and every margin not given reads back as before the call
(fresh sheet: as the documented default — the `margins:*` regression); the centring flags read back
as given, a flag not given reads as before, or as false when the call created the print options -/
theorem margins_set_get {α : Type} (d : List α) (st : St α) (o : Opts α)
    (hl : o.m.length = d.length) (hs : ∀ r, st.pm = some r → r.length = d.length) :
    getM d (setM d st o) =
      ⟨List.zipWith (fun a b => a <|> b) o.m (getM d st).m,
       if o.h.isNone && o.v.isNone then (getM d st).h else some (o.h.getD ((getM d st).h.getD false)),
       if o.h.isNone && o.v.isNone then (getM d st).v else some (o.v.getD ((getM d st).v.getD false))⟩ := by
  have hlen : o.m.length = (st.pm.getD d).length := by
    cases hp : st.pm with
    | none => simpa using hl
    | some r => simpa [hs r hp] using hl
  have hm : (getM d (setM d st o)).m = List.zipWith (fun a b => a <|> b) o.m (getM d st).m := by
    simp only [getM, setM]
    cases hall : o.m.all Option.isNone
    · simp only [Bool.false_eq_true, if_false, Option.getD_some]
      exact merge_map_some o.m _ hlen
    · simp only [if_true]
      exact (zipWith_all_none o.m _ (by simpa using hlen) hall).symm
  have hh : getM d (setM d st o) = ⟨(getM d (setM d st o)).m, (getM d (setM d st o)).h, (getM d (setM d st o)).v⟩ := rfl
  rw [hh, hm]
  rcases o with ⟨m, h, v⟩
  rcases st with ⟨pm, po⟩
  cases h <;> cases v <;> cases po <;> simp [getM, setM]

/-- frame: the stored record keeps its length, so the hypothesis of `margins_set_get` is an invariant -/
theorem margins_wellformed_preserved {α : Type} (d : List α) (st : St α) (o : Opts α)
    (hs : ∀ r, st.pm = some r → r.length = d.length) :
    ∀ r, (setM d st o).pm = some r → r.length = d.length := by
  intro r hr
  simp only [setM] at hr
  split at hr
  · exact hs r hr
  · cases hr
    rw [merge_length]
    cases hp : st.pm with
    | none => rfl
    | some r' => simpa using hs r' hp

/-- the `margins:*` regression (fixed by 5d10b59): `{Bottom: 1}` on a fresh sheet leaves the other five at their defaults -/
theorem margins_fresh_example :
    (defaultsOf Facts.C18.marginGetDefaults).map (fun d =>
      (getM d (setM d ⟨none, none⟩ ⟨[some "1", none, none, none, none, none], none, some true⟩))) =
      some ⟨[some "1", some "0.3", some "0.3", some "0.7", some "0.7", some "0.75"], some false, some true⟩ := by decide

end MarginThms

/-! ## header / footer: the hand-written field copy of SetHeaderFooter / GetHeaderFooter -/

section HeaderFooterThms
open XlModel.HeaderFooter

/-- what justifies the positional model: setter and getter literals copy every option field to the
field of the same name (as sets: the setter lists two names in another order), both structs declare
the same names with the same types, and the length loop starts at the first string field -/
theorem hf_facts_pinned :
    Facts.C18.hfOptFields.length = 10 ∧ (Facts.C18.hfOptFields.map (·.1)).Nodup ∧
    Facts.C18.hfGetCopies = Facts.C18.hfOptFields.map (fun f => (f.1, f.1)) ∧
    Facts.C18.hfSetCopies.length = Facts.C18.hfOptFields.length ∧
    Facts.C18.hfSetCopies.all (fun c => c.1 == c.2 && (Facts.C18.hfOptFields.map (·.1)).contains c.1) = true ∧
    (Facts.C18.hfSetCopies.map (·.1)).Nodup ∧
    Facts.C18.hfOptFields.all (Facts.C18.hfPartFields.contains ·) = true ∧
    Facts.C18.hfPartFields.length = Facts.C18.hfOptFields.length ∧
    (Facts.C18.hfOptFields.take Facts.C18.hfLoopFrom).all (fun f => f.2 != "string") = true ∧
    (Facts.C18.hfOptFields.drop Facts.C18.hfLoopFrom).all (fun f => f.2 == "string") = true := by decide

/-- `hf_set_get_roundtrip` (full): whatever was stored before, an accepted SetHeaderFooter makes the
getter return exactly the options given (every field), nil options make it return nil, and a
rejected call (a checked text longer than MaxFieldLength UTF-16 units) leaves no new state -/
theorem hf_set_get (st : Option (List HeaderFooter.Val)) (o : Option (List HeaderFooter.Val)) :
    (∀ st', setHF st o = some st' → getHF st' = o) ∧
    (setHF st o = none ↔ ∃ f, o = some f ∧ ∃ v ∈ checked f, fieldTooLong v = true) := by
  cases o with
  | none => simp [setHF, getHF]
  | some f =>
    by_cases h : (checked f).any fieldTooLong = true
    · have hs : setHF st (some f) = none := by simp [setHF, h]
      rw [hs]
      refine ⟨fun _ h' => (by cases h'), ⟨fun _ => ⟨f, rfl, ?_⟩, fun _ => rfl⟩⟩
      simpa [List.any_eq_true] using h
    · have hs : setHF st (some f) = some (some f) := by simp [setHF, h]
      rw [hs]
      refine ⟨fun st' h' => (by cases h'; rfl), ⟨fun h' => (by cases h'), ?_⟩⟩
      rintro ⟨f', hf, v, hv, hl⟩
      cases hf
      exact absurd (List.any_eq_true.mpr ⟨v, hv, hl⟩) h

/-- observation (not a round-trip defect): the loop bound `NumField()-1` stops one field early, so
the LAST string field (FirstFooter) is never length-checked, while the same text in the field before
it is rejected -/
theorem hf_last_field_unchecked :
    Facts.C18.hfLoopMinus = 1 ∧ Facts.C18.hfOptFields.getLast? = some ("FirstFooter", "string") ∧
    let long := List.replicate 256 'x'
    let base : List HeaderFooter.Val := [HeaderFooter.Val.pb none, HeaderFooter.Val.b false, HeaderFooter.Val.b false, HeaderFooter.Val.pb none, HeaderFooter.Val.s [], HeaderFooter.Val.s [], HeaderFooter.Val.s [], HeaderFooter.Val.s []]
    setHF none (some (base ++ [HeaderFooter.Val.s [], HeaderFooter.Val.s long])) = some (some (base ++ [HeaderFooter.Val.s [], HeaderFooter.Val.s long])) ∧
    setHF none (some (base ++ [HeaderFooter.Val.s long, HeaderFooter.Val.s []])) = none := by decide +kernel

end HeaderFooterThms

end XlModel.Props.C18
