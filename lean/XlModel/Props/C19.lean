/-
C19 — Date/time to serial-number conversion is exact and monotonic.
Property theorems only; helper lemmas are in `Lemmas/Date.lean` (calendar),
`Lemmas/DateSerial.lean` (chunk loop, closed form), `Lemmas/DateCount.lean` (summation day count)
and `Lemmas/DateDecode.lean` (decoder, over ℚ).

All theorems are about `XlModel.Date` (`Impl` = exact-arithmetic transcription of date.go /
cell.go:setCellTime over the regenerated `Facts.C19`).  float64 rounding is not modelled: where
it matters the distance between the stored value `x` and the exact serial is a hypothesis
(`decTol`), and the harness measures the tighter `encTol` on every stored value.
-/
import XlModel.Lemmas.DateDecode
import XlModel.Lemmas.DateCount
import XlModel.Lemmas.DateOrder
import XlModel.Lemmas.DateFloat
import XlModel.Lemmas.DateFloatDec
import XlModel.Lemmas.DateGlue
import XlModel.Lemmas.DateRender

namespace XlModel.Props.C19
open XlModel XlModel.Date XlModel.Date.Impl

/-! ## the regenerated facts are the ones the proofs were written for -/

/-- epochs, the 1900 leap-bug boundary (1900-03-01 minus 1 ns), duration constants, Julian offsets -/
theorem facts_ok :
    Facts.C19.excel1900Epoc = (1899, 12, 30) ∧ Facts.C19.excel1904Epoc = (1904, 1, 1) ∧
    Facts.C19.excelMinTime1900 = (1899, 12, 31) ∧ Facts.C19.excelBuggyPeriodStart = (1900, 3, 1) ∧
    Facts.C19.excelBuggyPeriodStartAddNs = -1 ∧
    Facts.C19.dayNanoseconds = 86400000000000 ∧ Facts.C19.maxDuration = 290 * 364 * 86400000000000 ∧
    Facts.C19.nanosInADay = 86400000000000 ∧
    Facts.C19.roundEpsilonNum = 1 ∧ Facts.C19.roundEpsilonDen = 1000000000 ∧
    Facts.C19.offset1900 = 15018 ∧ Facts.C19.offset1904 = 16480 ∧
    Facts.C19.mjd0Num = 4800001 ∧ Facts.C19.mjd0Den = 2 ∧
    Facts.C19.c1us = 1000 ∧ Facts.C19.c1s = 1000000000 ∧ Facts.C19.c1day = 86400000000000 ∧
    Facts.C19.daysInMonth = [31, 28, 31, 30, 31, 30, 31, 31, 30, 31, 30, 31] := by decide

/-- the guards (comparison operators, thresholds) and the literal arithmetic of the small helper
functions are the ones `Impl` transcribes -/
theorem skeleton_ok :
    Facts.C19.condsTimeToExcelTime =
      ["if date1904", "if t.Before(date)", "for diff >= maxDuration", "if !date1904 && t.After(excelBuggyPeriodStart)"] ∧
    Facts.C19.condsTimeFromExcelTime =
      ["if wholeDaysPart <= 61", "if date1904", "if date1904", "if date.Nanosecond()/1e6 > 500"] ∧
    Facts.C19.condsExcelDateToTime = ["if excelDate < 0"] ∧
    Facts.C19.stmtIsNum = "isNum = !value.Before(firstInstant)" ∧
    Facts.C19.stmtsFirstInstant = ["firstInstant := excelMinTime1900", "firstInstant = excel1904Epoc"] ∧
    Facts.C19.condsShiftJulianToNoon =
      ["case -0.5 < julianFraction && julianFraction < 0.5", "case julianFraction >= 0.5", "case julianFraction <= -0.5"] ∧
    Facts.C19.stmtsShiftJulianToNoon =
      ["julianFraction += 0.5", "julianDays++", "julianFraction -= 0.5", "julianDays--", "julianFraction += 1.5",
       "return julianDays, julianFraction"] ∧
    Facts.C19.stmtsFractionOfADay =
      ["frac := int64(c1day*fraction + c1us/2)", "nanoseconds = int((frac%c1s)/c1us) * c1us", "frac /= c1s",
       "seconds = int(frac % 60)", "frac /= 60", "minutes = int(frac % 60)", "hours = int(frac / 60)", "return"] ∧
    Facts.C19.stmtsFliegel =
      ["l := jd + 68569", "n := (4 * l) / 146097", "l = l - (146097*n+3)/4", "i := (4000 * (l + 1)) / 1461001",
       "l = l - (1461*i)/4 + 31", "j := (80 * l) / 2447", "d := l - (2447*j)/80", "l = j / 11",
       "m := j + 2 - (12 * l)", "y := 100*(n-49) + i + l", "return d, m, y"] := by decide

/-! ## calendar: the day-number ↔ civil-date maps are exact inverses (all days, no bound) -/

/-- clause "calendar arithmetic … leap years, century rules": day number → date → day number is the
identity for EVERY integer day number -/
theorem civil_roundtrip_days (z : Int) :
    daysFromCivil (civilFromDays z).1 (civilFromDays z).2.1 (civilFromDays z).2.2 = z :=
  days_civil_days z

/-- … and date → day number → date is the identity for every valid calendar date of every year -/
theorem civil_roundtrip_date (y m d : Int) (h : ValidDate y m d) :
    civilFromDays (daysFromCivil y m d) = (y, m, d) :=
  civil_days_civil y m d h

/-- distinct valid dates have distinct day numbers -/
theorem civil_injective (y m d y' m' d' : Int) (h : ValidDate y m d) (h' : ValidDate y' m' d')
    (e : daysFromCivil y m d = daysFromCivil y' m' d') : (y, m, d) = (y', m', d') := by
  rw [← civil_days_civil y m d h, ← civil_days_civil y' m' d' h', e]

/-- clause "calendar arithmetic": for all valid dates of all years, calendar order (year, month,
day lexicographic) ⇔ order of day numbers — `daysFromCivil` is strictly monotone -/
theorem civil_monotone (y m d y' m' d' : Int) (h : ValidDate y m d) (h' : ValidDate y' m' d') :
    DateLt (y, m, d) (y', m', d') ↔ daysFromCivil y m d < daysFromCivil y' m' d' :=
  dfc_lt_iff y m d y' m' d' h h'

/-! ## encoding: `timeToExcelTime` is the plain difference to the epoch -/

/-- mechanism "duration-chunked difference and day/remainder split": for EVERY instant the
290×364-day chunk loop with the saturating `Time.Sub` exits by its own test and the result is
(t − epoch) [+ 1 day after 1900-02-28], i.e. chunking and saturation never lose or gain time -/
theorem serial_exact (t : Int) (date1904 : Bool) :
    timeToExcelTimeNs t date1904 =
      if date1904 then (if t < epoch1904 then 0 else t - epoch1904)
      else (if t < minTime1900 then 0
            else if t > buggyStart then t - minTime1900 + 86400000000000 else t - minTime1900) :=
  timeToExcelTimeNs_eq t date1904

/-- clause "the serial of a calendar date equals the day count Excel defines (including its
fictitious 1900-02-29)", closed form: from 1900-03-01 on the serial of wall clock (y,m,d,h:mi:s) is
(days since 1899-12-30) + seconds/86400, i.e. 1900-03-01 ↦ 61; in the 1904 system days since
1904-01-01 (see `serial_daycount` for the identification with Excel's summation count). -/
theorem serial_daycount_closed (y m d h mi s : Int) (date1904 : Bool)
    (hr : if date1904 then -24107 ≤ daysFromCivil y m d else -25508 ≤ daysFromCivil y m d)
    (hh0 : 0 ≤ h) (hm0 : 0 ≤ mi) (hs0 : 0 ≤ s) :
    timeToExcelTimeNs (instantOf { y := y, m := m, d := d, h := h, mi := mi, s := s, ns := 0 }) date1904
      = (daysFromCivil y m d - (if date1904 then -24107 else -25569)) * 86400000000000
        + (h * 3600 + mi * 60 + s) * 1000000000 := by
  obtain ⟨_, e4, emin, eb⟩ := epochs_ok
  rw [serial_exact]
  unfold instantOf
  simp only []
  have hns : nsPerSec = 1000000000 := by decide
  rw [hns, e4, emin, eb]
  cases date1904
  · simp only [Bool.false_eq_true, if_false] at hr ⊢
    split
    · omega
    · split <;> omega
  · simp only [if_true] at hr ⊢
    split <;> omega

/-- clause "the serial of a calendar date equals the day count Excel defines (including its
fictitious 1900-02-29)": for EVERY valid date from 1900-01-01 (1900 system) / 1904-01-01 (1904 system)
on, the exact serial is `Spec.excelDayCount` — the number of days of Excel's calendar (1900 a leap
year) from 1900-01-01 = 1, obtained by summing year and month lengths — resp. `Spec.dayCount1904`,
plus the seconds of the day / 86400 -/
theorem serial_daycount (y m d h mi s : Int) (date1904 : Bool) (hv : ValidDate y m d)
    (hy : if date1904 then 1904 ≤ y else 1900 ≤ y)
    (hh0 : 0 ≤ h) (hh : h < 24) (hm0 : 0 ≤ mi) (hm : mi < 60) (hs0 : 0 ≤ s) (hs : s < 60) :
    timeToExcelTimeNs (instantOf { y := y, m := m, d := d, h := h, mi := mi, s := s, ns := 0 }) date1904
      = Spec.serialSeconds date1904 y m d h mi s * 1000000000 := by
  obtain ⟨h1, h12, hd1, hdl⟩ := hv
  obtain ⟨_, e4, emin, eb⟩ := epochs_ok
  have hms := month_start_nonneg y m h1 h12
  have hj := jan1_ge y
  have hday := dfc_day y m d
  have hl := monthLen_le y m d hdl
  have hns : nsPerSec = 1000000000 := by decide
  unfold Spec.serialSeconds
  rw [serial_exact]
  unfold instantOf
  simp only []
  rw [hns, e4, emin, eb]
  cases date1904
  · simp only [Bool.false_eq_true, if_false] at hy ⊢
    rw [excelDayCount_eq y m d hy h1 h12]
    have h00 : daysFromCivil 1900 1 1 = -25567 := by decide
    have hbound : (y = 1900 ∧ m ≤ 2 → daysFromCivil y m d ≤ -25509 ∧ -25567 ≤ daysFromCivil y m d) ∧
        (¬ (y = 1900 ∧ m ≤ 2) → -25508 ≤ daysFromCivil y m d) := by
      constructor
      · intro hc
        obtain ⟨hy0, hm2⟩ := hc
        subst hy0
        have hstart := dfc_month_start 1900 m h1 h12
        have hmm : m = 1 ∨ m = 2 := by omega
        rcases hmm with hmm | hmm
        · subst hmm; simp at hstart; omega
        · subst hmm
          have hnl : ¬ isLeap 1900 = true := by decide
          have h29 : d ≠ 29 := fun h => hnl ((hl.2.2 rfl).2 h)
          have := (hl.2.2 rfl).1
          simp at hstart; omega
      · intro hc
        by_cases hy0 : y = 1900
        · subst hy0
          have := hms.2 (by omega)
          omega
        · have := hj.1 (by omega)
          omega
    by_cases hc : y = 1900 ∧ m ≤ 2
    · have hb := hbound.1 hc
      rw [if_pos hc]
      split <;> (try split) <;> omega
    · have hb := hbound.2 hc
      rw [if_neg hc]
      split <;> (try split) <;> omega
  · simp only [if_true] at hy ⊢
    rw [dayCount1904_eq y m d hy h1 h12]
    have := hj.2 hy
    split <;> omega

/-- the anchors of the count: 1900-01-01 ↦ 1, 1900-02-28 ↦ 59, 1900-03-01 ↦ 61 (60 is the
fictitious 1900-02-29 and is skipped), 1904-01-02 ↦ 1 (1904 system), 9999-12-31 ↦ 2958465 -/
theorem serial_anchors :
    timeToExcelTimeNs (midnight (1900, 1, 1)) false = 1 * 86400000000000 ∧
    timeToExcelTimeNs (midnight (1900, 2, 28)) false = 59 * 86400000000000 ∧
    timeToExcelTimeNs (midnight (1900, 3, 1)) false = 61 * 86400000000000 ∧
    timeToExcelTimeNs (midnight (1904, 1, 2)) true = 1 * 86400000000000 ∧
    timeToExcelTimeNs (midnight (9999, 12, 31)) false = 2958465 * 86400000000000 ∧
    Spec.excelDayCount 1900 3 1 = 61 ∧ Spec.excelDayCount 1900 2 29 = 60 ∧ Spec.dayCount1904 1904 1 2 = 1 := by
  simp only [serial_exact]
  decide

/-! ## monotonicity -/

/-- clause "a later wall-clock time never yields a smaller serial" (exact serial, every pair of
instants, both systems, across the 1900-02-28/03-01 jump and every chunk boundary) -/
theorem serial_monotone (t t' : Int) (date1904 : Bool) (h : t ≤ t') :
    timeToExcelTimeNs t date1904 ≤ timeToExcelTimeNs t' date1904 := by
  obtain ⟨_, e4, emin, eb⟩ := epochs_ok
  rw [serial_exact, serial_exact, e4, emin, eb]
  cases date1904
  · simp only [Bool.false_eq_true, if_false]
    split <;> split <;> (try split) <;> (try split) <;> omega
  · simp only [if_true]
    split <;> split <;> omega

/-- … strictly, by exactly the elapsed time or one day more, from the epoch on -/
theorem serial_strict_monotone (t t' : Int) (date1904 : Bool) (h : t < t')
    (h0 : if date1904 then epoch1904 ≤ t else minTime1900 ≤ t) :
    timeToExcelTimeNs t date1904 + (t' - t) ≤ timeToExcelTimeNs t' date1904 := by
  obtain ⟨_, e4, emin, eb⟩ := epochs_ok
  rw [serial_exact, serial_exact]
  rw [e4, emin] at h0
  rw [e4, emin, eb]
  cases date1904
  · simp only [Bool.false_eq_true, if_false] at h0 ⊢
    split <;> split <;> (try split) <;> (try split) <;> omega
  · simp only [if_true] at h0 ⊢
    split <;> split <;> omega

/-- the stored float64 values keep that order: two instants at least one second apart, each
stored within 2⁻³⁰ day of its exact serial (the measured bound), are stored strictly increasing -/
theorem serial_monotone_stored (t t' : Int) (date1904 : Bool) (x x' : Rat) (h : t + 1000000000 ≤ t')
    (h0 : if date1904 then epoch1904 ≤ t else minTime1900 ≤ t)
    (hx : |x - timeToExcelTime t date1904| ≤ pow2 30) (hx' : |x' - timeToExcelTime t' date1904| ≤ pow2 30) :
    x < x' := by
  have hm := serial_strict_monotone t t' date1904 (by omega) h0
  unfold timeToExcelTime at hx hx'
  have hd : Facts.C19.dayNanoseconds = 86400000000000 := by decide
  have hc : ((86400000000000 : Int) : Rat) = 86400000000000 := by norm_num
  rw [hd, pow2_30, hc] at hx hx'
  exact float_order _ _ x x' (by omega) hx hx'

/-- clause "a later wall-clock time never yields a smaller serial", stated on calendar dates and
clock readings: for any two valid wall clocks (any years, both systems), later in
(year, month, day, hour, minute, second) order ⇒ exact serial not smaller -/
theorem serial_monotone_wallclock (a b : Civil) (date1904 : Bool) (ha : ValidWall a) (hb : ValidWall b)
    (h : WallLt a b) :
    timeToExcelTimeNs (instantOf a) date1904 ≤ timeToExcelTimeNs (instantOf b) date1904 :=
  serial_monotone _ _ date1904 (by have := instant_lt_of_wallLt a b ha hb h; omega)

/-- … and from the first day of the system on (1899-12-31 resp. 1904-01-01) strictly larger, by at
least one second; the values actually stored (each within 2⁻³⁰ day of its exact serial) are then
strictly increasing as well -/
theorem serial_strict_monotone_wallclock (a b : Civil) (date1904 : Bool) (x x' : Rat)
    (ha : ValidWall a) (hb : ValidWall b) (h : WallLt a b)
    (h0 : if date1904 then -24107 ≤ daysFromCivil a.y a.m a.d else -25568 ≤ daysFromCivil a.y a.m a.d)
    (hx : |x - timeToExcelTime (instantOf a) date1904| ≤ pow2 30)
    (hx' : |x' - timeToExcelTime (instantOf b) date1904| ≤ pow2 30) :
    timeToExcelTimeNs (instantOf a) date1904 + 1000000000 ≤ timeToExcelTimeNs (instantOf b) date1904 ∧ x < x' := by
  have hi := instant_lt_of_wallLt a b ha hb h
  obtain ⟨_, e4, emin, _⟩ := epochs_ok
  have hstart : if date1904 then epoch1904 ≤ instantOf a else minTime1900 ≤ instantOf a := by
    obtain ⟨_, a1, _, a3, _, a5, _, a7⟩ := ha
    unfold instantOf
    have hns : nsPerSec = 1000000000 := by decide
    rw [hns, a7, e4, emin]
    cases date1904
    · simp only [Bool.false_eq_true, if_false] at h0 ⊢; omega
    · simp only [if_true] at h0 ⊢; omega
  constructor
  · have := serial_strict_monotone (instantOf a) (instantOf b) date1904 (by omega) hstart
    omega
  · exact serial_monotone_stored (instantOf a) (instantOf b) date1904 x x' hi hstart hx hx'

/-! ## decoding and the round trip -/

/-- mechanism "whole-day AddDate plus nanosecond fraction with rounding epsilon, Julian path below
serial 61": for every day D ≥ 0, every second k of the day, both systems, and EVERY rational x within
`decTol D` of D + k/86400, `timeFromExcelTime x` is exactly day D, second k after the epoch —
whichever of the two code paths x falls on -/
theorem decode_tolerant (x : Rat) (date1904 : Bool) (D k : Int) (hD0 : 0 ≤ D) (hk0 : 0 ≤ k) (hk : k < 86400)
    (hx : |x - ((D : Rat) + (k : Rat) / 86400)| ≤ decTol D) :
    timeFromExcelTime x date1904 =
      (if date1904 then epoch1904 else epoch1900) + (D * 86400000000000 + k * 1000000000) :=
  decode_both x date1904 D k hD0 hk0 hk hx

/-- mechanism "nanosecond fraction with rounding epsilon" for EVERY rational serial x ≥ 62, whole
second or not: the decoded instant is the epoch plus `secondRule ⌊86400e9·x + 86400⌋` — x in
nanoseconds plus the 86.4 µs epsilon, cut to an integer, rounded up to the next second iff the
sub-second part is at least 501 ms, else truncated -/
theorem decode_rounding_rule (x : Rat) (date1904 : Bool) (h : (62 : Rat) ≤ x) :
    timeFromExcelTime x date1904 =
      (if date1904 then epoch1904 else epoch1900) + secondRule ⌊(86400000000000 : Rat) * x + 86400⌋ :=
  decode_gregorian_rule x date1904 h

/-- sub-second instants (beyond the property's "to the second"): a value stored within 2⁻³⁰ day of
the exact serial of day D, second k, f nanoseconds reads back as second k if f ≤ 0.500833 s and as
second k+1 if f ≥ 0.5009941 s -/
theorem decode_subsecond_seconds (x : Rat) (date1904 : Bool) (D k f : Int) (h62 : (62 : Rat) ≤ x)
    (hk0 : 0 ≤ k) (hf0 : 0 ≤ f) (hf : f < 1000000000)
    (hx : |x - ((D : Rat) + ((k : Rat) * 1000000000 + (f : Rat)) / 86400000000000)| ≤ 1 / 1073741824) :
    (f ≤ 500833000 → timeFromExcelTime x date1904 =
        (if date1904 then epoch1904 else epoch1900) + (D * 86400000000000 + k * 1000000000)) ∧
    (500994100 ≤ f → timeFromExcelTime x date1904 =
        (if date1904 then epoch1904 else epoch1900) + (D * 86400000000000 + (k + 1) * 1000000000)) :=
  decode_subsecond x date1904 D k f h62 hk0 hf0 hf hx

/-- what `setCellTime` stores, for every instant and zone offset: a number iff the wall clock is not
before the system's first instant (1899-12-31T00:00 resp. 1904-01-01T00:00) — serial 0 included -/
theorem stored_numeric_iff (utc off : Int) (date1904 : Bool) :
    (∃ n, setCellTime utc off date1904 = .num n) ↔
      (if date1904 then epoch1904 else minTime1900) ≤ utc + off * nsPerSec := by
  unfold setCellTime
  simp only []
  generalize utc + off * nsPerSec = w
  generalize (if date1904 then epoch1904 else minTime1900) = first
  by_cases hw : w < first
  · rw [if_neg (by omega)]
    exact ⟨fun h => (by obtain ⟨n, hn⟩ := h; cases hn), fun h => by omega⟩
  · rw [if_pos hw]
    exact ⟨fun _ => by omega, fun _ => ⟨_, rfl⟩⟩

/-- clause "zone offset folded into the value": the stored value depends on the instant and the
zone only through the wall clock utc + offset -/
theorem zone_invariant (utc off utc' off' : Int) (date1904 : Bool)
    (h : utc + off * nsPerSec = utc' + off' * nsPerSec) :
    setCellTime utc off date1904 = setCellTime utc' off' date1904 := by
  unfold setCellTime; simp only []; rw [h]

/-- what is stored, as a function of the wall-clock instant only -/
theorem setCellTime_wall (w off : Int) (date1904 : Bool) :
    setCellTime (w - off * nsPerSec) off date1904 =
      if ¬ w < (if date1904 then epoch1904 else minTime1900) then .num (timeToExcelTimeNs w date1904) else .text := by
  unfold setCellTime; simp only [Int.sub_add_cancel]

/-- every wall clock of the property's range (from 1900-03-01 resp. 1904-01-01 00:00:00, the very
first instant included; no upper bound), read in any zone, is stored as the number
`timeToExcelTimeNs / dayNanoseconds` -/
theorem stored_numeric (c : Civil) (off : Int) (date1904 : Bool) (hw : ValidWall c)
    (hr : if date1904 then -24107 ≤ daysFromCivil c.y c.m c.d else -25508 ≤ daysFromCivil c.y c.m c.d) :
    setCellTime (instantOf c - off * nsPerSec) off date1904 = .num (timeToExcelTimeNs (instantOf c) date1904) := by
  obtain ⟨hv, h0, h1, m0, m1, s0, s1, hns0⟩ := hw
  obtain ⟨_, e4, emin, _⟩ := epochs_ok
  rw [setCellTime_wall, if_pos]
  unfold instantOf
  have hns : nsPerSec = 1000000000 := by decide
  rw [hns, hns0, e4, emin]
  cases date1904
  · simp only [Bool.false_eq_true, if_false] at hr ⊢; omega
  · simp only [if_true] at hr ⊢; omega

/-- decoding core of the round trip: for every valid date from 1900-03-01 / 1904-01-01 on — no
upper bound — and every clock reading, every non-negative x within `decTol` of the exact serial of
that wall clock reads back, through `ExcelDateToTime`, as exactly that wall clock -/
theorem serial_roundtrip_decode (y m d h mi s : Int) (date1904 : Bool) (x : Rat)
    (hv : ValidDate y m d)
    (hr : if date1904 then -24107 ≤ daysFromCivil y m d else -25508 ≤ daysFromCivil y m d)
    (hh0 : 0 ≤ h) (hh : h < 24) (hm0 : 0 ≤ mi) (hm : mi < 60) (hs0 : 0 ≤ s) (hs : s < 60)
    (hx0 : 0 ≤ x)
    (hx : |x - timeToExcelTime (instantOf { y := y, m := m, d := d, h := h, mi := mi, s := s, ns := 0 }) date1904|
      ≤ decTol (timeToExcelTimeNs (instantOf { y := y, m := m, d := d, h := h, mi := mi, s := s, ns := 0 }) date1904
          / 86400000000000)) :
    (excelDateToTime x date1904).map civilOf
      = .ok { y := y, m := m, d := d, h := h, mi := mi, s := s, ns := 0 } := by
  unfold timeToExcelTime at hx
  rw [serial_daycount_closed y m d h mi s date1904 hr hh0 hm0 hs0] at hx
  generalize hDdef : daysFromCivil y m d - (if date1904 then -24107 else -25569) = D at hx
  have hD0 : 0 ≤ D := by
    rw [← hDdef]; cases date1904
    · simp only [Bool.false_eq_true, if_false] at hr ⊢; omega
    · simp only [if_true] at hr ⊢; omega
  have hk0 : 0 ≤ h * 3600 + mi * 60 + s := by omega
  have hk : h * 3600 + mi * 60 + s < 86400 := by omega
  generalize hkdef : h * 3600 + mi * 60 + s = k at *
  have hnD : (D * 86400000000000 + k * 1000000000) / 86400000000000 = D := by omega
  rw [hnD] at hx
  have hd : Facts.C19.dayNanoseconds = 86400000000000 := by decide
  have hq : ((D * 86400000000000 + k * 1000000000 : Int) : Rat) / (Facts.C19.dayNanoseconds : Rat)
      = (D : Rat) + (k : Rat) / 86400 := by
    rw [hd]; push_cast; ring
  rw [hq] at hx
  have hdec := decode_tolerant x date1904 D k hD0 hk0 hk hx
  unfold excelDateToTime
  rw [if_neg (not_lt.mpr hx0)]
  simp only [Except.map]
  rw [hdec]
  obtain ⟨e0, e4, _, _⟩ := epochs_ok
  have hinst : (if date1904 then epoch1904 else epoch1900) + (D * 86400000000000 + k * 1000000000)
      = instantOf { y := y, m := m, d := d, h := h, mi := mi, s := s, ns := 0 } := by
    unfold instantOf; simp only []
    have hns : nsPerSec = 1000000000 := by decide
    rw [hns, ← hDdef, e0, e4]
    cases date1904
    · simp only [Bool.false_eq_true, if_false]; omega
    · simp only [if_true]; omega
  rw [hinst, civilOf_instantOf y m d h mi s hv hh0 hh hm0 hm hs0 hs]

/-- clause "converting a time.Time to a serial number as SetCellValue stores it and back with
ExcelDateToTime returns the same wall-clock date and time to the second, whatever zone", at FULL
strength in both date systems (since the repair of `setCellTime`'s number/text predicate): for every
valid wall clock from 1900-03-01 (1900 system) / 1904-01-01 00:00:00 (1904 system) on — no upper
bound —, every zone offset: the value is stored as the number `timeToExcelTimeNs / dayNanoseconds`,
and every non-negative x within `decTol` of it reads back as exactly the original wall clock.
(`0 ≤ x`: `ExcelDateToTime` rejects negative input; it matters only at serial 0, and the stored value
is never negative, see `serial_roundtrip_stdmodel`.) -/
theorem serial_roundtrip (c : Civil) (off : Int) (date1904 : Bool) (x : Rat) (hw : ValidWall c)
    (hr : if date1904 then -24107 ≤ daysFromCivil c.y c.m c.d else -25508 ≤ daysFromCivil c.y c.m c.d)
    (hx0 : 0 ≤ x)
    (hx : |x - timeToExcelTime (instantOf c) date1904|
      ≤ decTol (timeToExcelTimeNs (instantOf c) date1904 / 86400000000000)) :
    setCellTime (instantOf c - off * nsPerSec) off date1904 = .num (timeToExcelTimeNs (instantOf c) date1904) ∧
    (excelDateToTime x date1904).map civilOf = .ok c := by
  refine ⟨stored_numeric c off date1904 hw hr, ?_⟩
  obtain ⟨hv, h0, h1, m0, m1, s0, s1, hns0⟩ := hw
  have hc : c = { y := c.y, m := c.m, d := c.d, h := c.h, mi := c.mi, s := c.s, ns := 0 } := by
    cases c; simp only [] at hns0; subst hns0; rfl
  have := serial_roundtrip_decode c.y c.m c.d c.h c.mi c.s date1904 x hv hr h0 h1 m0 m1 s0 s1 hx0
    (by rw [← hc]; exact hx)
  rw [← hc] at this
  exact this

/-- in the 1900 system the non-negativity of x follows from the tolerance (the range starts at serial 61) -/
theorem serial_roundtrip_1900 (c : Civil) (off : Int) (x : Rat) (hw : ValidWall c)
    (hr : -25508 ≤ daysFromCivil c.y c.m c.d)
    (hx : |x - timeToExcelTime (instantOf c) false| ≤ decTol (timeToExcelTimeNs (instantOf c) false / 86400000000000)) :
    setCellTime (instantOf c - off * nsPerSec) off false = .num (timeToExcelTimeNs (instantOf c) false) ∧
    (excelDateToTime x false).map civilOf = .ok c := by
  apply serial_roundtrip c off false x hw (by simp only [Bool.false_eq_true, if_false]; exact hr) _ hx
  obtain ⟨hv, h0, h1, m0, m1, s0, s1, hns0⟩ := hw
  have hc : c = { y := c.y, m := c.m, d := c.d, h := c.h, mi := c.mi, s := c.s, ns := 0 } := by
    cases c; simp only [] at hns0; subst hns0; rfl
  have hclosed := serial_daycount_closed c.y c.m c.d c.h c.mi c.s false
    (by simp only [Bool.false_eq_true, if_false]; exact hr) h0 m0 s0
  rw [← hc] at hclosed
  simp only [Bool.false_eq_true, if_false] at hclosed
  have hd : Facts.C19.dayNanoseconds = 86400000000000 := by decide
  unfold timeToExcelTime at hx
  rw [hd] at hx
  have hlo := (abs_le.mp hx).1
  have htol : decTol (timeToExcelTimeNs (instantOf c) false / 86400000000000) ≤ 1 / 262144 := by
    unfold decTol; split
    · rw [pow2_38]; norm_num
    · rw [pow2_18]
  have hbig : (61 : Rat) ≤ ((timeToExcelTimeNs (instantOf c) false : Int) : Rat) / ((86400000000000 : Int) : Rat) := by
    rw [le_div_iff₀ (by norm_num)]
    have : (61 * 86400000000000 : Int) ≤ timeToExcelTimeNs (instantOf c) false := by rw [hclosed]; omega
    exact_mod_cast this
  linarith

/-! ## float layer: the error of the stored value is derived, not assumed -/

/-- "float rounding of the day fraction": `Impl.timeToExcelTimeF` spells out every float64 operation
of `timeToExcelTime` (int→float conversions, the two divisions, three additions, the chunk
accumulator) and is compared bit for bit with the Go function on every `encf` transcript line.
For EVERY rounding function that obeys the standard model |rnd q − q| ≤ 2⁻⁵³·|q| and is exact on
integers up to 2⁵³ (fields of `Rounding`, no axiom), every instant with serial below 2 958 466
(10000-01-01; < 2²²) and both date systems, its result is within `encTol` of the exact serial -/
theorem encode_error (R : Rounding) (t : Int) (date1904 : Bool)
    (hN : timeToExcelTimeNs t date1904 < 2958466 * 86400000000000) :
    |timeToExcelTimeF (ratOps R) t date1904 - timeToExcelTime t date1904|
      ≤ encTol (timeToExcelTimeNs t date1904) :=
  encode_error_bound R t date1904 hN

/-- the two laws are satisfiable (exact arithmetic), and then the float-level function is the exact serial
up to `encTol` trivially; so `encode_error` is not vacuous -/
theorem rounding_satisfiable : ∃ R : Rounding, ∀ q : Rat, R.rnd q = q := ⟨Rounding.exact, fun _ => rfl⟩

/-- the measured/derived encoder bound is inside the decoder's tolerance on both paths -/
theorem encTol_le_decTol (n : Int) : encTol n ≤ decTol (n / 86400000000000) := by
  have hnd : nsPerDay = 86400000000000 := by decide
  unfold encTol decTol
  rw [hnd]
  by_cases h1 : n < 64 * 86400000000000
  · rw [if_pos h1]
    split
    · rw [pow2_40, pow2_38]; norm_num
    · rw [pow2_40, pow2_18]; norm_num
  · rw [if_neg h1, if_neg (by omega), pow2_30, pow2_18]; norm_num

/-- round trip with the float error DERIVED, both date systems, the whole property range
(1900-03-01 resp. 1904-01-01 00:00:00 … 9999-12-31 23:59:59), every clock reading and zone offset:
under the standard model of float64 for the encoder, the value is stored as a number and the float
`timeToExcelTime` computes (never negative) reads back as exactly the original wall clock.
(The decoder is the exact-arithmetic model; its own float roundings stay measured, see design.) -/
theorem serial_roundtrip_stdmodel (R : Rounding) (c : Civil) (off : Int) (date1904 : Bool) (hw : ValidWall c)
    (hr : if date1904 then -24107 ≤ daysFromCivil c.y c.m c.d else -25508 ≤ daysFromCivil c.y c.m c.d)
    (hr2 : daysFromCivil c.y c.m c.d ≤ 2932896) :
    setCellTime (instantOf c - off * nsPerSec) off date1904 = .num (timeToExcelTimeNs (instantOf c) date1904) ∧
    (excelDateToTime (timeToExcelTimeF (ratOps R) (instantOf c) date1904) date1904).map civilOf = .ok c := by
  obtain ⟨hv, h0, h1, m0, m1, s0, s1, hns0⟩ := hw
  have hc : c = { y := c.y, m := c.m, d := c.d, h := c.h, mi := c.mi, s := c.s, ns := 0 } := by
    cases c; simp only [] at hns0; subst hns0; rfl
  have hclosed := serial_daycount_closed c.y c.m c.d c.h c.mi c.s date1904 hr h0 m0 s0
  rw [← hc] at hclosed
  have hN : timeToExcelTimeNs (instantOf c) date1904 < 2958466 * 86400000000000 := by
    rw [hclosed]; cases date1904
    · simp only [Bool.false_eq_true, if_false]; omega
    · simp only [if_true]; omega
  have he := encode_error R (instantOf c) date1904 hN
  exact serial_roundtrip c off date1904 _ ⟨hv, h0, h1, m0, m1, s0, s1, hns0⟩ hr
    (encode_nonneg R (instantOf c) date1904 hN) (le_trans he (encTol_le_decTol _))

/-- "nanosecond fraction with rounding epsilon, Julian path below serial 61" THROUGH THE FLOAT
OPERATIONS: `Impl.timeFromExcelTimeF` spells out every float64 operation of `timeFromExcelTime`
(`x + OFFSET`, the two `Modf`, `shiftJulianToNoon`, `c1day*fraction + 500`; `x − float64(int(x)) + 1e-9`,
`nanosInADay*floatPart`) and is compared with the Go function on arbitrary floats (`decf` lines).
For EVERY rounding function obeying the standard model that is monotone and exact on integers and
half-integers up to 2⁵³ (`Rounding2`, no axiom), every day D ≥ 0, second k, and x < 2²² within
`decTolF D` (2⁻⁴⁰ day up to day 62 — the microsecond rounding leaves ±500 ns, the roundings use
≤ 160 ns —, 2⁻¹⁹ day above) of D + k/86400, the float-level decoder returns exactly day D, second k -/
theorem decode_float_tolerant (R : Rounding2) (x : Rat) (date1904 : Bool) (D k : Int) (hD0 : 0 ≤ D)
    (hk0 : 0 ≤ k) (hk : k < 86400) (hxmax : x ≤ 4194304)
    (hx : |x - ((D : Rat) + (k : Rat) / 86400)| ≤ decTolF D) :
    timeFromExcelTimeF (ratOps2 R) x date1904 =
      (if date1904 then epoch1904 else epoch1900) + (D * 86400000000000 + k * 1000000000) :=
  decodeF_both R x date1904 D k hD0 hk0 hk hxmax hx

/-- the laws of `Rounding2` are satisfiable -/
theorem rounding2_satisfiable : ∃ R : Rounding2, ∀ q : Rat, R.rnd q = q := ⟨Rounding2.exact, fun _ => rfl⟩

/-- THE ROUND TRIP THROUGH THE REAL FLOAT PATH, both date systems, the whole property range
(1900-03-01 resp. 1904-01-01 00:00:00 … 9999-12-31 23:59:59), every clock reading and zone offset:
under the stated model of float64, the value is stored as a number, the stored float x (computed by
the float-level encoder) is not negative — so `ExcelDateToTime` accepts it — and the float-level
decoder reads x back as exactly the original wall clock.  No error bound is assumed any more: the
encoder's (`encode_error`) is inside the decoder's (`decode_float_tolerant`). -/
theorem serial_roundtrip_float (R : Rounding2) (c : Civil) (off : Int) (date1904 : Bool) (hw : ValidWall c)
    (hr : if date1904 then -24107 ≤ daysFromCivil c.y c.m c.d else -25508 ≤ daysFromCivil c.y c.m c.d)
    (hr2 : daysFromCivil c.y c.m c.d ≤ 2932896) :
    setCellTime (instantOf c - off * nsPerSec) off date1904 = .num (timeToExcelTimeNs (instantOf c) date1904) ∧
    0 ≤ timeToExcelTimeF (ratOps R.toRounding) (instantOf c) date1904 ∧
    civilOf (timeFromExcelTimeF (ratOps2 R) (timeToExcelTimeF (ratOps R.toRounding) (instantOf c) date1904) date1904) = c := by
  refine ⟨stored_numeric c off date1904 hw hr, ?_⟩
  obtain ⟨hv, h0, h1, m0, m1, s0, s1, hns0⟩ := hw
  have hc : c = { y := c.y, m := c.m, d := c.d, h := c.h, mi := c.mi, s := c.s, ns := 0 } := by
    cases c; simp only [] at hns0; subst hns0; rfl
  have hclosed := serial_daycount_closed c.y c.m c.d c.h c.mi c.s date1904 hr h0 m0 s0
  rw [← hc] at hclosed
  have hN : timeToExcelTimeNs (instantOf c) date1904 < 2958466 * 86400000000000 := by
    rw [hclosed]; cases date1904
    · simp only [Bool.false_eq_true, if_false]; omega
    · simp only [if_true]; omega
  have he := encode_error R.toRounding (instantOf c) date1904 hN
  refine ⟨encode_nonneg R.toRounding (instantOf c) date1904 hN, ?_⟩
  generalize timeToExcelTimeF (ratOps R.toRounding) (instantOf c) date1904 = x at he
  unfold timeToExcelTime at he
  rw [hclosed] at he
  generalize hDdef : daysFromCivil c.y c.m c.d - (if date1904 then -24107 else -25569) = D at he
  have hD0 : 0 ≤ D := by
    rw [← hDdef]; cases date1904
    · simp only [Bool.false_eq_true, if_false] at hr ⊢; omega
    · simp only [if_true] at hr ⊢; omega
  have hDmax : D ≤ 2958465 := by
    rw [← hDdef]; cases date1904
    · simp only [Bool.false_eq_true, if_false]; omega
    · simp only [if_true]; omega
  have hk0 : 0 ≤ c.h * 3600 + c.mi * 60 + c.s := by omega
  have hk : c.h * 3600 + c.mi * 60 + c.s < 86400 := by omega
  generalize hkdef : c.h * 3600 + c.mi * 60 + c.s = k at *
  have hd : Facts.C19.dayNanoseconds = 86400000000000 := by decide
  have hq : ((D * 86400000000000 + k * 1000000000 : Int) : Rat) / (Facts.C19.dayNanoseconds : Rat)
      = (D : Rat) + (k : Rat) / 86400 := by
    rw [hd]; push_cast; ring
  rw [hq] at he
  -- encTol ≤ decTolF, and x < 2²²
  have htol : encTol (D * 86400000000000 + k * 1000000000) ≤ decTolF D := by
    have hnd : nsPerDay = 86400000000000 := by decide
    unfold encTol decTolF
    rw [hnd]
    by_cases hs : D * 86400000000000 + k * 1000000000 < 64 * 86400000000000
    · rw [if_pos hs]; split
      · exact le_refl _
      · rw [pow2_40, pow2_19]; norm_num
    · rw [if_neg hs, if_neg (by omega), pow2_30, pow2_19]; norm_num
  have hx := le_trans he htol
  have hxmax : x ≤ 4194304 := by
    have hhi := (abs_le.mp he).2
    have hDq : (D : Rat) ≤ 2958465 := by exact_mod_cast hDmax
    have hkq : (k : Rat) / 86400 ≤ 1 := by
      rw [div_le_one (by norm_num)]; exact_mod_cast (show k ≤ 86400 by omega)
    have ht : encTol (D * 86400000000000 + k * 1000000000) ≤ 1 := by
      unfold encTol; split
      · rw [pow2_40]; norm_num
      · rw [pow2_30]; norm_num
    linarith
  rw [decode_float_tolerant R x date1904 D k hD0 hk0 hk hxmax hx]
  obtain ⟨e0, e4, _, _⟩ := epochs_ok
  have hinst : (if date1904 then epoch1904 else epoch1900) + (D * 86400000000000 + k * 1000000000)
      = instantOf { y := c.y, m := c.m, d := c.d, h := c.h, mi := c.mi, s := c.s, ns := 0 } := by
    unfold instantOf; simp only []
    have hns : nsPerSec = 1000000000 := by decide
    rw [hns, ← hDdef, e0, e4]
    cases date1904
    · simp only [Bool.false_eq_true, if_false]; omega
    · simp only [if_true]; omega
  rw [hinst, civilOf_instantOf c.y c.m c.d c.h c.mi c.s hv h0 h1 m0 m1 s0 s1, ← hc]

/-- the round trip through the float path stated on the EXPORTED decoder: `ExcelDateToTime` (its
`< 0` guard as a float64 comparison, `Impl.excelDateToTimeF`, tied by the `edt` transcript op) accepts
the stored float and returns the original wall clock -/
theorem serial_roundtrip_api (R : Rounding2) (c : Civil) (off : Int) (date1904 : Bool) (hw : ValidWall c)
    (hr : if date1904 then -24107 ≤ daysFromCivil c.y c.m c.d else -25508 ≤ daysFromCivil c.y c.m c.d)
    (hr2 : daysFromCivil c.y c.m c.d ≤ 2932896) :
    setCellTime (instantOf c - off * nsPerSec) off date1904 = .num (timeToExcelTimeNs (instantOf c) date1904) ∧
    (excelDateToTimeF (ratOps2 R) (timeToExcelTimeF (ratOps R.toRounding) (instantOf c) date1904) date1904).map civilOf
      = .ok c := by
  obtain ⟨h1, h2, h3⟩ := serial_roundtrip_float R c off date1904 hw hr hr2
  refine ⟨h1, ?_⟩
  unfold excelDateToTimeF
  have hlt : (ratOps2 R).lt (timeToExcelTimeF (ratOps R.toRounding) (instantOf c) date1904) ((ratOps2 R).ofInt 0) = false := by
    show decide (_ < R.rnd ((0 : Int) : Rat)) = false
    rw [rnd_zero R.toRounding]
    simp only [Int.cast_zero, decide_eq_false_iff_not, not_lt]
    exact h2
  rw [hlt]
  simp only [Bool.false_eq_true, if_false, Except.map]
  rw [h3]

/-! ## glue: the workbook's date-system flag, the default style, Duration cells -/

/-- the glue functions are the transcribed ones: the flag is read from `wb.WorkbookPr.Date1904` when
present, `setCellTime` gets that flag, the default style is applied only `if isNum`, style index 0
gets a fresh style and any other style is copied with `NumFmt` replaced, the number-format choice
and `setCellDuration`'s float32 formatting are as modelled -/
theorem skeleton_glue_ok :
    "if wb != nil && wb.WorkbookPr != nil" ∈ Facts.C19.condsSetCellTimeFunc ∧
    "if isNum" ∈ Facts.C19.condsSetCellTimeFunc ∧
    "if styleIdx == 0" ∈ Facts.C19.condsSetDefaultTimeStyle ∧
    Facts.C19.condsGetTimeNumFmt =
      ["if t.Day() == 1 && nextMonth.Day() == 1",
       "if t.Hour() == 0 && t.Minute() == 0 && t.Second() == 0 && t.Nanosecond() == 0"] ∧
    Facts.C19.condsGetDurationNumFmt = ["if d >= time.Hour*24", "if d.Minutes() == float64(int(d.Minutes()))"] ∧
    Facts.C19.stmtsGlue =
      ["setCellTimeFunc: date1904 = wb.WorkbookPr.Date1904",
       "setCellTimeFunc: isNum, err = c.setCellTime(value, date1904)",
       "getTimeNumFmt: nextMonth := t.AddDate(0, 1, 0)", "getTimeNumFmt: return 17", "getTimeNumFmt: return 14",
       "getTimeNumFmt: return 22", "getDurationNumFmt: return 46", "getDurationNumFmt: return 20",
       "getDurationNumFmt: return 21",
       "setCellDuration: v = strconv.FormatFloat(value.Seconds()/86400, 'f', -1, 32)",
       "setDefaultTimeStyle: styleIdx, _ = f.NewStyle(&Style{NumFmt: format})",
       "setDefaultTimeStyle: style.NumFmt = format", "setDefaultTimeStyle: styleIdx, _ = f.NewStyle(style)"] := by
  decide

/-- "as SetCellValue stores it": the serial a cell gets is computed with the WORKBOOK's date-system
flag (1900 system when the workbook has no properties), whatever style the cell had -/
theorem cell_uses_workbook_flag (wb : Option Bool) (cur : Option CellStyle) (utc off : Int) (wall : Civil) :
    (setCellTimeFunc wb cur utc off wall).1 = setCellTime utc off (wb.getD false) := by
  unfold setCellTimeFunc
  cases wb <;> simp only [Option.getD] <;> split <;> rename_i h <;> rw [h]

/-- written and read with the same workbook flag, a wall clock of the range comes back; read with the
other flag it comes back shifted by exactly 1462 days (the distance of the two epochs) — for every x
within `decTol` of the exact serial -/
theorem flag_mismatch_shift (x : Rat) (D k : Int) (hD0 : 0 ≤ D) (hk0 : 0 ≤ k) (hk : k < 86400)
    (hx : |x - ((D : Rat) + (k : Rat) / 86400)| ≤ decTol D) :
    timeFromExcelTime x true = timeFromExcelTime x false + 1462 * nsPerDay := by
  rw [decode_tolerant x true D k hD0 hk0 hk hx, decode_tolerant x false D k hD0 hk0 hk hx]
  obtain ⟨e0, e4, _, _⟩ := epochs_ok
  simp only [if_true, Bool.false_eq_true, if_false]
  have hnd : nsPerDay = 86400000000000 := by decide
  rw [e0, e4, hnd]; omega

/-- the default style: number format 17 on the first of a month, else 14 at midnight, else 22; applied
only when a number was stored; a cell without style gets exactly that format -/
theorem default_style (wb : Option Bool) (utc off : Int) (wall : Civil) (hv : ValidDate wall.y wall.m wall.d) (n : Int)
    (hnum : setCellTime utc off (wb.getD false) = .num n) :
    (setCellTimeFunc wb none utc off wall).2 =
      some { numFmt := if wall.d = 1 then 17 else if wall.h = 0 ∧ wall.mi = 0 ∧ wall.s = 0 ∧ wall.ns = 0 then 14 else 22,
             custom := false, bold := false } := by
  unfold setCellTimeFunc
  cases wb <;> simp only [Option.getD] at hnum <;>
    simp only [hnum, setDefaultTimeStyle, getTimeNumFmt_eq wall hv]

/-- an existing style keeps everything but its built-in number format; a custom number format is
kept as it is; and when text is stored (before the first instant of the system) the style is untouched -/
theorem existing_style_kept (wb : Option Bool) (st : CellStyle) (utc off : Int) (wall : Civil) :
    (∀ n, setCellTime utc off (wb.getD false) = .num n →
      ∃ st', (setCellTimeFunc wb (some st) utc off wall).2 = some st' ∧ st'.bold = st.bold ∧ st'.custom = st.custom ∧
        (st.custom = true → st' = st) ∧ (st.custom = false → st'.numFmt = getTimeNumFmt wall)) ∧
    (setCellTime utc off (wb.getD false) = .text → (setCellTimeFunc wb (some st) utc off wall).2 = some st) := by
  cases wb <;> simp only [Option.getD] <;> constructor
  all_goals first
    | (intro n hnum
       unfold setCellTimeFunc
       simp only [hnum, setDefaultTimeStyle]
       by_cases hc : st.custom = true
       · rw [if_pos hc]; exact ⟨st, rfl, rfl, rfl, fun _ => rfl, fun h => by rw [hc] at h; cases h⟩
       · rw [if_neg hc]
         exact ⟨_, rfl, rfl, rfl, fun h => absurd h hc, fun _ => rfl⟩)
    | (intro htext
       unfold setCellTimeFunc
       simp only [htext])

/-- Duration cells (`setCellDuration`: seconds/86400 formatted with float32 precision): every
whole-second duration below 2²² s = 48.5 days is identified to the second by every value within
the float32 tolerance (relative 2⁻²³, measured on every `dur` line); number format 46 `[h]:mm:ss`
from 24 h, 20 for whole minutes, else 21.  `_partial`: beyond ≈ 48 days the float32 text no longer
determines the second (`duration_bound_sharp`: 200 days + 1 s may read 2 s late) -/
theorem duration_roundtrip_partial (k : Int) (x : Rat) (hk0 : 0 ≤ k) (hk : k < 4194304)
    (hx : |x - durationSerial (k * 1000000000)| ≤ durTol (k * 1000000000)) :
    ⌊x * 86400 + 1 / 2⌋ = k ∧
    getDurationNumFmt (k * 1000000000) = (if k ≥ 86400 then 46 else if k % 60 = 0 then 20 else 21) := by
  refine ⟨duration_nearest_second k x hk0 hk hx, ?_⟩
  rw [getDurationNumFmt_eq]
  by_cases h : k ≥ 86400
  · rw [if_pos (by omega), if_pos h]
  · rw [if_neg (by omega), if_neg h]
    by_cases h2 : k % 60 = 0
    · rw [if_pos (by omega), if_pos h2]
    · rw [if_neg (by omega), if_neg h2]

/-- the hypothesis `k < 2²²` of `duration_roundtrip_partial` cannot simply be dropped -/
theorem duration_precision_witness :
    ∃ x : Rat, |x - durationSerial (17280001 * 1000000000)| ≤ durTol (17280001 * 1000000000) ∧
      ⌊x * 86400 + 1 / 2⌋ = 17280003 :=
  duration_bound_sharp

/-- the day-count clause on the float path: the float64 `timeToExcelTime` computes for a valid wall
clock (year ≥ 1900 resp. 1904, up to 9999-12-31) is within `encTol` of Excel's day count
(`Spec.serialSeconds`: summation count with the fictitious 1900-02-29, plus the seconds) / 86400 -/
theorem serial_daycount_float (R : Rounding) (c : Civil) (date1904 : Bool) (hw : ValidWall c)
    (hy : if date1904 then 1904 ≤ c.y else 1900 ≤ c.y) (hr2 : daysFromCivil c.y c.m c.d ≤ 2932896) :
    |timeToExcelTimeF (ratOps R) (instantOf c) date1904
        - (Spec.serialSeconds date1904 c.y c.m c.d c.h c.mi c.s : Rat) / 86400|
      ≤ encTol (timeToExcelTimeNs (instantOf c) date1904) := by
  obtain ⟨hv, h0, h1, m0, m1, s0, s1, hns0⟩ := hw
  have hc : c = { y := c.y, m := c.m, d := c.d, h := c.h, mi := c.mi, s := c.s, ns := 0 } := by
    cases c; simp only [] at hns0; subst hns0; rfl
  have hcount := serial_daycount c.y c.m c.d c.h c.mi c.s date1904 hv hy h0 h1 m0 m1 s0 s1
  rw [← hc] at hcount
  have hN : timeToExcelTimeNs (instantOf c) date1904 < 2958466 * 86400000000000 := by
    obtain ⟨_, e4, emin, eb⟩ := epochs_ok
    rw [serial_exact, e4, emin, eb]
    unfold instantOf
    have hns : nsPerSec = 1000000000 := by decide
    rw [hns, hns0]
    cases date1904
    · simp only [Bool.false_eq_true, if_false]
      split
      · omega
      · split <;> omega
    · simp only [if_true]
      split <;> omega
  have he := encode_error R (instantOf c) date1904 hN
  unfold timeToExcelTime at he
  have hd : Facts.C19.dayNanoseconds = 86400000000000 := by decide
  have hq : ((timeToExcelTimeNs (instantOf c) date1904 : Int) : Rat) / (Facts.C19.dayNanoseconds : Rat)
      = (Spec.serialSeconds date1904 c.y c.m c.d c.h c.mi c.s : Rat) / 86400 := by
    rw [hcount, hd]; push_cast; field_simp; ring
  rw [hq] at he
  exact he

/-- the monotonicity clause on the float path: a later wall clock (from the first day of the
system to 9999-12-31) gets a strictly larger float64, for every rounding function of the standard model -/
theorem serial_monotone_float (R : Rounding) (a b : Civil) (date1904 : Bool) (ha : ValidWall a) (hb : ValidWall b)
    (h : WallLt a b)
    (h0 : if date1904 then -24107 ≤ daysFromCivil a.y a.m a.d else -25568 ≤ daysFromCivil a.y a.m a.d)
    (hb2 : daysFromCivil b.y b.m b.d ≤ 2932896) :
    timeToExcelTimeF (ratOps R) (instantOf a) date1904 < timeToExcelTimeF (ratOps R) (instantOf b) date1904 := by
  have hNb : timeToExcelTimeNs (instantOf b) date1904 < 2958466 * 86400000000000 := by
    obtain ⟨_, b1, b2, b3, b4, b5, b6, b7⟩ := hb
    obtain ⟨_, e4, emin, eb⟩ := epochs_ok
    rw [serial_exact, e4, emin, eb]
    unfold instantOf
    have hns : nsPerSec = 1000000000 := by decide
    rw [hns, b7]
    cases date1904
    · simp only [Bool.false_eq_true, if_false]
      split
      · omega
      · split <;> omega
    · simp only [if_true]
      split <;> omega
  have hNa : timeToExcelTimeNs (instantOf a) date1904 < 2958466 * 86400000000000 :=
    lt_of_le_of_lt (serial_monotone_wallclock a b date1904 ha hb h) hNb
  have tol30 : ∀ n : Int, encTol n ≤ pow2 30 := by
    intro n; unfold encTol; split
    · rw [pow2_40, pow2_30]; norm_num
    · exact le_refl _
  exact (serial_strict_monotone_wallclock a b date1904 _ _ ha hb h h0
    (le_trans (encode_error R (instantOf a) date1904 hNa) (tol30 _))
    (le_trans (encode_error R (instantOf b) date1904 hNb) (tol30 _))).2

/-! ## from SetCellValue(time) to the rendered text (composition with C10's number-format model) -/

/-- clause "so a date written by excelize renders as the same calendar date under a date format",
as ONE composed statement from `SetCellValue(time.Time)` to the text `GetCellValue` returns:
for every rounding function of `Rounding2`, both date systems (the workbook's flag), every valid wall
clock c from 1900-03-01 / 1904-01-01 00:00:00 to 9999-12-31 23:59:59, every zone offset, an unstyled cell:
* the cell stores the number and gets the default style `getTimeNumFmt c` (17 / 14 / 22);
* for the stored float x and every x' within 5·10⁻¹⁵·x of it (the reader cuts the text to 15 significant
  digits; measured on every `rend` line), C10's `dateTimeHandler` on C19's decoder (`DateRender.render`)
  prints, under `yyyy-mm-dd hh:mm:ss`, format 14 `mm-dd-yy`, 17 `mmm-yy` and 22 `m/d/yy hh:mm`, exactly
  the fields of c. -/
theorem written_time_renders (R : Rounding2) (c : Civil) (off : Int) (date1904 : Bool) (x' : Rat) (hw : ValidWall c)
    (hr : if date1904 then -24107 ≤ daysFromCivil c.y c.m c.d else -25508 ≤ daysFromCivil c.y c.m c.d)
    (hr2 : daysFromCivil c.y c.m c.d ≤ 2932896)
    (hx' : |x' - timeToExcelTimeF (ratOps R.toRounding) (instantOf c) date1904|
      ≤ timeToExcelTimeF (ratOps R.toRounding) (instantOf c) date1904 * (5 / 1000000000000000)) :
    setCellTimeFunc (some date1904) none (instantOf c - off * nsPerSec) off c
      = (.num (timeToExcelTimeNs (instantOf c) date1904),
         some { numFmt := getTimeNumFmt c, custom := false, bold := false }) ∧
    DateRender.render DateRender.itemsIso x' date1904 =
      .ok (NumFmt.itoaInt c.y ++ ['-'] ++ NumFmt.pad2 c.m.toNat ++ ['-'] ++ NumFmt.pad2 c.d.toNat ++ [' '] ++
        NumFmt.pad2 c.h.toNat ++ [':'] ++ NumFmt.pad2 c.mi.toNat ++ [':'] ++ NumFmt.pad2 c.s.toNat) ∧
    DateRender.render DateRender.items14 x' date1904 =
      .ok (NumFmt.pad2 c.m.toNat ++ ['-'] ++ NumFmt.pad2 c.d.toNat ++ ['-'] ++ DateRender.yy c.y) ∧
    DateRender.render DateRender.items17 x' date1904 =
      .ok (DateRender.month3En c.m.toNat ++ ['-'] ++ DateRender.yy c.y) ∧
    DateRender.render DateRender.items22 x' date1904 =
      .ok (NumFmt.itoa c.m.toNat ++ ['/'] ++ NumFmt.itoa c.d.toNat ++ ['/'] ++ DateRender.yy c.y ++ [' '] ++
        NumFmt.pad2 c.h.toNat ++ [':'] ++ NumFmt.pad2 c.mi.toNat) := by
  have hstored := stored_numeric c off date1904 hw hr
  obtain ⟨hv, h0, h1, m0, m1, s0, s1, hns0⟩ := hw
  have hc : c = { y := c.y, m := c.m, d := c.d, h := c.h, mi := c.mi, s := c.s, ns := 0 } := by
    cases c; simp only [] at hns0; subst hns0; rfl
  refine ⟨?_, ?_⟩
  · unfold setCellTimeFunc
    simp only [hstored, setDefaultTimeStyle]
  -- the exact serial and the float error
  have hclosed := serial_daycount_closed c.y c.m c.d c.h c.mi c.s date1904 hr h0 m0 s0
  rw [← hc] at hclosed
  have hN : timeToExcelTimeNs (instantOf c) date1904 < 2958466 * 86400000000000 := by
    rw [hclosed]; cases date1904
    · simp only [Bool.false_eq_true, if_false]; omega
    · simp only [if_true]; omega
  have he := encode_error R.toRounding (instantOf c) date1904 hN
  generalize timeToExcelTimeF (ratOps R.toRounding) (instantOf c) date1904 = x at he hx'
  unfold timeToExcelTime at he
  rw [hclosed] at he
  generalize hDdef : daysFromCivil c.y c.m c.d - (if date1904 then -24107 else -25569) = D at he
  have hD0 : 0 ≤ D := by
    rw [← hDdef]; cases date1904
    · simp only [Bool.false_eq_true, if_false] at hr ⊢; omega
    · simp only [if_true] at hr ⊢; omega
  have hDmax : D ≤ 2958465 := by
    rw [← hDdef]; cases date1904
    · simp only [Bool.false_eq_true, if_false]; omega
    · simp only [if_true]; omega
  have hk0 : 0 ≤ c.h * 3600 + c.mi * 60 + c.s := by omega
  have hk : c.h * 3600 + c.mi * 60 + c.s < 86400 := by omega
  generalize hkdef : c.h * 3600 + c.mi * 60 + c.s = k at *
  have hd : Facts.C19.dayNanoseconds = 86400000000000 := by decide
  have hq : ((D * 86400000000000 + k * 1000000000 : Int) : Rat) / (Facts.C19.dayNanoseconds : Rat)
      = (D : Rat) + (k : Rat) / 86400 := by
    rw [hd]; push_cast; ring
  rw [hq] at he
  have hDq0 : (0 : Rat) ≤ (D : Rat) := by exact_mod_cast hD0
  have hDqmax : (D : Rat) ≤ 2958465 := by exact_mod_cast hDmax
  have hkq0 : (0 : Rat) ≤ (k : Rat) / 86400 := by
    apply div_nonneg _ (by norm_num); exact_mod_cast hk0
  have hkq1 : (k : Rat) / 86400 ≤ 1 := by
    rw [div_le_one (by norm_num)]; exact_mod_cast (show k ≤ 86400 by omega)
  have hx : |x' - ((D : Rat) + (k : Rat) / 86400)| ≤ decTol D := by
    have hnd : nsPerDay = 86400000000000 := by decide
    obtain ⟨a1, a2⟩ := abs_le.mp hx'
    unfold encTol at he
    rw [hnd] at he
    unfold decTol
    by_cases hD62 : D ≤ 62
    · rw [if_pos hD62, pow2_38]
      rw [if_pos (by omega), pow2_40] at he
      obtain ⟨b1, b2⟩ := abs_le.mp he
      have hDq : (D : Rat) ≤ 62 := by exact_mod_cast hD62
      rw [abs_le]; constructor <;> linarith
    · rw [if_neg hD62, pow2_18]
      have he' : |x - ((D : Rat) + (k : Rat) / 86400)| ≤ 1 / 1073741824 := by
        refine le_trans he ?_
        split
        · rw [pow2_40]; norm_num
        · rw [pow2_30]
      obtain ⟨b1, b2⟩ := abs_le.mp he'
      rw [abs_le]; constructor <;> linarith
  have hdec := decode_tolerant x' date1904 D k hD0 hk0 hk hx
  -- the fields C10's handlers read
  have hday : NumFmt.epochDay date1904 + D = daysFromCivil c.y c.m c.d := by
    unfold NumFmt.epochDay; rw [← hDdef]; omega
  have ht0 : ∀ l0 l1, (NumFmt.dateInOfSerial x' date1904 l0 l1).t0 =
      { year := c.y, month := c.m.toNat, day := c.d.toNat, hour := c.h.toNat, minute := c.mi.toNat,
        second := c.s.toNat, nano := 0, elapsedSec := D * 86400 + k } := by
    intro l0 l1
    unfold NumFmt.dateInOfSerial
    simp only [hdec]
    rw [NumFmt.timeFOfInstant_eval date1904 D k hk0 hk]
    unfold NumFmt.civilTimeF
    simp only [hday, civil_roundtrip_date c.y c.m c.d hv]
    have e1 : k / 3600 = c.h := by omega
    have e2 : k % 3600 / 60 = c.mi := by omega
    have e3 : k % 60 = c.s := by omega
    rw [e1, e2, e3]
  have hyr : ∀ l0 l1, NumFmt.YearOK (NumFmt.dateInOfSerial x' date1904 l0 l1).t0 := by
    intro l0 l1
    apply NumFmt.yearOK_of_ge
    rw [ht0]
    have := NumFmt.year_ge_1600 date1904 D hD0
    rw [hday, civil_roundtrip_date c.y c.m c.d hv] at this
    simp only [] at this ⊢; omega
  have hmonth : (NumFmt.timeFOfInstant (timeFromExcelTime x' date1904) date1904).month = c.m.toNat := by
    have := ht0 (fun _ => DateRender.enLocale 0) (fun _ => DateRender.enLocale 0)
    unfold NumFmt.dateInOfSerial at this
    simp only [] at this
    rw [this]
  unfold DateRender.render
  simp only [hmonth]
  refine ⟨?_, ?_, ?_, ?_⟩
  · rw [DateRender.rIso _ _ (by rw [ht0]; show (0 : Nat) < 500000000; omega), ht0]
  · rw [DateRender.r14 _ _ (by rw [ht0]; show (0 : Nat) < 500000000; omega) (hyr _ _), ht0]
  · rw [DateRender.r17 _ _ (by rw [ht0]; show (0 : Nat) < 500000000; omega) (hyr _ _), ht0]
    rfl
  · rw [DateRender.r22 _ _ (by rw [ht0]; show (0 : Nat) < 500000000; omega) (hyr _ _), ht0]

/-- FIXED (known_findings.d key `enc:zero-serial-stored-as-text`): in the 1904 system the first
instant of the range, 1904-01-01T00:00:00, read in any zone, is now stored as the number 0 (it used to
be stored as text because `isNum = excelTime > 0` confused serial 0 with "before the epoch"), and 0
reads back as 1904-01-01T00:00:00 -/
theorem fixed_epoch1904_midnight_is_zero (off : Int) :
    setCellTime (instantOf { y := 1904, m := 1, d := 1, h := 0, mi := 0, s := 0, ns := 0 } - off * nsPerSec)
      off true = .num 0 ∧
    (excelDateToTime 0 true).map civilOf = .ok { y := 1904, m := 1, d := 1, h := 0, mi := 0, s := 0, ns := 0 } := by
  have hw : ValidWall { y := 1904, m := 1, d := 1, h := 0, mi := 0, s := 0, ns := 0 } := by
    refine ⟨by decide, by decide, by decide, by decide, by decide, by decide, by decide, rfl⟩
  have hz : timeToExcelTimeNs (instantOf { y := 1904, m := 1, d := 1, h := 0, mi := 0, s := 0, ns := 0 }) true = 0 := by
    rw [serial_exact]; decide
  have h := serial_roundtrip { y := 1904, m := 1, d := 1, h := 0, mi := 0, s := 0, ns := 0 } off true 0 hw
    (by decide) (le_refl 0)
    (by unfold timeToExcelTime; rw [hz]
        simp only [Int.cast_zero, zero_div, sub_self, abs_zero, Int.zero_ediv]
        unfold decTol; rw [if_pos (by decide), pow2_38]; norm_num)
  rw [hz] at h
  exact h

/-! ## round 5: the two date systems against each other, and the fictitious 1900-02-29 -/

/-- offset law of the two date systems: the exact 1900-system serial of an instant is its 1904-system
serial plus exactly 1462 days — 1461 calendar days from 1899-12-31 to 1904-01-01 plus the fictitious
1900-02-29 — for EVERY instant from 1904-01-01T00:00:00 on, and for no earlier instant (there the 1904
encoder returns 0) -/
theorem system_offset_law (t : Int) :
    timeToExcelTimeNs t false = timeToExcelTimeNs t true + 1462 * 86400000000000 ↔ epoch1904 ≤ t := by
  obtain ⟨_, e4, emin, eb⟩ := epochs_ok
  rw [serial_exact, serial_exact, e4, emin, eb]
  simp only [Bool.false_eq_true, if_false, if_true]
  constructor
  · intro h
    split at h <;> split at h <;> (try split at h) <;> omega
  · intro h
    split <;> split <;> (try split) <;> omega

/-- the 1900 leap-year quirk as a boundary statement: an instant gets a serial below 60 exactly when it
is not after 1900-02-28T23:59:59.999999999 (`excelBuggyPeriodStart`), and a serial of at least 61 exactly
when it is after it; hence no instant is mapped into day 60 (the fictitious 1900-02-29), 59 ↦ 61 is the
only jump. The 1904 system has no such gap: every non-negative serial n (in ns) is the serial of the
instant epoch + n. -/
theorem leap_quirk_boundary :
    (∀ t : Int, timeToExcelTimeNs t false < 60 * 86400000000000 ↔ t ≤ buggyStart) ∧
    (∀ t : Int, 61 * 86400000000000 ≤ timeToExcelTimeNs t false ↔ buggyStart < t) ∧
    (∀ t : Int, ¬ (60 * 86400000000000 ≤ timeToExcelTimeNs t false ∧
        timeToExcelTimeNs t false < 61 * 86400000000000)) ∧
    (∀ n : Int, 0 ≤ n → timeToExcelTimeNs (epoch1904 + n) true = n) := by
  obtain ⟨_, e4, emin, eb⟩ := epochs_ok
  have h1 : ∀ t : Int, timeToExcelTimeNs t false < 60 * 86400000000000 ↔ t ≤ buggyStart := by
    intro t
    rw [serial_exact, emin, eb]
    simp only [Bool.false_eq_true, if_false]
    constructor
    · intro h; split at h <;> (try split at h) <;> omega
    · intro h; split <;> (try split) <;> omega
  have h2 : ∀ t : Int, 61 * 86400000000000 ≤ timeToExcelTimeNs t false ↔ buggyStart < t := by
    intro t
    rw [serial_exact, emin, eb]
    simp only [Bool.false_eq_true, if_false]
    constructor
    · intro h; split at h <;> (try split at h) <;> omega
    · intro h; split <;> omega
  refine ⟨h1, h2, ?_, ?_⟩
  · intro t ⟨ha, hb⟩
    have := (h1 t).not
    have := (h2 t).not
    omega
  · intro n hn
    rw [serial_exact, e4]
    simp only [if_true]
    split <;> omega

/-! ## non-vacuity -/

/-- the hypotheses of `serial_roundtrip` are satisfiable (2024-02-29 23:59:59 in a −09:30
zone, stored exactly) and the tolerances are positive -/
theorem roundtrip_nonvacuous :
    ValidDate 2024 2 29 ∧ (-25508 : Int) ≤ daysFromCivil 2024 2 29 ∧
    setCellTime (instantOf { y := 2024, m := 2, d := 29, h := 23, mi := 59, s := 59, ns := 0 } - (-34200) * nsPerSec)
      (-34200) false = .num (45351 * 86400000000000 + 86399 * 1000000000) ∧
    (0 : Rat) < decTol 45351 ∧ (0 : Rat) < decTol 61 ∧ encTol (45351 * 86400000000000) < decTol 45351 ∧
    encTol (61 * 86400000000000) < decTol 61 := by
  refine ⟨by decide, by decide, ?_, ?_, ?_, ?_, ?_⟩
  · rw [setCellTime_wall, serial_exact]; decide
  · unfold decTol; rw [if_neg (by decide), pow2_18]; norm_num
  · unfold decTol; rw [if_pos (by decide), pow2_38]; norm_num
  · unfold decTol encTol; rw [if_neg (by decide), if_neg (by decide), pow2_18, pow2_30]; norm_num
  · unfold decTol encTol; rw [if_pos (by decide), if_pos (by decide), pow2_38, pow2_40]; norm_num

end XlModel.Props.C19
