import XlModel.Date
namespace XlModel.Props.C19
open XlModel XlModel.Date

theorem placeholder : (1 : Nat) = 1 := rfl

end XlModel.Props.C19
