/-
C20 — Cell, column and range reference codecs are exact inverses, strictly
validated.  Property theorems only; helper lemmas are in `Lemmas/Ref*.lean`.

Every theorem is about `XlModel.Ref` (the transcription of lib.go) over the
regenerated constants `Facts.MaxColumns`, `Facts.MinColumns`, `Facts.TotalRows`;
`limits_ok` pins the values the arithmetic below relies on, so an edit of the
constants in templates.go breaks this file.
-/
import XlModel.Lemmas.Ref2

namespace XlModel.Props.C20
open XlModel XlModel.Ref

/-- the regenerated limits are the ones the proofs were written for -/
theorem limits_ok :
    Facts.MaxColumns = 16384 ∧ Facts.MinColumns = 1 ∧ Facts.TotalRows = 1048576 := by decide

/-! ## Columns: mutually inverse bijections 1..16384 ↔ A..XFD -/

/-- number → name → number, for every column in range -/
theorem col_encode_decode (n : Nat) (h1 : 1 ≤ n) (h2 : n ≤ Facts.MaxColumns) :
    columnNumberToName (n : Int) = .ok (numToName n) ∧
    columnNameToNumber (numToName n) = .ok (n : Int) := by
  have hM := limits_ok
  constructor
  · unfold columnNumberToName
    have a : ¬ ((n : Int) < (Facts.MinColumns : Int)) := by rw [hM.2.1]; omega
    have b : ¬ ((n : Int) > (Facts.MaxColumns : Int)) := by omega
    simp [a, b]
  · unfold columnNameToNumber
    have hne := numToName_ne_nil h1
    have : (numToName n).isEmpty = false := by simpa [List.isEmpty_iff] using hne
    simp only [this, Bool.false_eq_true, if_false, colRaw_numToName]
    have hw : wrap64 (n : Int) = n := wrap64_small (by omega) (by rw [hM.1] at h2; omega)
    simp only [hw]
    have : ¬ ((n : Int) > (Facts.MaxColumns : Int)) := by omega
    simp [this]

/-- the encoder is injective (on all naturals, not only in range) -/
theorem col_encode_injective (m n : Nat) (h : numToName m = numToName n) : m = n := by
  have a := colRaw_numToName m
  rw [h, colRaw_numToName n] at a
  exact (Option.some.inj a).symm

/-- every produced name is 1..3 upper-case letters… (letters: all `n`) -/
theorem col_encode_upper (n : Nat) : ∀ c ∈ numToName n, isUp c = true := numToName_upper n

/-- name → number → name: every accepted name of at most 13 letters decodes
into 1..MaxColumns and encodes back to its upper-case form. -/
theorem col_decode_encode (name : List Char) (hl : name.length ≤ 13) (c : Int)
    (h : columnNameToNumber name = .ok c) :
    1 ≤ c ∧ c ≤ (Facts.MaxColumns : Int) ∧ columnNumberToName c = .ok (name.map toUpper) := by
  have hM := limits_ok
  unfold columnNameToNumber at h
  split at h
  · cases h
  · rename_i hne
    split at h
    · cases h
    · rename_i v hv
      have hlt := colRaw_lt_of_short hv hl
      have hw : wrap64 (v : Int) = v := wrap64_small (by omega) (by omega)
      simp only [hw] at h
      split at h
      · cases h
      · rename_i hmax
        simp only [Except.ok.injEq] at h
        subst h
        have hne' : name ≠ [] := by
          intro e; subst e; simp at hne
        have ⟨_, _, hpos⟩ := colRawAux_bound hv
        have h1 : 1 ≤ v := hpos hne'
        refine ⟨by omega, by omega, ?_⟩
        unfold columnNumberToName
        have a : ¬ ((v : Int) < (Facts.MinColumns : Int)) := by rw [hM.2.1]; omega
        simp only [a, hmax, decide_false, Bool.or_self, Bool.false_eq_true, if_false, Int.toNat_natCast]
        have hu : colRaw (name.map toUpper) = some v := by
          unfold colRaw; rw [colRawAux_toUpper]; exact hv
        have hup : ∀ ch ∈ name.map toUpper, isUp ch = true := by
          intro ch hch
          obtain ⟨x, hx, rfl⟩ := List.mem_map.mp hch
          exact (toUpper_letter_val (colRawAux_some_letters hv x hx)).1
        rw [numToName_of_colRaw hup hu]

/-- case-insensitivity -/
theorem col_case_insensitive (name : List Char) :
    columnNameToNumber (name.map toUpper) = columnNameToNumber name := by
  unfold columnNameToNumber colRaw
  rw [colRawAux_toUpper]
  simp

/-- no accepted column is above the limit; with ≤ 13 letters none is below 1.
(Without the length bound the lower bound is false: `finding_colname_overflow`.) -/
theorem col_decode_le_max (name : List Char) (c : Int) (h : columnNameToNumber name = .ok c) :
    c ≤ (Facts.MaxColumns : Int) := by
  unfold columnNameToNumber at h
  split at h
  · cases h
  · split at h
    · cases h
    · dsimp only at h
      split at h
      · cases h
      · rename_i hmax
        simp only [Except.ok.injEq] at h
        omega

/-! ## Cells: inverse over the whole grid, absolute forms included -/

theorem sign_pre_alpha (abs : Bool) (name : List Char) (hn : ∀ c ∈ name, isLetter c = true) :
    ∀ c ∈ ((if abs then ['$'] else []) ++ name ++ (if abs then ['$'] else []) : List Char),
      isAlpha c = true := by
  intro c hc
  simp only [List.mem_append] at hc
  rcases hc with (hc | hc) | hc
  · cases abs <;> simp at hc; subst hc; decide
  · exact isLetter_alpha (hn c hc)
  · cases abs <;> simp at hc; subst hc; decide

theorem sign_pre_filter (abs : Bool) (name : List Char) (hn : ∀ c ∈ name, isLetter c = true) :
    ((if abs then ['$'] else []) ++ name ++ (if abs then ['$'] else []) : List Char).filter
      (fun c => !isDollar c) = name := by
  have hf : name.filter (fun c => !isDollar c) = name := by
    apply List.filter_eq_self.mpr
    intro c hc; simp [isLetter_not_dollar (hn c hc)]
  cases abs
  · simp [hf]
  · have d : isDollar '$' = true := by decide
    simp [List.filter_append, hf, d]

/-- the encoder's output, explicitly -/
theorem cell_encode_eq (c r : Nat) (abs : Bool) (hc1 : 1 ≤ c) (hc2 : c ≤ Facts.MaxColumns)
    (hr1 : 1 ≤ r) (hr2 : r ≤ Facts.TotalRows) :
    coordinatesToCellName (c : Int) (r : Int) abs =
      .ok ((if abs then ['$'] else []) ++ numToName c ++ (if abs then ['$'] else []) ++ itoaAux r) := by
  have ⟨hname, _⟩ := col_encode_decode c hc1 hc2
  unfold coordinatesToCellName
  have a : ¬ ((c : Int) < 1) := by omega
  have b : ¬ ((r : Int) < 1) := by omega
  have d : ¬ ((r : Int) > (Facts.TotalRows : Int)) := by omega
  simp only [a, b, d, decide_false, Bool.or_self, Bool.false_eq_true, if_false, hname]
  rw [itoaInt_pos (by omega)]
  simp

/-- decoding `$?LETTERS$?DIGITS` built from an in-range column name and row -/
theorem cell_decode_eq (name : List Char) (c r : Nat) (abs : Bool) (hne : name ≠ [])
    (hl : ∀ ch ∈ name, isLetter ch = true) (hcol : columnNameToNumber name = .ok (c : Int))
    (hr1 : 1 ≤ r) (hr2 : r ≤ Facts.TotalRows) :
    cellNameToCoordinates
      ((if abs then ['$'] else []) ++ name ++ (if abs then ['$'] else []) ++ itoaAux r) =
      .ok ((c : Int), (r : Int)) := by
  have hM := limits_ok
  have hpre : ((if abs then ['$'] else []) ++ name ++ (if abs then ['$'] else []) : List Char) ≠ [] := by
    cases abs <;> simp [hne]
  have hs := split_pre _ (itoaAux r) hpre (sign_pre_alpha abs _ hl)
    (itoaAux_ne_nil hr1) (itoaAux_digits r)
  rw [digitsVal_itoaAux hr1] at hs
  have hr3 : r < 9223372036854775808 := by rw [hM.2.2] at hr2; omega
  have hr0 : 0 < r := by omega
  simp only [hr0, hr3, and_self, if_true, sign_pre_filter abs _ hl] at hs
  unfold cellNameToCoordinates
  rw [hs]
  have d : ¬ ((r : Int) > (Facts.TotalRows : Int)) := by omega
  simp only [d, if_false, hcol]

/-- coordinates → name → coordinates for every cell of the 16384 × 1048576 grid,
relative and absolute -/
theorem cell_encode_decode (c r : Nat) (abs : Bool) (hc1 : 1 ≤ c) (hc2 : c ≤ Facts.MaxColumns)
    (hr1 : 1 ≤ r) (hr2 : r ≤ Facts.TotalRows) :
    ∃ s, coordinatesToCellName (c : Int) (r : Int) abs = .ok s ∧
      cellNameToCoordinates s = .ok ((c : Int), (r : Int)) :=
  ⟨_, cell_encode_eq c r abs hc1 hc2 hr1 hr2,
    cell_decode_eq _ c r abs (numToName_ne_nil hc1) (numToName_letters c)
      (col_encode_decode c hc1 hc2).2 hr1 hr2⟩

/-! ## Strict validation -/

theorem dropDollar_decomp (s : List Char) :
    ∃ d : List Char, (∀ c ∈ d, isDollar c = true) ∧ s = d ++ dropDollar s := by
  cases s with
  | nil => exact ⟨[], by simp, rfl⟩
  | cons x xs =>
    unfold dropDollar
    cases hx : isDollar x with
    | true => exact ⟨[x], by intro c hc; simp at hc; subst hc; exact hx, by simp [hx]⟩
    | false => exact ⟨[], by simp, by simp [hx]⟩

theorem digitsValAux_some_digits {acc v : Nat} {xs : List Char} (h : digitsValAux acc xs = some v) :
    ∀ c ∈ xs, isDigit c = true := by
  induction xs generalizing acc with
  | nil => simp
  | cons x xs ih =>
    simp only [digitsValAux] at h
    split at h
    · rename_i hx
      intro c hc
      rcases List.mem_cons.mp hc with rfl | hc
      · exact hx
      · exact ih h c hc
    · cases h

theorem digitsVal_some {D : List Char} {v : Nat} (h : digitsVal D = some v) :
    D ≠ [] ∧ ∀ c ∈ D, isDigit c = true := by
  unfold digitsVal at h
  split at h
  · cases h
  · rename_i hne
    exact ⟨by intro e; subst e; simp at hne, digitsValAux_some_digits h⟩

/-- **Completeness**: every string of the strict A1 grammar inside the grid is
accepted and decoded to the cell it denotes (all casings, `$` forms, all rows). -/
theorem spec_sound (s : List Char) (c r : Nat) (h : parseA1 s = some (c, r)) :
    cellNameToCoordinates s = .ok ((c : Int), (r : Int)) := by
  have hM := limits_ok
  unfold parseA1 at h
  simp only [] at h
  split at h
  · cases h
  · rename_i hLne
    split at h
    · rename_i cv rv hcol hdig
      split at h
      · rename_i hrange
        simp only [Option.some.injEq, Prod.mk.injEq] at h
        obtain ⟨rfl, rfl⟩ := h
        obtain ⟨d1, hd1, e1⟩ := dropDollar_decomp s
        obtain ⟨d2, hd2, e2⟩ := dropDollar_decomp ((dropDollar s).dropWhile isLetter)
        have e3 : dropDollar s =
            (dropDollar s).takeWhile isLetter ++ (dropDollar s).dropWhile isLetter :=
          (List.takeWhile_append_dropWhile).symm
        have hLl : ∀ ch ∈ (dropDollar s).takeWhile isLetter, isLetter ch = true :=
          fun ch hch => List.all_eq_true.mp List.all_takeWhile ch hch
        have ⟨hDne, hDd⟩ := digitsVal_some hdig
        have es : s = (d1 ++ (dropDollar s).takeWhile isLetter ++ d2) ++
            dropDollar ((dropDollar s).dropWhile isLetter) := by
          calc s = d1 ++ dropDollar s := e1
            _ = d1 ++ ((dropDollar s).takeWhile isLetter ++ (dropDollar s).dropWhile isLetter) := by
                  rw [← e3]
            _ = d1 ++ ((dropDollar s).takeWhile isLetter ++
                  (d2 ++ dropDollar ((dropDollar s).dropWhile isLetter))) := by rw [← e2]
            _ = _ := by simp
        have hLne' : (dropDollar s).takeWhile isLetter ≠ [] := by
          intro e; rw [e] at hLne; simp at hLne
        have hpre : (d1 ++ (dropDollar s).takeWhile isLetter ++ d2) ≠ [] := by
          simp [hLne']
        have hall : ∀ ch ∈ (d1 ++ (dropDollar s).takeWhile isLetter ++ d2), isAlpha ch = true := by
          intro ch hch
          simp only [List.mem_append] at hch
          rcases hch with (hch | hch) | hch
          · exact isDollar_alpha (hd1 ch hch)
          · exact isLetter_alpha (hLl ch hch)
          · exact isDollar_alpha (hd2 ch hch)
        have hfil : (d1 ++ (dropDollar s).takeWhile isLetter ++ d2).filter (fun c => !isDollar c) =
            (dropDollar s).takeWhile isLetter := by
          have f1 : d1.filter (fun c => !isDollar c) = [] := by
            apply List.filter_eq_nil_iff.mpr; intro ch hch; simp [hd1 ch hch]
          have f2 : d2.filter (fun c => !isDollar c) = [] := by
            apply List.filter_eq_nil_iff.mpr; intro ch hch; simp [hd2 ch hch]
          have f3 : ((dropDollar s).takeWhile isLetter).filter (fun c => !isDollar c) =
              (dropDollar s).takeWhile isLetter := by
            apply List.filter_eq_self.mpr; intro ch hch; simp [isLetter_not_dollar (hLl ch hch)]
          simp [List.filter_append, f1, f2, f3]
        have hs := split_pre _ _ hpre hall hDne hDd
        rw [hdig] at hs
        have hr3 : rv < 9223372036854775808 := by have := hrange.2.2.2; rw [hM.2.2] at this; omega
        have hr0 : 0 < rv := by omega
        simp only [hr0, hr3, and_self, if_true, hfil] at hs
        unfold cellNameToCoordinates
        rw [es, hs]
        have d : ¬ ((rv : Int) > (Facts.TotalRows : Int)) := by omega
        simp only [d, if_false]
        unfold columnNameToNumber
        have : ((dropDollar s).takeWhile isLetter).isEmpty = false := by
          simpa [List.isEmpty_iff] using hLne'
        simp only [this, Bool.false_eq_true, if_false, hcol]
        have hw : wrap64 (cv : Int) = cv :=
          wrap64_small (by omega) (by have := hrange.2.1; rw [hM.1] at this; omega)
        simp only [hw]
        have : ¬ ((cv : Int) > (Facts.MaxColumns : Int)) := by omega
        simp [this]
      · cases h
    · cases h

theorem takeWhile_append_stop (p : Char → Bool) (pre D : List Char) (hp : ∀ c ∈ pre, p c = true)
    (hD : ∃ d ds, D = d :: ds ∧ p d = false) :
    (pre ++ D).takeWhile p = pre ∧ (pre ++ D).dropWhile p = D := by
  obtain ⟨d, ds, rfl, hd⟩ := hD
  induction pre with
  | nil => simp [List.takeWhile, List.dropWhile, hd]
  | cons x xs ih =>
    have hx := hp x (by simp)
    have := ih (fun c hc => hp c (by simp [hc]))
    simp [List.takeWhile, List.dropWhile, hx, this.1, this.2]

theorem dropDollar_of_not {x : Char} {xs : List Char} (h : isDollar x = false) :
    dropDollar (x :: xs) = x :: xs := by
  simp [dropDollar, h]

/-- **Strictness, the part that holds on the current tree**: a string made only of
letters and digits, at most 13 characters long, that the implementation maps to
a coordinate *is* an A1 reference inside the grid denoting that coordinate.
The full statement (no hypothesis on the characters or the length) is false:
see `finding_accept_sign`, `finding_accept_stray_dollar`, `finding_colname_overflow`. -/
theorem rejects_non_a1_partial (s : List Char) (c r : Int)
    (hchars : ∀ ch ∈ s, isLetter ch = true ∨ isDigit ch = true) (hlen : s.length ≤ 13)
    (h : cellNameToCoordinates s = .ok (c, r)) :
    ∃ cn rn : Nat, parseA1 s = some (cn, rn) ∧ c = cn ∧ r = rn := by
  have hM := limits_ok
  unfold cellNameToCoordinates at h
  split at h
  · cases h
  · rename_i colName row hsplit
    split at h
    · cases h
    · rename_i hrow
      split at h
      · cases h
      · rename_i col hcolnum
        simp only [Except.ok.injEq, Prod.mk.injEq] at h
        obtain ⟨rfl, rfl⟩ := h
        obtain ⟨pre, D, rfl, hpre, hD, ⟨a, as, hpa, haa⟩, hDna, hcol, hatoi, hrow0⟩ :=
          split_ok_shape hsplit
        have hnd : ∀ ch ∈ pre, isDollar ch = false := by
          intro ch hch
          rcases hchars ch (by simp [hch]) with h1 | h1
          · exact isLetter_not_dollar h1
          · exact isDigit_not_dollar h1
        have hcol' : colName = pre := by
          rw [hcol]; apply List.filter_eq_self.mpr; intro ch hch; simp [hnd ch hch]
        rw [hcol'] at hcolnum
        have hplen : pre.length ≤ 13 := by
          have : (pre.filter (fun c => !isDollar c)).length ≤ pre.length := List.length_filter_le _ _
          simp at hlen; omega
        have ⟨h1, h2, h3⟩ := col_decode_encode _ hplen col hcolnum
        -- column part
        unfold columnNameToNumber at hcolnum
        split at hcolnum
        · cases hcolnum
        · split at hcolnum
          · cases hcolnum
          · rename_i v hv
            have hlt := colRaw_lt_of_short hv hplen
            have hw : wrap64 (v : Int) = v := wrap64_small (by omega) (by omega)
            simp only [hw] at hcolnum
            split at hcolnum
            · cases hcolnum
            · simp only [Except.ok.injEq] at hcolnum
              subst hcolnum
              have hLl : ∀ ch ∈ pre, isLetter ch = true := colRawAux_some_letters hv
              have hDd : ∀ ch ∈ D, isDigit ch = true := by
                intro ch hch
                rcases hchars ch (by simp [hch]) with h1 | h1
                · have := hDna ch hch; rw [isLetter_alpha h1] at this; cases this
                · exact h1
              rw [atoi_digits hD hDd] at hatoi
              cases hdv : digitsVal D with
              | none => rw [hdv] at hatoi; cases hatoi
              | some rv =>
                rw [hdv] at hatoi
                simp only [Option.bind_some] at hatoi
                split at hatoi
                · simp only [Option.some.injEq] at hatoi
                  subst hatoi
                  refine ⟨v, rv, ?_, rfl, rfl⟩
                  obtain ⟨d, ds, rfl⟩ : ∃ d ds, D = d :: ds := by
                    cases D with
                    | nil => exact absurd rfl hD
                    | cons d ds => exact ⟨d, ds, rfl⟩
                  have hdd := hDd d (by simp)
                  have hstop := takeWhile_append_stop isLetter pre (d :: ds) hLl
                    ⟨d, ds, rfl, isDigit_not_letter hdd⟩
                  unfold parseA1
                  have e0 : dropDollar (pre ++ d :: ds) = pre ++ d :: ds := by
                    rw [hpa] at hnd ⊢
                    exact dropDollar_of_not (hnd a (by simp))
                  simp only [e0, hstop.1, hstop.2, dropDollar_of_not (isDigit_not_dollar hdd)]
                  have : pre.isEmpty = false := by simpa [List.isEmpty_iff] using hpre
                  simp only [this, Bool.false_eq_true, if_false, hv, hdv]
                  have g : 1 ≤ v ∧ v ≤ Facts.MaxColumns ∧ 1 ≤ rv ∧ rv ≤ Facts.TotalRows := by
                    refine ⟨by omega, by omega, by omega, by omega⟩
                  simp [g]
                · cases hatoi

/-! ## Findings: where the full-strength statements fail on the current tree

The property says every string that is not an A1 reference is rejected. The
transcription accepts the following (each replayed on the real code by the
harness, signatures `c2xy:accept-sign-in-row`, `c2xy:accept-stray-dollar`,
`c2n:colname-overflow`, `spell:getter-string-lookup`). -/

theorem finding_accept_sign :
    cellNameToCoordinates ['A', '+', '1'] = .ok (1, 1) ∧ parseA1 ['A', '+', '1'] = none := by
  decide +kernel

theorem finding_accept_stray_dollar :
    cellNameToCoordinates ['A', '$', 'B', '1'] = .ok (28, 1) ∧ parseA1 ['A', '$', 'B', '1'] = none ∧
    cellNameToCoordinates ['$', '$', 'A', '1'] = .ok (1, 1) ∧ parseA1 ['$', '$', 'A', '1'] = none := by
  decide +kernel

/-- 14 letters overflow Go's `int`: a negative column with a nil error -/
theorem finding_colname_overflow :
    columnNameToNumber (List.replicate 14 'Z') = .ok (-6696602603409169450) := by
  decide +kernel

/-! ## Spellings: setters index by coordinates, getters compare strings -/

theorem map_toUpper_digits (D : List Char) (h : ∀ c ∈ D, isDigit c = true) : D.map toUpper = D := by
  induction D with
  | nil => rfl
  | cons x xs ih =>
    simp [toUpper_nonletter (isDigit_not_letter (h x (by simp))), ih (fun c hc => h c (by simp [hc]))]

/-- Any casing of the canonical spelling (letters + canonical decimal row) is
found by the getters: the upper-cased spelling *is* the stored reference. -/
theorem spellings_same_cell_partial (L : List Char) (r : Nat) (hL : L ≠ [])
    (hLl : ∀ c ∈ L, isLetter c = true) (c : Nat) (hc : colRaw L = some c)
    (hc2 : c ≤ Facts.MaxColumns) (hr1 : 1 ≤ r) (hr2 : r ≤ Facts.TotalRows) :
    getterFinds (L ++ itoaAux r) = some true := by
  have hM := limits_ok
  have hup : ∀ ch ∈ L.map toUpper, isUp ch = true := by
    intro ch hch
    obtain ⟨x, hx, rfl⟩ := List.mem_map.mp hch
    exact (toUpper_letter_val (hLl x hx)).1
  have hupl : ∀ ch ∈ L.map toUpper, isLetter ch = true := by
    intro ch hch; simp [isLetter, hup ch hch]
  have hcu : colRaw (L.map toUpper) = some c := by unfold colRaw; rw [colRawAux_toUpper]; exact hc
  have hname : numToName c = L.map toUpper := numToName_of_colRaw hup hcu
  have hc1 : 1 ≤ c := (colRawAux_bound hc).2.2 hL
  have hcn : columnNameToNumber (L.map toUpper) = .ok (c : Int) := by
    rw [← hname]; exact (col_encode_decode c hc1 hc2).2
  have hdec := cell_decode_eq (L.map toUpper) c r false (by simpa using hL) hupl hcn hr1 hr2
  have henc := cell_encode_eq c r false hc1 hc2 hr1 hr2
  simp only [Bool.false_eq_true, if_false, List.nil_append, List.append_nil] at hdec henc
  unfold getterFinds
  simp only [List.map_append, map_toUpper_digits _ (itoaAux_digits r), hdec, henc, hname]
  simp

/-- …but a spelling the setter accepts with `$` signs or leading zeros is *not*
found by the getter (the write lands in B2, the read by the same spelling
returns the empty string). -/
theorem finding_getter_string_lookup :
    cellNameToCoordinates ['$', 'B', '$', '2'] = .ok (2, 2) ∧
    getterFinds ['$', 'B', '$', '2'] = some false ∧
    cellNameToCoordinates ['B', '0', '2'] = .ok (2, 2) ∧
    getterFinds ['B', '0', '2'] = some false := by
  decide +kernel

end XlModel.Props.C20
