/-
C20 — Cell, column and range reference codecs are exact inverses, strictly
validated.  Property theorems only; helper lemmas are in `Lemmas/Ref*.lean`.

Every theorem is about `XlModel.Ref` (the transcription of lib.go) over the
regenerated constants `Facts.MaxColumns`, `Facts.MinColumns`, `Facts.TotalRows`;
`limits_ok` pins the values the arithmetic below relies on, so an edit of the
constants in templates.go breaks this file.
-/
import XlModel.Lemmas.Ref11

namespace XlModel.Props.C20
open XlModel XlModel.Ref

/-- the regenerated limits are the ones the proofs were written for -/
theorem limits_ok :
    Facts.MaxColumns = 16384 ∧ Facts.MinColumns = 1 ∧ Facts.TotalRows = 1048576 := by decide

/-! ## Columns: mutually inverse bijections 1..16384 ↔ A..XFD -/

/-- number → name → number, for every column in range -/
theorem col_encode_decode (n : Nat) (h1 : 1 ≤ n) (h2 : n ≤ Facts.MaxColumns) :
    columnNumberToName (n : Int) = .ok (numToName n) ∧
    columnNameToNumber (numToName n) = .ok (n : Int) := by
  have hM := limits_ok
  constructor
  · unfold columnNumberToName
    have a : ¬ ((n : Int) < (Facts.MinColumns : Int)) := by rw [hM.2.1]; omega
    have b : ¬ ((n : Int) > (Facts.MaxColumns : Int)) := by omega
    simp [a, b]
  · exact (columnNameToNumber_ok_iff _ _).mpr
      ⟨numToName_ne_nil h1, n, colRaw_numToName n, h2, rfl⟩

/-- the encoder is injective (on all naturals, not only in range) -/
theorem col_encode_injective (m n : Nat) (h : numToName m = numToName n) : m = n := by
  have a := colRaw_numToName m
  rw [h, colRaw_numToName n] at a
  exact (Option.some.inj a).symm

/-- every produced name is made of upper-case letters (all `n`) -/
theorem col_encode_upper (n : Nat) : ∀ c ∈ numToName n, isUp c = true := numToName_upper n

/-- name → number → name, for EVERY name (any length): an accepted name decodes
into 1..MaxColumns and encodes back to its upper-case form. -/
theorem col_decode_encode (name : List Char) (c : Int)
    (h : columnNameToNumber name = .ok c) :
    1 ≤ c ∧ c ≤ (Facts.MaxColumns : Int) ∧ columnNumberToName c = .ok (name.map toUpper) := by
  have hM := limits_ok
  obtain ⟨hne, v, hv, hle, rfl⟩ := (columnNameToNumber_ok_iff name c).mp h
  have h1 : 1 ≤ v := (colRawAux_bound hv).2.2 hne
  refine ⟨by omega, by omega, ?_⟩
  unfold columnNumberToName
  have a : ¬ ((v : Int) < (Facts.MinColumns : Int)) := by rw [hM.2.1]; omega
  have b : ¬ ((v : Int) > (Facts.MaxColumns : Int)) := by omega
  simp only [a, b, decide_false, Bool.or_self, Bool.false_eq_true, if_false, Int.toNat_natCast]
  have hu : colRaw (name.map toUpper) = some v := by
    unfold colRaw; rw [colRawAux_toUpper]; exact hv
  have hup : ∀ ch ∈ name.map toUpper, isUp ch = true := by
    intro ch hch
    obtain ⟨x, hx, rfl⟩ := List.mem_map.mp hch
    exact (toUpper_letter_val (colRawAux_some_letters hv x hx)).1
  rw [numToName_of_colRaw hup hu]

/-- the decoder is exactly "exact bijective base-26 value within the limit": it
accepts a name iff the name is non-empty, all letters and its exact value is at
most `MaxColumns`, whatever the length of the name (no wrap-around: the limit is
checked after every letter, `colLoop_small`). -/
theorem col_decode_exact (name : List Char) (c : Int) :
    columnNameToNumber name = .ok c ↔
      name ≠ [] ∧ ∃ v, colRaw name = some v ∧ v ≤ Facts.MaxColumns ∧ c = (v : Int) :=
  columnNameToNumber_ok_iff name c

/-- no intermediate value of the decoding loop can overflow Go's `int` -/
theorem col_decode_no_wrap (col multi : Nat) (c : Char) (cs : List Char) (v : Nat)
    (hc : isLetter c = true) (h : colLoop col multi (c :: cs) = .ok v) :
    col + letterVal c * multi ≤ Facts.MaxColumns ∧ multi ≤ Facts.MaxColumns :=
  colLoop_small col multi c cs v hc h

/-- case-insensitivity (acceptance and value) -/
theorem col_case_insensitive (name : List Char) (c : Int) :
    columnNameToNumber (name.map toUpper) = .ok c ↔ columnNameToNumber name = .ok c := by
  rw [columnNameToNumber_ok_iff, columnNameToNumber_ok_iff]
  have e : colRaw (name.map toUpper) = colRaw name := by unfold colRaw; exact colRawAux_toUpper 0 name
  rw [e]
  simp

/-! ## Cells: inverse over the whole grid, absolute forms included -/

/-- the encoder's output, explicitly -/
theorem cell_encode_eq (c r : Nat) (abs : Bool) (hc1 : 1 ≤ c) (hc2 : c ≤ Facts.MaxColumns)
    (hr1 : 1 ≤ r) (hr2 : r ≤ Facts.TotalRows) :
    coordinatesToCellName (c : Int) (r : Int) abs =
      .ok ((if abs then ['$'] else []) ++ numToName c ++ (if abs then ['$'] else []) ++ itoaAux r) := by
  have ⟨hname, _⟩ := col_encode_decode c hc1 hc2
  unfold coordinatesToCellName
  have a : ¬ ((c : Int) < 1) := by omega
  have b : ¬ ((r : Int) < 1) := by omega
  have d : ¬ ((r : Int) > (Facts.TotalRows : Int)) := by omega
  simp only [a, b, d, decide_false, Bool.or_self, Bool.false_eq_true, if_false, hname]
  rw [itoaInt_pos (by omega)]
  simp

/-- the encoder's output has the strict A1 shape and denotes `(c, r)` -/
theorem cell_encode_shape (c r : Nat) (abs : Bool) (hc1 : 1 ≤ c) (hc2 : c ≤ Facts.MaxColumns)
    (hr1 : 1 ≤ r) (hr2 : r ≤ Facts.TotalRows) :
    Shape ((if abs then ['$'] else []) ++ numToName c ++ (if abs then ['$'] else []) ++ itoaAux r) c r := by
  have hd : IsDol (if abs then ['$'] else []) := by cases abs <;> simp [IsDol]
  exact ⟨_, numToName c, _, itoaAux r, rfl, hd, hd, numToName_ne_nil hc1, numToName_letters c,
    itoaAux_ne_nil hr1, itoaAux_digits r, colRaw_numToName c, hc1, hc2, digitsVal_itoaAux hr1, hr1, hr2⟩

/-- coordinates → name → coordinates for every cell of the 16384 × 1048576 grid,
relative and absolute -/
theorem cell_encode_decode (c r : Nat) (abs : Bool) (hc1 : 1 ≤ c) (hc2 : c ≤ Facts.MaxColumns)
    (hr1 : 1 ≤ r) (hr2 : r ≤ Facts.TotalRows) :
    ∃ s, coordinatesToCellName (c : Int) (r : Int) abs = .ok s ∧
      cellNameToCoordinates s = .ok ((c : Int), (r : Int)) :=
  ⟨_, cell_encode_eq c r abs hc1 hc2 hr1 hr2,
    decode_of_shape (cell_encode_shape c r abs hc1 hc2 hr1 hr2)⟩

/-- name → coordinates → name: every accepted spelling decodes into the grid and
re-encodes to the canonical spelling of the same cell, which decodes to the same
coordinates again. -/
theorem cell_decode_encode (s : List Char) (ci ri : Int) (h : cellNameToCoordinates s = .ok (ci, ri)) :
    1 ≤ ci ∧ ci ≤ (Facts.MaxColumns : Int) ∧ 1 ≤ ri ∧ ri ≤ (Facts.TotalRows : Int) ∧
    ∃ canon, coordinatesToCellName ci ri false = .ok canon ∧
      cellNameToCoordinates canon = .ok (ci, ri) := by
  obtain ⟨c, r, hs, rfl, rfl⟩ := shape_of_decode h
  obtain ⟨_, _, _, _, _, _, _, _, _, _, _, _, hc1, hc2, _, hr1, hr2⟩ := hs
  refine ⟨by omega, by omega, by omega, by omega, ?_⟩
  exact cell_encode_decode c r false hc1 hc2 hr1 hr2

/-! ## Strict validation: accepted ⇔ A1 reference inside the grid -/

/-- **Completeness**: every string of the strict A1 grammar inside the grid is
accepted and decoded to the cell it denotes (all casings, `$` forms, all rows). -/
theorem spec_sound (s : List Char) (c r : Nat) (h : parseA1 s = some (c, r)) :
    cellNameToCoordinates s = .ok ((c : Int), (r : Int)) :=
  decode_of_shape (shape_of_parseA1 h)

/-- **Strictness, full strength**: for EVERY string (any characters, any length),
if the implementation maps it to a coordinate then it is an A1 reference inside
the grid denoting exactly that coordinate. Hence every string that is not such a
reference is rejected with an error. -/
theorem rejects_non_a1 (s : List Char) (c r : Int) (h : cellNameToCoordinates s = .ok (c, r)) :
    ∃ cn rn : Nat, parseA1 s = some (cn, rn) ∧ c = cn ∧ r = rn := by
  obtain ⟨cn, rn, hs, rfl, rfl⟩ := shape_of_decode h
  exact ⟨cn, rn, parseA1_of_shape hs, rfl, rfl⟩

/-- the two directions together -/
theorem accepted_iff_a1 (s : List Char) (c r : Nat) :
    cellNameToCoordinates s = .ok ((c : Int), (r : Int)) ↔ parseA1 s = some (c, r) := by
  constructor
  · intro h
    obtain ⟨cn, rn, hp, hc, hr⟩ := rejects_non_a1 s _ _ h
    have : c = cn := by omega
    have : r = rn := by omega
    subst_vars; exact hp
  · exact spec_sound s c r

/-- regression witnesses: the strings the unrepaired code accepted (signed row,
stray `$`, 14-letter overflow) are rejected by the repaired code -/
theorem fixed_reject_witnesses :
    (∃ e, cellNameToCoordinates ['A', '+', '1'] = .error e) ∧
    (∃ e, cellNameToCoordinates ['A', '$', 'B', '1'] = .error e) ∧
    (∃ e, cellNameToCoordinates ['$', '$', 'A', '1'] = .error e) ∧
    (∃ e, columnNameToNumber (List.replicate 14 'Z') = .error e) := by
  refine ⟨⟨.cellName, by decide +kernel⟩, ⟨.cellName, by decide +kernel⟩,
    ⟨.cellName, by decide +kernel⟩, ⟨.colNumber, by decide +kernel⟩⟩

/-! ## Ranges: `coordinatesToRangeRef` / `rangeRefToCoordinates` / `sortCoordinates` -/

/-- `sortCoordinates` returns an ordered rectangle … -/
theorem sort_sorted (c1 r1 c2 r2 : Int) :
    (sortCoordinates (c1, r1, c2, r2)).1 ≤ (sortCoordinates (c1, r1, c2, r2)).2.2.1 ∧
    (sortCoordinates (c1, r1, c2, r2)).2.1 ≤ (sortCoordinates (c1, r1, c2, r2)).2.2.2 := by
  unfold sortCoordinates
  dsimp only
  split <;> split <;> (constructor <;> simp <;> omega)

/-- … with the same corner columns and rows, is the identity on ordered input, and is idempotent -/
theorem sort_of_sorted (c1 r1 c2 r2 : Int) (hc : c1 ≤ c2) (hr : r1 ≤ r2) :
    sortCoordinates (c1, r1, c2, r2) = (c1, r1, c2, r2) := by
  unfold sortCoordinates
  have a : ¬ c2 < c1 := by omega
  have b : ¬ r2 < r1 := by omega
  simp [a, b]

theorem sort_idem (q : Int × Int × Int × Int) :
    sortCoordinates (sortCoordinates q) = sortCoordinates q := by
  obtain ⟨c1, r1, c2, r2⟩ := q
  have h := sort_sorted c1 r1 c2 r2
  generalize sortCoordinates (c1, r1, c2, r2) = t at h
  obtain ⟨a, b, c, d⟩ := t
  exact sort_of_sorted a b c d h.1 h.2

/-- coordinates → range reference → coordinates, for every pair of in-grid corners
(ordered or not), relative and absolute -/
theorem range_encode_decode (c1 r1 c2 r2 : Nat) (abs : Bool)
    (hc1 : 1 ≤ c1 ∧ c1 ≤ Facts.MaxColumns) (hr1 : 1 ≤ r1 ∧ r1 ≤ Facts.TotalRows)
    (hc2 : 1 ≤ c2 ∧ c2 ≤ Facts.MaxColumns) (hr2 : 1 ≤ r2 ∧ r2 ≤ Facts.TotalRows) :
    ∃ s, coordinatesToRangeRef ((c1 : Int), (r1 : Int), (c2 : Int), (r2 : Int)) abs = .ok s ∧
      rangeRefToCoordinates s = .ok ((c1 : Int), (r1 : Int), (c2 : Int), (r2 : Int)) := by
  have e1 := cell_encode_eq c1 r1 abs hc1.1 hc1.2 hr1.1 hr1.2
  have e2 := cell_encode_eq c2 r2 abs hc2.1 hc2.2 hr2.1 hr2.2
  have s1 := cell_encode_shape c1 r1 abs hc1.1 hc1.2 hr1.1 hr1.2
  have s2 := cell_encode_shape c2 r2 abs hc2.1 hc2.2 hr2.1 hr2.2
  refine ⟨_, by unfold coordinatesToRangeRef; simp only [e1, e2]; rfl, ?_⟩
  exact (rangeRef_ok_iff _ _ _ _ _).mpr ⟨c1, r1, c2, r2, rfl, rfl, rfl, rfl, _, _, by simp, s1, s2⟩

/-! ## `JoinCellName` / `SplitCellName` agree with the cell codecs -/

/-- **exact acceptance of `JoinCellName`** (as transcribed): it accepts iff the
column name is non-empty and consists of ASCII letters only and the row is at
least 1 — there is NO upper bound on the row and none on the column (`ZZZZ`,
row 1048577 are joined): it is a purely syntactic inverse of `SplitCellName`,
the grid limits are enforced by the cell codecs only. The result is the
upper-cased letters followed by the decimal row. -/
theorem join_accepts_iff (col : List Char) (row : Int) :
    (∃ s, joinCellName col row = .ok s) ↔
      col ≠ [] ∧ (∀ c ∈ col, isLetter c = true) ∧ 1 ≤ row := by
  constructor
  · rintro ⟨s, h⟩
    obtain ⟨a, b, c, _⟩ := (joinCellName_ok_iff col row s).mp h
    exact ⟨a, b, c⟩
  · rintro ⟨a, b, c⟩
    exact ⟨_, (joinCellName_ok_iff col row _).mpr ⟨a, b, c, rfl⟩⟩

/-- the value `JoinCellName` returns -/
theorem join_value (col : List Char) (row : Int) (s : List Char) (h : joinCellName col row = .ok s) :
    s = col.map toUpper ++ itoaAux row.toNat :=
  ((joinCellName_ok_iff col row s).mp h).2.2.2

/-- **join → split**: for every accepted `(col, row)` (row inside Go's `int`),
`SplitCellName (JoinCellName col row) = (upper col, row)`. Holds outside the grid too. -/
theorem join_split (col : List Char) (row : Int) (s : List Char)
    (h : joinCellName col row = .ok s) (hint : row < 9223372036854775808) :
    splitCellName s = .ok (col.map toUpper, row) :=
  split_of_join h hint

/-- **split → join**: for every accepted cell name `s` (accepted by
`CellNameToCoordinates`, i.e. every strict A1 spelling inside the grid, absolute
markers and leading zeros included), `SplitCellName s` returns a column name that
`ColumnNameToNumber` decodes to the cell's column and the cell's row, and
`JoinCellName` of the two parts is the canonical relative spelling of the same
cell: exactly what `CoordinatesToCellName` returns for its coordinates, which
decodes to the same coordinates again. -/
theorem split_join (s : List Char) (ci ri : Int) (h : cellNameToCoordinates s = .ok (ci, ri)) :
    ∃ col canon, splitCellName s = .ok (col, ri) ∧ columnNameToNumber col = .ok ci ∧
      joinCellName col ri = .ok canon ∧ coordinatesToCellName ci ri false = .ok canon ∧
      cellNameToCoordinates canon = .ok (ci, ri) := by
  obtain ⟨c, r, hs, rfl, rfl⟩ := shape_of_decode h
  obtain ⟨L, hsplit, hraw, hLl, hL, hjoin⟩ := split_join_of_shape hs
  obtain ⟨_, _, _, _, _, _, _, _, _, _, _, _, hc1, hc2, _, hr1, hr2⟩ := hs
  have henc := cell_encode_eq c r false hc1 hc2 hr1 hr2
  simp only [Bool.false_eq_true, if_false, List.nil_append, List.append_nil] at henc
  refine ⟨L, _, hsplit, (columnNameToNumber_ok_iff L c).mpr ⟨hL, c, hraw, hc2, rfl⟩, hjoin, henc, ?_⟩
  have := decode_of_shape (cell_encode_shape c r false hc1 hc2 hr1 hr2)
  simpa using this

/-- the grid codec factors through split/join: on the whole grid
`JoinCellName (ColumnNumberToName c) r = CoordinatesToCellName c r`. -/
theorem join_eq_cell_encode (c r : Nat) (hc1 : 1 ≤ c) (hc2 : c ≤ Facts.MaxColumns)
    (hr1 : 1 ≤ r) (hr2 : r ≤ Facts.TotalRows) :
    joinCellName (numToName c) (r : Int) = coordinatesToCellName (c : Int) (r : Int) false := by
  have henc := cell_encode_eq c r false hc1 hc2 hr1 hr2
  simp only [Bool.false_eq_true, if_false, List.nil_append, List.append_nil] at henc
  rw [henc, joinCellName_ok_iff]
  refine ⟨numToName_ne_nil hc1, numToName_letters c, by omega, ?_⟩
  have : (numToName c).map toUpper = numToName c := map_toUpper_of_up _ (numToName_upper c)
  rw [this]; simp

/-- what is NOT true (and is outside the statement): `SplitCellName` is a syntactic
splitter, not a validator. It accepts names whose column part contains digits or
spaces between letters (`A1B2` → (`A1B`, 2)) and names outside the grid; both are
rejected by `JoinCellName` resp. by the cell codec, so no such string is mapped to
a coordinate (that is `rejects_non_a1`). -/
theorem split_is_syntactic :
    splitCellName ['A', '1', 'B', '2'] = .ok (['A', '1', 'B'], 2) ∧
    (∃ e, joinCellName ['A', '1', 'B'] 2 = .error e) ∧
    (∃ e, cellNameToCoordinates ['A', '1', 'B', '2'] = .error e) ∧
    splitCellName ['X', 'F', 'E', '1'] = .ok (['X', 'F', 'E'], 1) ∧
    joinCellName ['X', 'F', 'E'] 1048577 = .ok ['X', 'F', 'E', '1', '0', '4', '8', '5', '7', '7'] := by
  refine ⟨by decide +kernel, ⟨.colName, by decide +kernel⟩, ⟨.colName, by decide +kernel⟩,
    by decide +kernel, by decide +kernel⟩

/-! ## Exact acceptance of `rangeRefToCoordinates` -/

/-- **exact acceptance of the range decoder, full strength** (after the repair of
`rngapi:accept-non-a1:*`): for ALL strings, `rangeRefToCoordinates ref` succeeds
with `(c1, r1, c2, r2)` iff `ref` is exactly `cell:cell` with both cells strict A1
references inside the grid (each with its own optional absolute markers) denoting
`(c1, r1)` and `(c2, r2)`. -/
theorem range_decode_accepts_iff (ref : List Char) (c1 r1 c2 r2 : Nat) :
    rangeRefToCoordinates ref = .ok ((c1 : Int), (r1 : Int), (c2 : Int), (r2 : Int)) ↔
      parseRangeStrict ref = some (c1, r1, c2, r2) := by
  rw [parseRangeStrict_iff, rangeRef_ok_iff]
  constructor
  · rintro ⟨n1, m1, n2, m2, h1, h2, h3, h4, h⟩
    have : c1 = n1 := by omega
    have : r1 = m1 := by omega
    have : c2 = n2 := by omega
    have : r2 = m2 := by omega
    subst_vars; exact h
  · intro h; exact ⟨c1, r1, c2, r2, rfl, rfl, rfl, rfl, h⟩

/-- strictness: whatever the range decoder maps to coordinates is a strict
`cell:cell` reference denoting exactly these corners, all inside the grid -/
theorem range_rejects_non_range (ref : List Char) (c1 r1 c2 r2 : Int)
    (h : rangeRefToCoordinates ref = .ok (c1, r1, c2, r2)) :
    ∃ n1 m1 n2 m2 : Nat, c1 = n1 ∧ r1 = m1 ∧ c2 = n2 ∧ r2 = m2 ∧
      parseRangeStrict ref = some (n1, m1, n2, m2) := by
  obtain ⟨n1, m1, n2, m2, rfl, rfl, rfl, rfl, hs⟩ := (rangeRef_ok_iff ref _ _ _ _).mp h
  exact ⟨n1, m1, n2, m2, rfl, rfl, rfl, rfl, (parseRangeStrict_iff ref _ _ _ _).mpr hs⟩

/-- completeness: every strict range reference `cell:cell` (each corner with its
own optional absolute markers, any casing, leading zeros) is accepted and decoded
to the corners it denotes — `range_encode_decode` for every spelling, not only
the encoder's output. -/
theorem range_strict_accepted (ref : List Char) (c1 r1 c2 r2 : Nat)
    (h : parseRangeStrict ref = some (c1, r1, c2, r2)) :
    rangeRefToCoordinates ref = .ok ((c1 : Int), (r1 : Int), (c2 : Int), (r2 : Int)) :=
  (range_decode_accepts_iff ref c1 r1 c2 r2).mpr h

/-- whatever is accepted lies inside the grid -/
theorem range_decode_in_grid (ref : List Char) (c1 r1 c2 r2 : Int)
    (h : rangeRefToCoordinates ref = .ok (c1, r1, c2, r2)) :
    1 ≤ c1 ∧ c1 ≤ (Facts.MaxColumns : Int) ∧ 1 ≤ r1 ∧ r1 ≤ (Facts.TotalRows : Int) ∧
    1 ≤ c2 ∧ c2 ≤ (Facts.MaxColumns : Int) ∧ 1 ≤ r2 ∧ r2 ≤ (Facts.TotalRows : Int) := by
  obtain ⟨n1, m1, n2, m2, rfl, rfl, rfl, rfl, _, _, _, hs1, hs2⟩ :=
    (rangeRef_ok_iff ref _ _ _ _).mp h
  obtain ⟨_, _, _, _, _, _, _, _, _, _, _, _, a1, a2, _, a3, a4⟩ := hs1
  obtain ⟨_, _, _, _, _, _, _, _, _, _, _, _, b1, b2, _, b3, b4⟩ := hs2
  omega

/-- regression witnesses: the references the unrepaired decoder accepted (`$`
anywhere, a third part, a range glued to a cell by `MergeCell`) are rejected, the
absolute range `$A$1:$B$2` keeps working (decided on literals: a regression test,
labelled as such). -/
theorem range_reject_witnesses :
    (∃ e, rangeRefToCoordinates ['A', '$', '$', '1', ':', 'B', '2'] = .error e) ∧
    (∃ e, rangeRefToCoordinates ['A', '1', ':', 'B', '2', ':', 'j', 'u', 'n', 'k'] = .error e) ∧
    (∃ e, rangeRefToCoordinates (['D', '1', ':', 'E', '2'] ++ [':'] ++ ['F', '9']) = .error e) ∧
    rangeRefToCoordinates ['$', 'A', '$', '1', ':', '$', 'B', '$', '2'] = .ok (1, 1, 2, 2) := by
  refine ⟨⟨.cellName, by decide +kernel⟩, ⟨.param, by decide +kernel⟩, ⟨.param, by decide +kernel⟩,
    by decide +kernel⟩

/-! ## Spellings: every accepted spelling of a cell addresses the same cell -/

/-- the getter's normalisation (upper-casing) does not change what is denoted -/
theorem upper_same_cell (s : List Char) (ci ri : Int) (h : cellNameToCoordinates s = .ok (ci, ri)) :
    cellNameToCoordinates (s.map toUpper) = .ok (ci, ri) := by
  obtain ⟨c, r, hs, rfl, rfl⟩ := shape_of_decode h
  exact decode_of_shape (shape_upper hs)

/-- **Strictness at the API level**: the normalisation every cell-name API applies
before decoding (ASCII upper-casing in `mergeCellsParser`) neither widens nor
narrows what is accepted: the normalised string decodes to `(c, r)` iff the
string itself does. -/
theorem api_strict (s : List Char) (ci ri : Int) :
    cellNameToCoordinates (s.map toUpper) = .ok (ci, ri) ↔ cellNameToCoordinates s = .ok (ci, ri) := by
  constructor
  · intro h
    obtain ⟨c, r, hs, rfl, rfl⟩ := shape_of_decode h
    exact decode_of_shape (shape_of_upper hs)
  · exact upper_same_cell s ci ri

/-- hence an API accepts a string iff it is an A1 reference inside the grid -/
theorem api_accepts_iff_a1 (s : List Char) :
    (apiRef s).isSome = true ↔ ∃ c r, parseA1 s = some (c, r) := by
  unfold apiRef getterRef setterRef
  constructor
  · intro h
    split at h
    · rename_i c r hdec
      obtain ⟨cn, rn, hp, _, _⟩ := rejects_non_a1 s c r ((api_strict s c r).mp hdec)
      exact ⟨cn, rn, hp⟩
    · simp at h
  · rintro ⟨c, r, hp⟩
    have hd := spec_sound s c r hp
    have hu := upper_same_cell s _ _ hd
    obtain ⟨_, _, _, _, canon, hcanon, _⟩ := cell_decode_encode s _ _ hd
    simp [hu, hcanon]

/-- **Full strength**: for every spelling `s` a setter accepts, the reference the
setter stores and the reference a getter called with the same spelling looks up
are the same canonical name — the getter finds what the setter wrote. -/
theorem spellings_same_cell (s : List Char) (ci ri : Int) (h : cellNameToCoordinates s = .ok (ci, ri)) :
    getterFinds s = some true := by
  obtain ⟨_, _, _, _, canon, hcanon, _⟩ := cell_decode_encode s ci ri h
  have hu := upper_same_cell s ci ri h
  unfold getterFinds getterRef setterRef
  simp only [h, hu, hcanon]
  simp

/-- two accepted spellings of the same coordinates are stored under, and looked up
by, the same reference -/
theorem spellings_agree (s t : List Char) (ci ri : Int)
    (hs : cellNameToCoordinates s = .ok (ci, ri)) (ht : cellNameToCoordinates t = .ok (ci, ri)) :
    setterRef s = setterRef t ∧ getterRef s = setterRef t := by
  have hu := upper_same_cell s ci ri hs
  unfold getterRef setterRef
  simp only [hs, ht, hu]
  simp

/-- non-vacuity: `$b$02` is accepted, denotes B2, and is found -/
theorem spellings_example :
    cellNameToCoordinates ['$', 'b', '$', '0', '2'] = .ok (2, 2) ∧
    getterFinds ['$', 'b', '$', '0', '2'] = some true ∧
    getterFinds ['B', '0', '2'] = some true := by
  decide +kernel

/-! ## Lookup paths: every family of cell-name APIs, every accepted spelling

`XlModel.RefApi` transcribes what each family of APIs does with the caller's
spelling before touching the worksheet: P `prepareCell` (all setters), G
`getCellStringFunc` (GetCellValue/Formula/Type), D direct decode (GetCellStyle,
SetCellStyle, AddPicture/GetPictures, form controls), R `GetCellRichText`,
H-set / H-get (hyperlinks: `SplitCellName` gate, then `mergeCellsParser`), C-add / C-del (comments,
canonical reference since the repair). -/

/-- **full strength, eight paths**: every accepted spelling is mapped by every path to
the canonical key of the cell it denotes — the grid position `(c, r)` or the
canonical relative reference of `(c, r)` (comments included since the repair of
`spell:comment-raw-ref`). -/
theorem paths_canonical (s : List Char) (ci ri : Int) (h : cellNameToCoordinates s = .ok (ci, ri)) :
    ∃ canon, coordinatesToCellName ci ri false = .ok canon ∧
      pathPrepare s = some (.xy ci ri) ∧ pathGetString s = some (.ref canon) ∧
      pathDirect s = some (.xy ci ri) ∧ pathRichGet s = some (.xy ci ri) ∧
      pathLinkSet s = some (.ref canon) ∧ pathLinkGet s = some (.ref canon) ∧
      pathCommentAdd s = some (.ref canon) ∧ pathCommentDel s = some (.ref canon) := by
  obtain ⟨_, _, _, _, canon, hcanon, hdec⟩ := cell_decode_encode s ci ri h
  have hu := upper_same_cell s ci ri h
  obtain ⟨q, hq⟩ := split_ok_of_decode h
  have hm : mergeParse s = some canon := by
    unfold mergeParse apiRef getterRef setterRef
    simp only [hu, hcanon]
  refine ⟨canon, hcanon, ?_, ?_, ?_, ?_, ?_, ?_, ?_, ?_⟩
  · unfold pathPrepare; simp only [hm, hdec]
  · unfold pathGetString; simp only [hm, hdec, hcanon]
  · unfold pathDirect; simp only [h]
  · unfold pathRichGet pathPrepare; simp only [hm, hdec]
  · unfold pathLinkSet; simp only [hq, hm]
  · unfold pathLinkGet; simp only [hq, hm]
  · unfold pathCommentAdd; simp only [h, hcanon]
  · unfold pathCommentDel pathCommentAdd; simp only [h, hcanon]

/-- **strictness per path**: each of the paths (and the validity check of `AddComment`)
accepts a string iff it is a strict A1 reference inside the grid — no path widens
acceptance by its normalisation (upper-casing, `SplitCellName` gate), none narrows it. -/
theorem paths_accept_iff_a1 (s : List Char) :
    ((pathPrepare s).isSome = true ↔ ∃ c r, parseA1 s = some (c, r)) ∧
    ((pathGetString s).isSome = true ↔ ∃ c r, parseA1 s = some (c, r)) ∧
    ((pathDirect s).isSome = true ↔ ∃ c r, parseA1 s = some (c, r)) ∧
    ((pathRichGet s).isSome = true ↔ ∃ c r, parseA1 s = some (c, r)) ∧
    ((pathLinkSet s).isSome = true ↔ ∃ c r, parseA1 s = some (c, r)) ∧
    ((pathLinkGet s).isSome = true ↔ ∃ c r, parseA1 s = some (c, r)) ∧
    ((pathCommentAdd s).isSome = true ↔ ∃ c r, parseA1 s = some (c, r)) ∧
    ((pathCommentDel s).isSome = true ↔ ∃ c r, parseA1 s = some (c, r)) := by
  have back : (∃ c r, parseA1 s = some (c, r)) → ∃ ci ri, cellNameToCoordinates s = .ok (ci, ri) := by
    rintro ⟨c, r, hp⟩; exact ⟨_, _, spec_sound s c r hp⟩
  have viaMerge : ∀ {canon}, mergeParse s = some canon → ∃ c r, parseA1 s = some (c, r) := by
    intro canon hm
    exact (api_accepts_iff_a1 s).mp (by unfold mergeParse at hm; rw [hm]; rfl)
  have viaDirect : ∀ {ci ri}, cellNameToCoordinates s = .ok (ci, ri) → ∃ c r, parseA1 s = some (c, r) := by
    intro ci ri hd
    obtain ⟨cn, rn, hp, _, _⟩ := rejects_non_a1 s ci ri hd
    exact ⟨cn, rn, hp⟩
  refine ⟨⟨?_, ?_⟩, ⟨?_, ?_⟩, ⟨?_, ?_⟩, ⟨?_, ?_⟩, ⟨?_, ?_⟩, ⟨?_, ?_⟩, ⟨?_, ?_⟩, ⟨?_, ?_⟩⟩
  · intro h; unfold pathPrepare at h
    split at h
    · rename_i canon hm; exact viaMerge hm
    · simp at h
  · intro hp; obtain ⟨ci, ri, hd⟩ := back hp
    obtain ⟨_, _, h1, _⟩ := paths_canonical s ci ri hd; simp [h1]
  · intro h; unfold pathGetString at h
    split at h
    · rename_i canon hm; exact viaMerge hm
    · simp at h
  · intro hp; obtain ⟨ci, ri, hd⟩ := back hp
    obtain ⟨_, _, _, h1, _⟩ := paths_canonical s ci ri hd; simp [h1]
  · intro h; unfold pathDirect at h
    split at h
    · rename_i c r hd; exact viaDirect hd
    · simp at h
  · intro hp; obtain ⟨ci, ri, hd⟩ := back hp
    obtain ⟨_, _, _, _, h1, _⟩ := paths_canonical s ci ri hd; simp [h1]
  · intro h; unfold pathRichGet pathPrepare at h
    split at h
    · rename_i canon hm; exact viaMerge hm
    · simp at h
  · intro hp; obtain ⟨ci, ri, hd⟩ := back hp
    obtain ⟨_, _, _, _, _, h1, _⟩ := paths_canonical s ci ri hd; simp [h1]
  · intro h; unfold pathLinkSet at h
    split at h
    · simp at h
    · split at h
      · rename_i canon hm; exact viaMerge hm
      · simp at h
  · intro hp; obtain ⟨ci, ri, hd⟩ := back hp
    obtain ⟨_, _, _, _, _, _, h1, _⟩ := paths_canonical s ci ri hd; simp [h1]
  · intro h; unfold pathLinkGet at h
    split at h
    · simp at h
    · split at h
      · rename_i canon hm; exact viaMerge hm
      · simp at h
  · intro hp; obtain ⟨ci, ri, hd⟩ := back hp
    obtain ⟨_, _, _, _, _, _, _, h1⟩ := paths_canonical s ci ri hd; simp [h1]
  · intro h; unfold pathCommentAdd at h
    split at h
    · rename_i c r hd; exact viaDirect hd
    · simp at h
  · intro hp; obtain ⟨ci, ri, hd⟩ := back hp
    obtain ⟨_, _, _, _, _, _, _, _, h1, _⟩ := paths_canonical s ci ri hd; simp [h1]
  · intro h; unfold pathCommentDel pathCommentAdd at h
    split at h
    · rename_i c r hd; exact viaDirect hd
    · simp at h
  · intro hp; obtain ⟨ci, ri, hd⟩ := back hp
    obtain ⟨_, _, _, _, _, _, _, _, _, h1⟩ := paths_canonical s ci ri hd; simp [h1]

/-- **paired setters and getters, six families**: for any two accepted spellings
`s`, `t` of one cell, what a writer called with `s` stored is found by the matching
reader called with `t` — value/int/formula/type (P/G), style and pictures (D/D),
rich text (P/R), hyperlinks (H-set/H-get), across families (P/D), and comments
(AddComment/DeleteComment, full strength since the repair). -/
theorem pairs_find (s t : List Char) (ci ri : Int)
    (hs : cellNameToCoordinates s = .ok (ci, ri)) (ht : cellNameToCoordinates t = .ok (ci, ri)) :
    pairFinds pathPrepare pathGetString s t = some true ∧
    pairFinds pathDirect pathDirect s t = some true ∧
    pairFinds pathPrepare pathRichGet s t = some true ∧
    pairFinds pathLinkSet pathLinkGet s t = some true ∧
    pairFinds pathPrepare pathDirect s t = some true ∧
    pairFinds pathCommentAdd pathCommentDel s t = some true := by
  obtain ⟨canon, hc, a1, a2, a3, a4, a5, a6, a7, a8⟩ := paths_canonical s ci ri hs
  obtain ⟨canon', hc', b1, b2, b3, b4, b5, b6, b7, b8⟩ := paths_canonical t ci ri ht
  rw [hc] at hc'
  cases hc'
  unfold pairFinds
  simp only [a1, a2, a3, a4, a5, a6, a7, a8, b1, b2, b3, b4, b5, b6, b7, b8, Key.stored, hc]
  simp

/-- regression witnesses for the repaired `spell:comment-raw-ref`: `AddComment("b2")` /
`DeleteComment("B2")` and `AddComment("$C$3")` / `DeleteComment("C3")` now meet
(the general statement is the sixth conjunct of `pairs_find`). -/
theorem comment_pair_witnesses :
    pairFinds pathCommentAdd pathCommentDel ['b', '2'] ['B', '2'] = some true ∧
    pairFinds pathCommentAdd pathCommentDel ['$', 'C', '$', '3'] ['C', '3'] = some true := by
  refine ⟨by decide +kernel, by decide +kernel⟩

/-! ## Cell-name APIs that decode through the range decoder (MergeCell, UnmergeCell) -/

/-- `MergeCell(sheet, a, b)` with two strict A1 spellings stores a range reference
that decodes to the sorted rectangle of the two denoted cells. -/
theorem mergecell_strict (a b : List Char) (c1 r1 c2 r2 : Nat)
    (ha : parseA1 a = some (c1, r1)) (hb : parseA1 b = some (c2, r2)) :
    ∃ ref, mergeCellRef a b = some ref ∧
      rangeRefToCoordinates ref =
        .ok (sortCoordinates ((c1 : Int), (r1 : Int), (c2 : Int), (r2 : Int))) := by
  have hA := shape_of_parseA1 ha
  have hB := shape_of_parseA1 hb
  have hdec : rangeRefToCoordinates (a ++ [':'] ++ b) =
      .ok ((c1 : Int), (r1 : Int), (c2 : Int), (r2 : Int)) :=
    (rangeRef_ok_iff _ _ _ _ _).mpr ⟨c1, r1, c2, r2, rfl, rfl, rfl, rfl, a, b, by simp, hA, hB⟩
  obtain ⟨_, _, _, _, _, _, _, _, _, _, _, _, a1, a2, _, a3, a4⟩ := hA
  obtain ⟨_, _, _, _, _, _, _, _, _, _, _, _, b1, b2, _, b3, b4⟩ := hB
  obtain ⟨x, y, z, w, hsort, hx, hy, hz, hw, _⟩ :=
    sort_in_grid c1 r1 c2 r2 Facts.MaxColumns Facts.TotalRows ⟨a1, a2⟩ ⟨a3, a4⟩ ⟨b1, b2⟩ ⟨b3, b4⟩
  obtain ⟨ref, henc, hback⟩ := range_encode_decode x y z w false hx hy hz hw
  refine ⟨ref, ?_, by rw [hsort]; exact hback⟩
  unfold mergeCellRef
  simp only [hdec, hsort, henc]

/-- **strictness of `MergeCell` / `UnmergeCell`, full strength** (after the repair):
they accept their two cell-name arguments iff BOTH are strict A1 references inside
the grid — a range, a stray `$`, a trailing `:junk` in either argument is rejected. -/
theorem mergecell_accepts_iff_a1 (a b : List Char) :
    (mergeCellRef a b).isSome = true ↔
      (∃ c r, parseA1 a = some (c, r)) ∧ (∃ c r, parseA1 b = some (c, r)) := by
  constructor
  · intro h
    unfold mergeCellRef at h
    split at h
    · rename_i q hq
      obtain ⟨c1, r1, c2, r2⟩ := q
      obtain ⟨n1, m1, n2, m2, _, _, _, _, A, B, hab, hA, hB⟩ := (rangeRef_ok_iff _ _ _ _ _).mp hq
      have hab' : a ++ ':' :: b = A ++ ':' :: B := by simpa using hab
      obtain ⟨rfl, rfl⟩ := colon_cut_unique hab' (shape_nocolon hA) (shape_nocolon hB)
      exact ⟨⟨n1, m1, parseA1_of_shape hA⟩, ⟨n2, m2, parseA1_of_shape hB⟩⟩
    · simp at h
  · rintro ⟨⟨c1, r1, ha⟩, ⟨c2, r2, hb⟩⟩
    obtain ⟨ref, h, _⟩ := mergecell_strict a b c1 r1 c2 r2 ha hb
    simp [h]

/-- regression witnesses for the repaired `rngapi:accept-non-a1:*` -/
theorem mergecell_reject_witnesses :
    mergeCellRef ['D', '1', ':', 'E', '2'] ['F', '9'] = none ∧
    mergeCellRef ['A', '$', '$', '1'] ['B', '2'] = none ∧
    mergeCellRef ['H', '1'] ['I', '2', ':', 'j'] = none ∧
    mergeCellRef ['$', 'b', '$', '2'] ['A', '0', '1'] = some ['A', '1', ':', 'B', '2'] := by
  refine ⟨by decide +kernel, by decide +kernel, by decide +kernel, by decide +kernel⟩

/-! ## The multi-range layer: a reference sequence denotes a set of cells

`XlModel.RefMulti` transcribes `cellInRange`, `isOverlap`, `checkCellInRangeRef`,
`strings.Fields` on bytes, `flatSqref`, `squashSqref` and the merged-cell scan of
`mergeCellsParser`. Spec: `refHas` / `sqrefHas` (a cell, or the rectangle spanned by
two corners in any order; a sequence denotes the union). -/

/-- `cellInRange` is membership in the rectangle as written -/
theorem in_range_iff (p : Cell) (q : Rect) :
    cellInRange p q = true ↔ q.1 ≤ p.1 ∧ p.1 ≤ q.2.2.1 ∧ q.2.1 ≤ p.2 ∧ p.2 ≤ q.2.2.2 :=
  cellInRange_iff p q

/-- `isOverlap` on sorted rectangles: true iff the two rectangles share a cell -/
theorem overlap_iff_share_cell (a b : Rect) (ha : a.1 ≤ a.2.2.1 ∧ a.2.1 ≤ a.2.2.2)
    (hb : b.1 ≤ b.2.2.1 ∧ b.2.1 ≤ b.2.2.2) :
    isOverlap a b = true ↔ ∃ p : Cell, cellInRange p a = true ∧ cellInRange p b = true := by
  rw [isOverlap_iff]
  constructor
  · intro h
    refine ⟨(max a.1 b.1, max a.2.1 b.2.1), ?_, ?_⟩ <;> rw [cellInRange_iff] <;> simp only [] <;> omega
  · rintro ⟨p, h1, h2⟩
    rw [cellInRange_iff] at h1 h2
    omega

/-- `checkCellInRangeRef` on a strict cell and a strict range: membership in the
rectangle **as written** (the corners are not sorted: `B2` is not in `C3:A1`); a
second argument that is not `x:y` is "not in range" without an error. -/
theorem check_in_range_exact (cell rng : List Char) (c r c1 r1 c2 r2 : Nat)
    (hc : parseA1 cell = some (c, r)) (hr : parseRangeStrict rng = some (c1, r1, c2, r2)) :
    checkCellInRangeRef cell rng = .ok (decide (c1 ≤ c ∧ c ≤ c2 ∧ r1 ≤ r ∧ r ≤ r2)) := by
  obtain ⟨a, b, hsp⟩ := splitColon_of_parseRange hr
  unfold checkCellInRangeRef
  simp only [spec_sound cell c r hc, hsp, range_strict_accepted rng c1 r1 c2 r2 hr]
  congr 1
  rw [Bool.eq_iff_iff, cellInRange_iff]
  simp only [decide_eq_true_eq]
  omega

/-- **denotation of `flatSqref`, full strength**: whenever `flatSqref` accepts a
sequence, the cells it enumerates are exactly the cells the sequence denotes — every
cell of every reference, nothing else, whatever the order of the corners, the
spelling of the references and the white space between them. -/
theorem flat_denotes (sqref : List Char) (cells : List Cell) (h : flatSqref sqref = .ok cells)
    (p : Cell) : p ∈ cells ↔ sqrefHas sqref p :=
  flatRefs_denotes h p

/-- `cells[col]` of the Go map: the enumerated cells with that column -/
theorem flat_column_bucket (cells : List Cell) (col : Int) (p : Cell) :
    p ∈ colOf cells col ↔ p ∈ cells ∧ p.1 = col := by
  simp [colOf, List.mem_filter]

/-- every enumerated cell lies inside the grid -/
theorem flat_in_grid (sqref : List Char) (cells : List Cell) (h : flatSqref sqref = .ok cells)
    (p : Cell) (hp : p ∈ cells) :
    1 ≤ p.1 ∧ p.1 ≤ (Facts.MaxColumns : Int) ∧ 1 ≤ p.2 ∧ p.2 ≤ (Facts.TotalRows : Int) := by
  obtain ⟨ref, _, hh⟩ := (flat_denotes sqref cells h p).mp hp
  rcases hh with ⟨c, r, hq, rfl⟩ | ⟨c1, r1, c2, r2, hq, h1, h2, h3, h4⟩
  · obtain ⟨_, _, _, _, _, _, _, _, _, _, _, _, a1, a2, _, a3, a4⟩ := shape_of_parseA1 hq
    simp only []; omega
  · obtain ⟨A, B, _, hA, hB⟩ := (parseRangeStrict_iff ref c1 r1 c2 r2).mp hq
    obtain ⟨_, _, _, _, _, _, _, _, _, _, _, _, a1, a2, _, a3, a4⟩ := hA
    obtain ⟨_, _, _, _, _, _, _, _, _, _, _, _, b1, b2, _, b3, b4⟩ := hB
    omega

/-- **exact acceptance of `flatSqref`, full strength** (after the repair of
`sqref:accept-non-ref:skipped-multi-colon`): it accepts a sequence iff EVERY
white-space separated reference is a strict A1 cell or a strict `cell:cell` range. -/
theorem flat_accepts_iff (sqref : List Char) :
    (∃ cells, flatSqref sqref = .ok cells) ↔
      ∀ ref ∈ fields sqref, (∃ c r, parseA1 ref = some (c, r)) ∨ (∃ q, parseRangeStrict ref = some q) := by
  unfold flatSqref
  rw [flatRefs_ok_iff]
  constructor
  · intro h ref hr; exact (flatRef_ok_iff ref).mp (h ref hr)
  · intro h ref hr; exact (flatRef_ok_iff ref).mpr (h ref hr)

/-- hence an accepted sequence denotes a cell through each of its references:
nothing is ignored (every reference contributes at least its first corner) -/
theorem flat_nothing_ignored (sqref : List Char) (cells : List Cell) (h : flatSqref sqref = .ok cells)
    (ref : List Char) (hr : ref ∈ fields sqref) : ∃ p ∈ cells, refHas ref p := by
  rcases (flat_accepts_iff sqref).mp ⟨cells, h⟩ ref hr with ⟨c, r, hp⟩ | ⟨⟨c1, r1, c2, r2⟩, hq⟩
  · have hh : refHas ref ((c : Int), (r : Int)) := Or.inl ⟨c, r, hp, rfl⟩
    exact ⟨_, (flat_denotes sqref cells h _).mpr ⟨ref, hr, hh⟩, hh⟩
  · have hh : refHas ref ((c1 : Int), (r1 : Int)) :=
      Or.inr ⟨c1, r1, c2, r2, hq, by simp only []; omega, by simp only []; omega,
        by simp only []; omega, by simp only []; omega⟩
    exact ⟨_, (flat_denotes sqref cells h _).mpr ⟨ref, hr, hh⟩, hh⟩

/-- regression witnesses (literals) for the repaired finding: a reference with two or
more colons is rejected, alone or inside a sequence -/
theorem flat_reject_witnesses :
    (∃ e, flatSqref ['A', '1', ':', 'B', '2', ':', 'C', '3'] = .error e) ∧
    (∃ e, flatSqref ['x', ':', 'y', ':', 'z'] = .error e) ∧
    (∃ e, flatSqref ['A', '1', ' ', 'x', ':', 'y', ':', 'z'] = .error e) ∧
    flatSqref ['A', '1', ' ', 'B', '2', ':', 'A', '2'] = .ok [(1, 1), (1, 2), (2, 2)] := by
  refine ⟨⟨.param, by decide +kernel⟩, ⟨.param, by decide +kernel⟩, ⟨.param, by decide +kernel⟩,
    by decide +kernel⟩

/-- **`squashSqref` preserves the denotation** (coordinate level): for the cells of
one column in strictly ascending row order — what `flatSqref` yields per column for
ascending, duplicate-free areas — the emitted single cells and spans denote exactly
the input cells. (For non-ascending or duplicated input it does not: that is C18's
`dvdel:areas-not-ascending` / `dvdel:overlapping-areas`.) -/
theorem squash_denotes (c : Int) (cells : List Cell) (hcol : ∀ x ∈ cells, x.1 = c)
    (hasc : List.Pairwise (fun a b : Cell => a.2 < b.2) cells) (p : Cell) :
    (∃ piece ∈ squashPieces cells, pieceHas piece p) ↔ p ∈ cells :=
  squashPieces_denotes c cells hcol hasc p

/-- rendering of a piece inside the grid denotes what the piece denotes: a single
cell renders to its canonical name, a one-column span to `top:bottom` -/
theorem render_piece_denotes (c r1 r2 : Nat) (hc : 1 ≤ c ∧ c ≤ Facts.MaxColumns)
    (h1 : 1 ≤ r1 ∧ r1 ≤ Facts.TotalRows) (h2 : 1 ≤ r2 ∧ r2 ≤ Facts.TotalRows) (hle : r1 ≤ r2) (p : Cell) :
    (refHas (renderPiece (.one ((c : Int), (r1 : Int)))) p ↔ pieceHas (.one ((c : Int), (r1 : Int))) p) ∧
    (refHas (renderPiece (.span ((c : Int), (r1 : Int)) ((c : Int), (r2 : Int)))) p ↔
      pieceHas (.span ((c : Int), (r1 : Int)) ((c : Int), (r2 : Int))) p) := by
  constructor
  · have henc := cell_encode_eq c r1 false hc.1 hc.2 h1.1 h1.2
    have hsh := cell_encode_shape c r1 false hc.1 hc.2 h1.1 h1.2
    simp only [renderPiece, henc, pieceHas]
    have hp := parseA1_of_shape hsh
    constructor
    · rintro (⟨c', r', hp', rfl⟩ | ⟨_, _, _, _, hq, _⟩)
      · rw [hp] at hp'; cases hp'; rfl
      · obtain ⟨a, b, hab⟩ := splitColon_of_parseRange hq
        rw [splitColon_of_parseA1 hp] at hab; cases hab
    · intro e; exact Or.inl ⟨c, r1, hp, e⟩
  · obtain ⟨ref, henc, hdec⟩ := range_encode_decode c r1 c r2 false hc h1 hc h2
    simp only [renderPiece, henc, pieceHas]
    have hq := (range_decode_accepts_iff ref c r1 c r2).mp hdec
    constructor
    · rintro (⟨c', r', hp', _⟩ | ⟨a1, b1, a2, b2, hq', g1, g2, g3, g4⟩)
      · obtain ⟨a, b, hab⟩ := splitColon_of_parseRange hq
        rw [splitColon_of_parseA1 hp'] at hab; cases hab
      · rw [hq] at hq'; cases hq'
        exact ⟨by omega, trivial, by omega, by omega⟩
    · rintro ⟨g1, _, g3, g4⟩
      exact Or.inr ⟨c, r1, c, r2, hq, by omega, by omega, by omega, by omega⟩

/-- **`squashSqref` preserves the denotation, string level, whole lists**: for the
cells of one in-grid column in strictly ascending in-grid rows, the reference strings
`squashSqref` returns denote — by the strict grammar, i.e. as `flatSqref` would
enumerate them again — exactly the input cells. -/
theorem squash_refs_denote (c : Nat) (hc : 1 ≤ c ∧ c ≤ Facts.MaxColumns) (cells : List Cell)
    (hcol : ∀ x ∈ cells, x.1 = (c : Int))
    (hrow : ∀ x ∈ cells, 1 ≤ x.2 ∧ x.2 ≤ (Facts.TotalRows : Int))
    (hasc : List.Pairwise (fun a b : Cell => a.2 < b.2) cells) (p : Cell) :
    (∃ ref ∈ squashSqref cells, refHas ref p) ↔ p ∈ cells := by
  rw [← squash_denotes (c : Int) cells hcol hasc p]
  unfold squashSqref
  have hwf := squashPieces_wf (c : Int) cells hcol hasc
  have key : ∀ piece ∈ squashPieces cells, (refHas (renderPiece piece) p ↔ pieceHas piece p) := by
    intro piece hpc
    have hw := hwf piece hpc
    cases piece with
    | one q =>
      obtain ⟨hq, hq1⟩ := hw
      have hr := hrow q hq
      have e : q = ((c : Int), ((q.2.toNat : Nat) : Int)) := Prod.ext hq1 (by simp only []; omega)
      rw [e]
      exact (render_piece_denotes c q.2.toNat q.2.toNat hc (by omega) (by omega) (Nat.le_refl _) p).1
    | span a b =>
      obtain ⟨ha, hb, ha1, hb1, hle⟩ := hw
      have hra := hrow a ha
      have hrb := hrow b hb
      have ea : a = ((c : Int), ((a.2.toNat : Nat) : Int)) := Prod.ext ha1 (by simp only []; omega)
      have eb : b = ((c : Int), ((b.2.toNat : Nat) : Int)) := Prod.ext hb1 (by simp only []; omega)
      rw [ea, eb]
      exact (render_piece_denotes c a.2.toNat b.2.toNat hc (by omega) (by omega) (by omega) p).2
  constructor
  · rintro ⟨ref, hr, hh⟩
    obtain ⟨piece, hpc, rfl⟩ := List.mem_map.mp hr
    exact ⟨piece, hpc, (key piece hpc).mp hh⟩
  · rintro ⟨piece, hpc, hh⟩
    exact ⟨renderPiece piece, List.mem_map.mpr ⟨piece, hpc, rfl⟩, (key piece hpc).mpr hh⟩

/-! ## `mergeCellsParser` on a sheet with merged cells -/

/-- **spelling independence of the redirect, full strength**: whatever the merged-cell
list of the worksheet (well-formed or not), two accepted spellings of one cell are
redirected to the same anchor (or fail with the same error) — every API that goes
through `mergeCellsParser` treats them as the same cell on sheets with merged cells too. -/
theorem anchor_spelling_independent (ms : List (List Char)) (s t : List Char) (ci ri : Int)
    (hs : cellNameToCoordinates s = .ok (ci, ri)) (ht : cellNameToCoordinates t = .ok (ci, ri)) :
    mergeParseWith ms s = mergeParseWith ms t := by
  unfold mergeParseWith
  rw [upper_same_cell s ci ri hs, upper_same_cell t ci ri ht]

/-- the redirect accepts only strict A1 references, and without merged cells it is
the normalisation of `RefApi.mergeParse` -/
theorem anchor_accepts_only_a1 (ms : List (List Char)) (s a : List Char)
    (h : mergeParseWith ms s = .ok a) : ∃ c r, parseA1 s = some (c, r) := by
  unfold mergeParseWith at h
  split at h
  · cases h
  · rename_i c r hd
    obtain ⟨cn, rn, hp, _, _⟩ := rejects_non_a1 s c r ((api_strict s c r).mp hd)
    exact ⟨cn, rn, hp⟩

theorem anchor_no_merges (s a : List Char) :
    mergeParseWith [] s = .ok a ↔ mergeParse s = some a := by
  unfold mergeParseWith mergeParse apiRef getterRef setterRef
  cases hd : cellNameToCoordinates (s.map toUpper) with
  | error e => simp
  | ok p =>
    obtain ⟨c, r⟩ := p
    cases hc : coordinatesToCellName c r false with
    | error e => simp [hc]
    | ok canon => simp [hc, redirectScan]

/-- **exact result of the redirect**: the canonical name when no merged-cell reference
contains the cell, otherwise the first `:`-part, as stored, of the FIRST reference
(in list order) whose sorted rectangle contains the cell. -/
theorem anchor_exact (ms : List (List Char)) (s a : List Char) (ci ri : Int)
    (hs : cellNameToCoordinates s = .ok (ci, ri)) (h : mergeParseWith ms s = .ok a) :
    (coordinatesToCellName ci ri false = .ok a ∧ ∀ ref ∈ ms, ¬ MergeHit (ci, ri) ref) ∨
    ∃ pre ref post, ms = pre ++ ref :: post ∧ (∀ x ∈ pre, ¬ MergeHit (ci, ri) x) ∧
      MergeHit (ci, ri) ref ∧ a = (splitColon ref).headD [] := by
  unfold mergeParseWith at h
  rw [upper_same_cell s ci ri hs] at h
  obtain ⟨_, _, _, _, canon, hcanon, _⟩ := cell_decode_encode s ci ri hs
  simp only [hcanon] at h
  rcases redirectScan_ok h with ⟨h1, h2⟩ | h2
  · exact Or.inl ⟨by rw [h1]; exact hcanon, h2⟩
  · exact Or.inr h2

/-- on a well-formed worksheet (every `<mergeCell ref>` a strict range, as `MergeCell`
writes them) a hit redirects to the first corner of the range, spelled as stored,
which is an accepted cell name denoting that corner; the cell lies in the rectangle. -/
theorem anchor_is_first_corner (p : Cell) (ref : List Char) (c1 r1 c2 r2 : Nat)
    (hq : parseRangeStrict ref = some (c1, r1, c2, r2)) (hit : MergeHit p ref) :
    cellNameToCoordinates ((splitColon ref).headD []) = .ok ((c1 : Int), (r1 : Int)) ∧
    min (c1 : Int) c2 ≤ p.1 ∧ p.1 ≤ max (c1 : Int) c2 ∧ min (r1 : Int) r2 ≤ p.2 ∧ p.2 ≤ max (r1 : Int) r2 := by
  have hs := (parseRangeStrict_iff ref c1 r1 c2 r2).mp hq
  have hcount := countColon_strict hs
  obtain ⟨_, q, hdec, hin⟩ := hit
  simp only [hcount, bne_self_eq_false, Bool.false_eq_true, if_false] at hdec
  rw [range_strict_accepted ref c1 r1 c2 r2 hq] at hdec
  cases hdec
  rw [sort_minmax, cellInRange_iff] at hin
  obtain ⟨A, B, rfl, hA, hB⟩ := hs
  rw [splitColon_two A B (shape_nocolon hA) (shape_nocolon hB)]
  exact ⟨decode_of_shape hA, hin⟩

/-! ## Column ranges (`parseColRange`: SetColVisible, SetColStyle, SetColWidth) -/

/-- **exact acceptance of a column range, full strength** (after the repair of
`colrange:accept-extra-part`): `parseColRange s = (lo, hi)` iff `s` is one accepted
column name (`lo = hi` = its number) or exactly two accepted column names separated
by one `:` (`lo`, `hi` = the smaller and the larger number). -/
theorem colrange_accepts_iff (s : List Char) (lo hi : Int) :
    parseColRange s = .ok (lo, hi) ↔
      (∃ v, columnNameToNumber s = .ok v ∧ lo = v ∧ hi = v) ∨
      (∃ a b x y, s = a ++ ':' :: b ∧ columnNameToNumber a = .ok x ∧ columnNameToNumber b = .ok y ∧
        lo = min x y ∧ hi = max x y) := by
  constructor
  · intro h
    unfold parseColRange at h
    split at h
    · rename_i a hsp
      obtain ⟨rfl, _⟩ := splitColon_single hsp
      split at h
      · cases h
      · rename_i v hv
        simp only [Except.ok.injEq, Prod.mk.injEq] at h
        exact Or.inl ⟨v, hv, h.1.symm, h.2.symm⟩
    · rename_i a b hsp
      obtain ⟨rfl, _, _⟩ := splitColon_exactly_two hsp
      split at h
      · cases h
      · rename_i x hx
        split at h
        · cases h
        · rename_i y hy
          refine Or.inr ⟨a, b, x, y, rfl, hx, hy, ?_⟩
          by_cases hlt : y < x
          · simp only [hlt, if_true, Except.ok.injEq, Prod.mk.injEq] at h
            omega
          · simp only [hlt, if_false, Except.ok.injEq, Prod.mk.injEq] at h
            omega
    · cases h
  · rintro (⟨v, hv, rfl, rfl⟩ | ⟨a, b, x, y, rfl, hx, hy, rfl, rfl⟩)
    · unfold parseColRange
      rw [splitColon_of_nocolon (colname_nocolon hv)]
      simp only [hv]
    · unfold parseColRange
      rw [splitColon_two a b (colname_nocolon hx) (colname_nocolon hy)]
      simp only [hx, hy]
      by_cases hlt : y < x
      · simp only [hlt, if_true, Except.ok.injEq, Prod.mk.injEq]; omega
      · simp only [hlt, if_false, Except.ok.injEq, Prod.mk.injEq]; omega

/-- an accepted column range is sorted and inside 1..MaxColumns -/
theorem colrange_sorted_in_grid (s : List Char) (lo hi : Int) (h : parseColRange s = .ok (lo, hi)) :
    1 ≤ lo ∧ lo ≤ hi ∧ hi ≤ (Facts.MaxColumns : Int) := by
  rcases (colrange_accepts_iff s lo hi).mp h with ⟨v, hv, rfl, rfl⟩ | ⟨a, b, x, y, _, hx, hy, rfl, rfl⟩
  · obtain ⟨h1, h2, _⟩ := col_decode_encode s _ hv
    omega
  · obtain ⟨h1, h2, _⟩ := col_decode_encode a x hx
    obtain ⟨h3, h4, _⟩ := col_decode_encode b y hy
    omega

/-- `SetColWidth(sheet, startCol, endCol, w)` accepts iff BOTH arguments are accepted
column names (a range, or anything with a colon, in either argument is rejected) -/
theorem setcolwidth_accepts_iff (a b : List Char) :
    (∃ q, colWidthRange a b = .ok q) ↔
      (∃ x, columnNameToNumber a = .ok x) ∧ (∃ y, columnNameToNumber b = .ok y) := by
  unfold colWidthRange
  constructor
  · rintro ⟨⟨lo, hi⟩, h⟩
    rcases (colrange_accepts_iff _ lo hi).mp h with ⟨v, hv, _, _⟩ | ⟨a', b', x, y, hab, hx, hy, _, _⟩
    · have := colname_nocolon hv ':' (by simp)
      exact absurd this (by decide)
    · have hab' : a ++ ':' :: b = a' ++ ':' :: b' := by simpa using hab
      obtain ⟨rfl, rfl⟩ := colon_cut_unique hab' (colname_nocolon hx) (colname_nocolon hy)
      exact ⟨⟨x, hx⟩, ⟨y, hy⟩⟩
  · rintro ⟨⟨x, hx⟩, ⟨y, hy⟩⟩
    exact ⟨(min x y, max x y), (colrange_accepts_iff _ _ _).mpr
      (Or.inr ⟨a, b, x, y, by simp, hx, hy, rfl, rfl⟩)⟩

/-- regression witnesses (literals) for the repaired `colrange:accept-extra-part` -/
theorem colrange_reject_witnesses :
    (∃ e, parseColRange ['A', ':', 'C', ':', 'j'] = .error e) ∧
    (∃ e, parseColRange ['B', ':', 'D', ':', 'F'] = .error e) ∧
    (∃ e, colWidthRange ['A', ':', 'B'] ['C'] = .error e) ∧
    parseColRange ['c', ':', 'a'] = .ok (1, 3) := by
  refine ⟨⟨.colName, by decide +kernel⟩, ⟨.colName, by decide +kernel⟩, ⟨.colName, by decide +kernel⟩,
    by decide +kernel⟩

/-! ## Lookup paths on sheets WITH merged cells -/

/-- **spelling independence of every path through `mergeCellsParser`, any merged-cell
list** (well-formed or not): two accepted spellings of one cell reach the same key,
or fail with the same error — setters, string getters, rich text, hyperlinks. -/
theorem paths_merged_spelling_independent (ms : List (List Char)) (s t : List Char) (ci ri : Int)
    (hs : cellNameToCoordinates s = .ok (ci, ri)) (ht : cellNameToCoordinates t = .ok (ci, ri)) :
    pathPrepareM ms s = pathPrepareM ms t ∧ pathGetStringM ms s = pathGetStringM ms t ∧
    pathRichGetM ms s = pathRichGetM ms t ∧ pathLinkM ms s = pathLinkM ms t := by
  have ha := anchor_spelling_independent ms s t ci ri hs ht
  obtain ⟨q1, hq1⟩ := split_ok_of_decode hs
  obtain ⟨q2, hq2⟩ := split_ok_of_decode ht
  unfold pathRichGetM pathPrepareM pathGetStringM pathLinkM
  simp only [ha, hq1, hq2, and_self]

/-- **where the paths land on a well-formed sheet** (every `<mergeCell ref>` a strict
range, as `MergeCell` writes them): if no merged range contains the cell, exactly
where they land without merged cells (`paths_canonical`); otherwise ALL of them land
on the first corner of the first merged range (in list order) containing the cell —
the setter writes that grid position, the string getter compares with its canonical
name, the hyperlink key is that corner as spelled in the stored reference. -/
theorem paths_merged_land (ms : List (List Char)) (s : List Char) (ci ri : Int)
    (hs : cellNameToCoordinates s = .ok (ci, ri))
    (hwf : ∀ ref ∈ ms, ∃ c1 r1 c2 r2, parseRangeStrict ref = some (c1, r1, c2, r2)) :
    (∃ canon, coordinatesToCellName ci ri false = .ok canon ∧ (∀ ref ∈ ms, ¬ MergeHit (ci, ri) ref) ∧
      pathPrepareM ms s = .ok (.xy ci ri) ∧ pathGetStringM ms s = .ok (.ref canon) ∧
      pathLinkM ms s = .ok (.ref canon)) ∨
    (∃ pre ref post, ∃ c1 r1 c2 r2 : Nat, ∃ canon1,
      ms = pre ++ ref :: post ∧ (∀ x ∈ pre, ¬ MergeHit (ci, ri) x) ∧
      parseRangeStrict ref = some (c1, r1, c2, r2) ∧
      min (c1 : Int) c2 ≤ ci ∧ ci ≤ max (c1 : Int) c2 ∧ min (r1 : Int) r2 ≤ ri ∧ ri ≤ max (r1 : Int) r2 ∧
      coordinatesToCellName (c1 : Int) (r1 : Int) false = .ok canon1 ∧
      pathPrepareM ms s = .ok (.xy (c1 : Int) (r1 : Int)) ∧ pathGetStringM ms s = .ok (.ref canon1) ∧
      pathLinkM ms s = .ok (.ref ((splitColon ref).headD []))) := by
  obtain ⟨_, _, _, _, canon, hcanon, hdec⟩ := cell_decode_encode s ci ri hs
  obtain ⟨q, hq⟩ := split_ok_of_decode hs
  have hwf' : ∀ ref ∈ ms, ∃ c1 r1 c2 r2, RangeStrict ref c1 r1 c2 r2 := by
    intro ref hr
    obtain ⟨c1, r1, c2, r2, h⟩ := hwf ref hr
    exact ⟨c1, r1, c2, r2, (parseRangeStrict_iff ref c1 r1 c2 r2).mp h⟩
  obtain ⟨a, ha⟩ : ∃ a, mergeParseWith ms s = .ok a := by
    unfold mergeParseWith
    rw [upper_same_cell s ci ri hs]
    simp only [hcanon]
    exact redirectScan_total (ci, ri) canon ms hwf'
  rcases anchor_exact ms s a ci ri hs ha with ⟨h1, h2⟩ | ⟨pre, ref, post, hms, hpre, hit, rfl⟩
  · rw [hcanon] at h1; cases h1
    refine Or.inl ⟨canon, hcanon, h2, ?_, ?_, ?_⟩
    · unfold pathPrepareM; simp only [ha, hdec]
    · unfold pathGetStringM; simp only [ha, hdec, hcanon]
    · unfold pathLinkM; simp only [hq, ha]
  · obtain ⟨c1, r1, c2, r2, hpr⟩ := hwf ref (by rw [hms]; simp)
    obtain ⟨hcorner, b1, b2, b3, b4⟩ := anchor_is_first_corner (ci, ri) ref c1 r1 c2 r2 hpr hit
    obtain ⟨_, _, _, _, canon1, hcanon1, _⟩ := cell_decode_encode _ _ _ hcorner
    refine Or.inr ⟨pre, ref, post, c1, r1, c2, r2, canon1, hms, hpre, hpr, b1, b2, b3, b4, hcanon1, ?_, ?_, ?_⟩
    · unfold pathPrepareM; simp only [ha, hcorner]
    · unfold pathGetStringM; simp only [ha, hcorner, hcanon1]
    · unfold pathLinkM; simp only [hq, ha]

/-! ## References inside option structs and the remaining cell/range functions

`XlModel.RefOpts.optAccepts` transcribes what each API does with the reference before
storing it. -/

/-- **strictness, direct-decode fields**: `Shape.Cell` (AddShape), `SlicerOptions.Cell`
(AddSlicer), `FormControl.Cell` (AddFormControl) and `InsertPageBreak` accept exactly
the strict A1 references inside the grid. -/
theorem opt_direct_accepts_iff_a1 (s : List Char) :
    (optAccepts .shape s = true ↔ ∃ c r, parseA1 s = some (c, r)) ∧
    (optAccepts .slicer s = true ↔ ∃ c r, parseA1 s = some (c, r)) ∧
    (optAccepts .formCtl s = true ↔ ∃ c r, parseA1 s = some (c, r)) ∧
    (optAccepts .pageBreak s = true ↔ ∃ c r, parseA1 s = some (c, r)) := by
  refine ⟨?_, ?_, ?_, ?_⟩ <;> (simp only [optAccepts]; exact decode_isOk_iff_a1 s)

/-- `FormControl.CellLink` of a scroll bar / spin button: empty, or a strict A1 reference -/
theorem opt_formlink_spin_accepts_iff (s : List Char) :
    optAccepts .formLinkSpin s = true ↔ s = [] ∨ ∃ c r, parseA1 s = some (c, r) := by
  simp only [optAccepts, Bool.or_eq_true, List.isEmpty_iff]
  rw [decode_isOk_iff_a1]

/-- `SetSheetRow(sheet, cell, &[v1, v2])`: the start cell is a strict A1 reference and
the second value still fits into the grid -/
theorem opt_sheetrow2_accepts_iff (s : List Char) :
    optAccepts .sheetRow2 s = true ↔ ∃ c r, parseA1 s = some (c, r) ∧ c + 1 ≤ Facts.MaxColumns := by
  simp only [optAccepts]
  cases hd : cellNameToCoordinates s with
  | error e =>
    simp only [Bool.false_eq_true, false_iff, not_exists, not_and]
    intro c r hp
    have := spec_sound s c r hp
    rw [hd] at this; cases this
  | ok p =>
    obtain ⟨ci, ri⟩ := p
    obtain ⟨c, r, hsh, rfl, rfl⟩ := shape_of_decode hd
    have hp := parseA1_of_shape hsh
    obtain ⟨_, _, _, _, _, _, _, _, _, _, _, _, hc1, hc2, _, hr1, hr2⟩ := hsh
    have hM := limits_ok
    by_cases hfit : c + 1 ≤ Facts.MaxColumns
    · have := cell_encode_eq (c + 1) r false (by omega) hfit hr1 hr2
      have e : ((c : Int) + 1) = ((c + 1 : Nat) : Int) := by omega
      simp only [e, this, true_iff]
      exact ⟨c, r, hp, hfit⟩
    · have hbad : coordinatesToCellName ((c : Int) + 1) (r : Int) false = .error .colNumber := by
        unfold coordinatesToCellName columnNumberToName
        have a1 : ¬ ((c : Int) + 1 < 1) := by omega
        have a2 : ¬ ((r : Int) < 1) := by omega
        have a3 : ¬ ((r : Int) > (Facts.TotalRows : Int)) := by omega
        have a4 : ((c : Int) + 1 > (Facts.MaxColumns : Int)) := by omega
        simp [a1, a2, a3, a4]
      simp only [hbad, Bool.false_eq_true, false_iff, not_exists, not_and]
      intro c' r' hp' hfit'
      rw [hp] at hp'; cases hp'
      exact hfit hfit'

/-- `Table.Range` (AddTable): exactly the strict `cell:cell` ranges -/
theorem opt_table_accepts_iff (s : List Char) :
    optAccepts .table s = true ↔ ∃ q, parseRangeStrict s = some q := by
  simp only [optAccepts]; exact range_isOk_iff_strict s

/-- **exact acceptance of `adjustRange`** (`PivotTableOptions.DataRange`,
`PivotTableRange`): `sheet!range` with exactly one `!`, where `range` — after EVERY
`$` in it has been deleted — is a strict `cell:cell` range that is not a single cell;
the rectangle returned is the sorted one. -/
theorem pivot_range_accepts_iff (s sheet : List Char) (rect : Rect) :
    adjustRange s = .ok (sheet, rect) ↔
      ∃ rng, ∃ c1 r1 c2 r2 : Nat, splitBang s = [sheet, rng] ∧
        parseRangeStrict (stripDollar rng) = some (c1, r1, c2, r2) ∧ ¬ (c1 = c2 ∧ r1 = r2) ∧
        rect = sortCoordinates ((c1 : Int), (r1 : Int), (c2 : Int), (r2 : Int)) := by
  unfold adjustRange
  constructor
  · intro h
    split at h
    · cases h
    · split at h
      · rename_i sh rng hsp
        split at h
        · cases h
        · rename_i x1 y1 x2 y2 hd
          obtain ⟨n1, m1, n2, m2, rfl, rfl, rfl, rfl, hq⟩ := range_rejects_non_range _ _ _ _ _ hd
          split at h
          · cases h
          · rename_i hne
            simp only [Except.ok.injEq, Prod.mk.injEq] at h
            obtain ⟨rfl, rfl⟩ := h
            refine ⟨rng, n1, m1, n2, m2, hsp, hq, ?_, rfl⟩
            intro ⟨e1, e2⟩
            apply hne
            simp [e1, e2]
      · cases h
  · rintro ⟨rng, c1, r1, c2, r2, hsp, hq, hne, rfl⟩
    have hnonempty : s.isEmpty = false := by
      cases s with
      | nil => simp [splitBang, splitBangAux] at hsp
      | cons a as => rfl
    simp only [hnonempty, Bool.false_eq_true, if_false, hsp, range_strict_accepted _ c1 r1 c2 r2 hq]
    have : ((c1 : Int) == (c2 : Int) && (r1 : Int) == (r2 : Int)) = false := by
      simp only [Bool.and_eq_false_iff, beq_eq_false_iff_ne, ne_eq]
      by_cases e : c1 = c2
      · exact Or.inr (by intro h; exact hne ⟨e, by omega⟩)
      · exact Or.inl (by intro h; exact e (by omega))
    simp only [this, Bool.false_eq_true, if_false]

/-- what is true of the pivot ranges (`…_partial`: the missing hypothesis is that the
range part is itself a strict range): every `sheet!cell:cell` that is not a single
cell is accepted and decoded to its sorted corners. -/
theorem pivot_range_strict_partial (sheet rng : List Char) (c1 r1 c2 r2 : Nat)
    (hbang : splitBang (sheet ++ ['!'] ++ rng) = [sheet, rng])
    (hq : parseRangeStrict rng = some (c1, r1, c2, r2)) (hne : ¬ (c1 = c2 ∧ r1 = r2)) :
    adjustRange (sheet ++ ['!'] ++ rng) =
      .ok (sheet, sortCoordinates ((c1 : Int), (r1 : Int), (c2 : Int), (r2 : Int))) := by
  rw [pivot_range_accepts_iff]
  refine ⟨rng, c1, r1, c2, r2, hbang, ?_, hne, rfl⟩
  exact (parseRangeStrict_iff _ _ _ _ _).mpr
    (rangeStrict_stripDollar ((parseRangeStrict_iff _ _ _ _ _).mp hq))

/-- **finding (open)**: the pivot table ranges accept a `$` anywhere in the range part
(`adjustRange` deletes every `$` before decoding — the leniency repaired in
`rangeRefToCoordinates` lives on here): `AddPivotTable` with `DataRange` or
`PivotTableRange` `"Sheet1!A$$1:C4"`, `"Sheet1!$$A1:$C4$"` succeeds. Oracle
signatures `optref:accept-non-ref:pivotdata`, `optref:accept-non-ref:pivotloc`. -/
theorem finding_pivot_range_stray_dollar :
    adjustRange ['S', '!', 'A', '$', '$', '1', ':', 'C', '4'] = .ok (['S'], (1, 1, 3, 4)) ∧
    parseRangeStrict ['A', '$', '$', '1', ':', 'C', '4'] = none ∧
    adjustRange ['S', '!', '$', '$', 'A', '1', ':', '$', 'C', '4', '$'] = .ok (['S'], (1, 1, 3, 4)) := by
  refine ⟨by decide +kernel, by decide +kernel, by decide +kernel⟩

/-- **finding (open)**: seven option fields / arguments are stored without any
validation — every string is accepted: `DataValidation.Sqref` (AddDataValidation),
`SparklineOptions.Location` and `.Range` (AddSparkline), `Panes.TopLeftCell`,
`Selection.ActiveCell`, `Selection.SQRef` (SetPanes), `FormControl.CellLink` of a
check box; `AddIgnoredErrors` rejects only the empty string. Witness `"junk"` (not an
A1 reference, not a range). Oracle signatures `optref:accept-non-ref:<kind>`. -/
theorem finding_opt_unvalidated :
    (∀ s, optAccepts .dvSqref s = true) ∧ (∀ s, optAccepts .sparkLoc s = true) ∧
    (∀ s, optAccepts .sparkRng s = true) ∧ (∀ s, optAccepts .panesTopLeft s = true) ∧
    (∀ s, optAccepts .panesActive s = true) ∧ (∀ s, optAccepts .panesSqref s = true) ∧
    (∀ s, optAccepts .formLinkCheck s = true) ∧ (∀ s, s ≠ [] → optAccepts .ignoredErrors s = true) ∧
    parseA1 ['j', 'u', 'n', 'k'] = none ∧ parseRangeStrict ['j', 'u', 'n', 'k'] = none := by
  refine ⟨fun _ => rfl, fun _ => rfl, fun _ => rfl, fun _ => rfl, fun _ => rfl, fun _ => rfl,
    fun _ => rfl, ?_, by decide +kernel, by decide +kernel⟩
  intro s hs
  cases s with
  | nil => exact absurd rfl hs
  | cons a as => rfl

/-- `UnsetConditionalFormat` after `SetConditionalFormat` on a plain range: the format
is found iff the argument is literally the stored reference, i.e. both corners in
their canonical relative spelling, in the order they were given. -/
theorem cf_unset_finds_iff (s t : List Char) :
    cfUnsetFinds s t = some true ↔ cfStoredRef s = some t := by
  unfold cfUnsetFinds
  cases h : cfStoredRef s with
  | none => simp
  | some stored => simp only [Option.some.injEq, beq_iff_eq]

/-- what is true (`…_partial`: the missing hypothesis is "`t` is the canonical
spelling"): unsetting by the canonical spelling of the corners always finds it -/
theorem cf_unset_canonical_partial (a b : List Char) (ca ra cb rb : Int)
    (ha : cellNameToCoordinates a = .ok (ca, ra)) (hb : cellNameToCoordinates b = .ok (cb, rb)) :
    ∃ x y, coordinatesToCellName ca ra false = .ok x ∧ coordinatesToCellName cb rb false = .ok y ∧
      cfUnsetFinds (a ++ ':' :: b) (x ++ [':'] ++ y) = some true := by
  obtain ⟨_, _, _, _, x, hx, _⟩ := cell_decode_encode a ca ra ha
  obtain ⟨_, _, _, _, y, hy, _⟩ := cell_decode_encode b cb rb hb
  obtain ⟨na, ma, hsa, _, _⟩ := shape_of_decode ha
  obtain ⟨nb, mb, hsb, _, _⟩ := shape_of_decode hb
  refine ⟨x, y, hx, hy, ?_⟩
  rw [cf_unset_finds_iff]
  unfold cfStoredRef setterRef
  rw [splitColon_two a b (shape_nocolon hsa) (shape_nocolon hsb)]
  simp only [ha, hb, hx, hy]

/-- **finding (open)**: `UnsetConditionalFormat` compares its argument with the stored
reference as a string: after `SetConditionalFormat("Sheet1", "a1:b2", …)` (stored as
`A1:B2`) `UnsetConditionalFormat("Sheet1", "a1:b2")` and `("$A$1:$B$2")` return nil
and leave the format; only `"A1:B2"` removes it. Oracle signature
`optref:spelling:unset-conditional-format`. -/
theorem finding_cf_unset_spelling :
    cfUnsetFinds ['a', '1', ':', 'b', '2'] ['a', '1', ':', 'b', '2'] = some false ∧
    cfUnsetFinds ['a', '1', ':', 'b', '2'] ['$', 'A', '$', '1', ':', '$', 'B', '$', '2'] = some false ∧
    cfUnsetFinds ['a', '1', ':', 'b', '2'] ['A', '1', ':', 'B', '2'] = some true := by
  refine ⟨by decide +kernel, by decide +kernel, by decide +kernel⟩

/-! ## `SetConditionalFormat`'s reference grammar (`parseRef`, `prepareConditionalFormatRange`) -/

/-- **exact acceptance of one part** (`parseRef` as used by `SetConditionalFormat`): with
`t` the text after an optional `sheet!` prefix, the part is accepted iff — tried in
this order — `t` is a strict A1 cell, else an accepted column name, else a string
`strconv.Atoi` reads as an integer in 1..TotalRows (a sign is accepted). -/
theorem cf_part_accepts_iff (ref : List Char) (part : CfPart) :
    cfParseRef ref = .ok part ↔
      (∃ c r, cellNameToCoordinates (cfCellText ref) = .ok (c, r) ∧ part = .cell c r) ∨
      ((∃ e, cellNameToCoordinates (cfCellText ref) = .error e) ∧
        ∃ c, columnNameToNumber (cfCellText ref) = .ok c ∧ part = .col c) ∨
      ((∃ e, cellNameToCoordinates (cfCellText ref) = .error e) ∧
        (∃ e, columnNameToNumber (cfCellText ref) = .error e) ∧
        ∃ r, atoi (cfCellText ref) = some r ∧ 1 ≤ r ∧ r ≤ (Facts.TotalRows : Int) ∧ part = .row r) := by
  unfold cfParseRef
  cases hd : cellNameToCoordinates (cfCellText ref) with
  | ok p =>
    obtain ⟨c, r⟩ := p
    constructor
    · intro h
      simp only [Except.ok.injEq] at h
      exact Or.inl ⟨c, r, rfl, h.symm⟩
    · rintro (⟨c', r', h1, rfl⟩ | ⟨⟨e, he⟩, _⟩ | ⟨⟨e, he⟩, _⟩)
      · cases h1; rfl
      · cases he
      · cases he
  | error e =>
    cases hc : columnNameToNumber (cfCellText ref) with
    | ok c =>
      constructor
      · intro h
        simp only [Except.ok.injEq] at h
        exact Or.inr (Or.inl ⟨⟨e, rfl⟩, c, rfl, h.symm⟩)
      · rintro (⟨_, _, h1, _⟩ | ⟨_, c', h1, rfl⟩ | ⟨_, ⟨e2, he2⟩, _⟩)
        · cases h1
        · cases h1; rfl
        · cases he2
    | error e2 =>
      cases ha : atoi (cfCellText ref) with
      | none =>
        constructor
        · intro h; cases h
        · rintro (⟨_, _, h1, _⟩ | ⟨_, _, h1, _⟩ | ⟨_, _, r, h1, _⟩) <;> cases h1
      | some r =>
        by_cases hr : 1 ≤ r ∧ r ≤ (Facts.TotalRows : Int)
        · simp only [hr, and_self, if_true]
          constructor
          · intro h
            simp only [Except.ok.injEq] at h
            exact Or.inr (Or.inr ⟨⟨e, rfl⟩, ⟨e2, rfl⟩, r, rfl, hr.1, hr.2, h.symm⟩)
          · rintro (⟨_, _, h1, _⟩ | ⟨_, _, h1, _⟩ | ⟨_, _, r', h1, _, _, rfl⟩)
            · cases h1
            · cases h1
            · cases h1; rfl
        · simp only [hr, if_false]
          constructor
          · intro h; cases h
          · rintro (⟨_, _, h1, _⟩ | ⟨_, _, h1, _⟩ | ⟨_, _, r', h1, a, b, _⟩)
            · cases h1
            · cases h1
            · cases h1; exact absurd ⟨a, b⟩ hr

/-- every accepted part stands for a corner inside the grid -/
theorem cf_part_in_grid (ref : List Char) (part : CfPart) (h : cfParseRef ref = .ok part) :
    CfPartOk part := by
  rcases (cf_part_accepts_iff ref part).mp h with ⟨c, r, hd, rfl⟩ | ⟨_, c, hc, rfl⟩ | ⟨_, _, r, _, h1, h2, rfl⟩
  · obtain ⟨a, b, c', d, _⟩ := cell_decode_encode _ c r hd
    exact ⟨a, b, c', d⟩
  · obtain ⟨a, b, _⟩ := col_decode_encode _ c hc
    exact ⟨a, b⟩
  · exact ⟨h1, h2⟩

/-- the name stored for a corner is a strict A1 cell denoting that corner -/
theorem cf_corner_name (part : CfPart) (first : Bool) (hok : CfPartOk part) :
    ∃ c r : Nat, cfCorner first part = ((c : Int), (r : Int)) ∧ Shape (cfName (cfCorner first part)) c r := by
  have hM := limits_ok
  have key : ∀ (c r : Nat), 1 ≤ c → c ≤ Facts.MaxColumns → 1 ≤ r → r ≤ Facts.TotalRows →
      ∃ c' r' : Nat, (((c : Int), (r : Int)) : Int × Int) = ((c' : Int), (r' : Int)) ∧
        Shape (cfName ((c : Int), (r : Int))) c' r' := by
    intro c r a1 a2 a3 a4
    refine ⟨c, r, rfl, ?_⟩
    have henc := cell_encode_eq c r false a1 a2 a3 a4
    have hsh := cell_encode_shape c r false a1 a2 a3 a4
    unfold cfName
    simp only [henc]
    simpa using hsh
  cases part with
  | cell c r =>
    obtain ⟨a, b, c', d⟩ := hok
    obtain ⟨cn, rfl⟩ : ∃ n : Nat, c = n := ⟨c.toNat, by omega⟩
    obtain ⟨rn, rfl⟩ : ∃ n : Nat, r = n := ⟨r.toNat, by omega⟩
    exact key cn rn (by omega) (by omega) (by omega) (by omega)
  | col c =>
    obtain ⟨a, b⟩ := hok
    obtain ⟨cn, rfl⟩ : ∃ n : Nat, c = n := ⟨c.toNat, by omega⟩
    cases first with
    | true =>
      have := key cn 1 (by omega) (by omega) (by omega) (by omega)
      simpa [cfCorner] using this
    | false =>
      have := key cn Facts.TotalRows (by omega) (by omega) (by omega) (by omega)
      simpa [cfCorner] using this
  | row r =>
    obtain ⟨a, b⟩ := hok
    obtain ⟨rn, rfl⟩ : ∃ n : Nat, r = n := ⟨r.toNat, by omega⟩
    cases first with
    | true =>
      have := key 1 rn (by omega) (by omega) (by omega) (by omega)
      simpa [cfCorner] using this
    | false =>
      have := key Facts.MaxColumns rn (by omega) (by omega) (by omega) (by omega)
      simpa [cfCorner] using this

/-- **what `SetConditionalFormat` stores for one area is always a strict reference**:
a strict A1 cell (one part) or a strict `cell:cell` range (two parts) whose corners are
the corners the parts stand for — a whole column part `A` is `A1` as first corner and
`A1048576` as second, a whole row part `5` is `A5` / `XFD5`. -/
theorem cf_area_stored_strict (area stored : List Char) (h : cfArea area = .ok stored) :
    (∃ c r, parseA1 stored = some (c, r)) ∨ (∃ q, parseRangeStrict stored = some q) := by
  unfold cfArea at h
  split at h
  · rename_i a _
    split at h
    · cases h
    · rename_i p hp
      cases h
      obtain ⟨c, r, _, hs⟩ := cf_corner_name p true (cf_part_in_grid a p hp)
      exact Or.inl ⟨c, r, parseA1_of_shape hs⟩
  · rename_i a b _
    split at h
    · cases h
    · rename_i p hp
      split at h
      · cases h
      · rename_i q hq
        cases h
        obtain ⟨c1, r1, _, hs1⟩ := cf_corner_name p true (cf_part_in_grid a p hp)
        obtain ⟨c2, r2, _, hs2⟩ := cf_corner_name q false (cf_part_in_grid b q hq)
        exact Or.inr ⟨(c1, r1, c2, r2), (parseRangeStrict_iff _ c1 r1 c2 r2).mpr ⟨_, _, by simp, hs1, hs2⟩⟩
  · cases h

/-- hence every area of an accepted reference is stored as a strict cell or range:
the worksheet never receives anything `flatSqref` would reject -/
theorem cf_stored_areas_strict (s : List Char) (xs : List (List Char)) (h : cfPrepareAreas s = .ok xs) :
    ∀ x ∈ xs, (∃ c r, parseA1 x = some (c, r)) ∨ (∃ q, parseRangeStrict x = some q) := by
  unfold cfPrepareAreas at h
  split at h
  · cases h
  · generalize cfAreasOf s = areas at h
    induction areas generalizing xs with
    | nil => simp only [cfMapAreas, Except.ok.injEq] at h; subst h; simp
    | cons a rest ih =>
      simp only [cfMapAreas] at h
      split at h
      · cases h
      · rename_i x hx
        split at h
        · cases h
        · rename_i ys hys
          cases h
          intro y hy
          rcases List.mem_cons.mp hy with rfl | hy
          · exact cf_area_stored_strict a _ hx
          · exact ih ys hys y hy

/-- **finding (open)**: `SetConditionalFormat` accepts strings that are not references:
a signed row (`"+5"` → `A5`, `"+1:+3"` → `A1:XFD3`: `strconv.Atoi`), a lone column name
or row number (`"A"` → `A1`, `"5"` → `A5`: only the first cell, not the column / row),
mixed parts (`"A:5"` → `A1:XFD5`, `"A1:C"` → `A1:C1048576`), and a `sheet!` prefix that
is silently dropped (`"Other!A1:B2"` is applied to the sheet passed as argument).
Oracle signatures `cfref:accept-non-ref:signed-row`, `…:lone-column-or-row`,
`…:mixed-parts`, `…:sheet-prefix`. -/
theorem finding_cf_grammar_lenient :
    cfPrepare ['+', '5'] = .ok ['A', '5'] ∧
    cfPrepare ['A'] = .ok ['A', '1'] ∧
    cfPrepare ['A', ':', '5'] = .ok ['A', '1', ':', 'X', 'F', 'D', '5'] ∧
    cfPrepare ['O', '!', 'A', '1', ':', 'B', '2'] = .ok ['A', '1', ':', 'B', '2'] ∧
    cfPrepare ['A', ':', 'C'] = .ok ['A', '1', ':', 'C', '1', '0', '4', '8', '5', '7', '6'] ∧
    (∃ e, cfPrepare ['-', '5'] = .error e) := by
  refine ⟨by decide +kernel, by decide +kernel, by decide +kernel, by decide +kernel, by decide +kernel,
    ⟨.cellName, by decide +kernel⟩⟩

/-! ## Remaining entry points and merged-cell lists with empty / single-cell references -/

/-- `StreamWriter.SetRow`, `StreamWriter.InsertPageBreak` and `CalcCellValue` accept
exactly the strict A1 references; `StreamWriter.MergeCell` decodes each argument by
itself (`cellRefsToCoordinates`), so it was never affected by the range leniencies. -/
theorem opt_stream_calc_accept_iff_a1 (s : List Char) :
    (optAccepts .streamSetRow s = true ↔ ∃ c r, parseA1 s = some (c, r)) ∧
    (optAccepts .streamPageBreak s = true ↔ ∃ c r, parseA1 s = some (c, r)) ∧
    (optAccepts .calcCell s = true ↔ ∃ c r, parseA1 s = some (c, r)) := by
  refine ⟨?_, ?_, ?_⟩
  · simp only [optAccepts]; exact decode_isOk_iff_a1 s
  · simp only [optAccepts]; exact decode_isOk_iff_a1 s
  · simp only [optAccepts]; exact api_accepts_iff_a1 s

/-- `SetSheetCol(sheet, cell, &[v1, v2])`: strict A1 start cell and the second value
still inside the grid -/
theorem opt_sheetcol2_accepts_iff (s : List Char) :
    optAccepts .sheetCol2 s = true ↔ ∃ c r, parseA1 s = some (c, r) ∧ r + 1 ≤ Facts.TotalRows := by
  simp only [optAccepts]
  cases hd : cellNameToCoordinates s with
  | error e =>
    simp only [Bool.false_eq_true, false_iff, not_exists, not_and]
    intro c r hp
    have := spec_sound s c r hp
    rw [hd] at this; cases this
  | ok p =>
    obtain ⟨ci, ri⟩ := p
    obtain ⟨c, r, hsh, rfl, rfl⟩ := shape_of_decode hd
    have hp := parseA1_of_shape hsh
    obtain ⟨_, _, _, _, _, _, _, _, _, _, _, _, hc1, hc2, _, hr1, hr2⟩ := hsh
    have hM := limits_ok
    by_cases hfit : r + 1 ≤ Facts.TotalRows
    · have := cell_encode_eq c (r + 1) false hc1 hc2 (by omega) hfit
      have e : ((r : Int) + 1) = ((r + 1 : Nat) : Int) := by omega
      simp only [e, this, true_iff]
      exact ⟨c, r, hp, hfit⟩
    · have hbad : coordinatesToCellName (c : Int) ((r : Int) + 1) false = .error .maxRows := by
        unfold coordinatesToCellName
        have a1 : ¬ ((c : Int) < 1) := by omega
        have a2 : ¬ ((r : Int) + 1 < 1) := by omega
        have a3 : ((r : Int) + 1 > (Facts.TotalRows : Int)) := by omega
        simp [a1, a2, a3]
      simp only [hbad, Bool.false_eq_true, false_iff, not_exists, not_and]
      intro c' r' hp' hfit'
      rw [hp] at hp'; cases hp'
      exact hfit hfit'

/-- **paths on lenient merged-cell lists**: `paths_merged_land` extended to lists that
also contain empty references (skipped) and single-cell references (`X` scanned as
`X:X`) — on such a list no path through `mergeCellsParser` fails for an accepted
spelling. (A reference that is none of the three — `"B2:C3:D4"`, `"junk"` — makes
the redirect and hence every such path fail before or at it: `paths_merged_fail`.) -/
theorem paths_merged_total (ms : List (List Char)) (s : List Char) (ci ri : Int)
    (hs : cellNameToCoordinates s = .ok (ci, ri))
    (hwf : ∀ ref ∈ ms, ref = [] ∨ (∃ c r, parseA1 ref = some (c, r)) ∨
      ∃ c1 r1 c2 r2, parseRangeStrict ref = some (c1, r1, c2, r2)) :
    ∃ a, mergeParseWith ms s = .ok a := by
  obtain ⟨_, _, _, _, canon, hcanon, _⟩ := cell_decode_encode s ci ri hs
  unfold mergeParseWith
  rw [upper_same_cell s ci ri hs]
  simp only [hcanon]
  apply redirectScan_total'
  intro ref hr
  rcases hwf ref hr with h | ⟨c, r, h⟩ | ⟨c1, r1, c2, r2, h⟩
  · exact Or.inl h
  · exact Or.inr (Or.inl ⟨c, r, shape_of_parseA1 h⟩)
  · exact Or.inr (Or.inr ⟨c1, r1, c2, r2, (parseRangeStrict_iff ref c1 r1 c2 r2).mp h⟩)

/-- a failing redirect makes every path through `mergeCellsParser` fail with that error -/
theorem paths_merged_fail (ms : List (List Char)) (s : List Char) (e : Err) (q : List Char × Int)
    (hq : splitCellName s = .ok q) (h : mergeParseWith ms s = .error e) :
    pathPrepareM ms s = .error e ∧ pathGetStringM ms s = .error e ∧ pathRichGetM ms s = .error e ∧
    pathLinkM ms s = .error e := by
  unfold pathRichGetM pathPrepareM pathGetStringM pathLinkM
  simp only [h, hq, and_self]

/-- a single-cell merged reference redirects the cell it names to itself, as stored -/
theorem anchor_single_cell_ref (p : Cell) (ref : List Char) (c r : Nat)
    (hq : parseA1 ref = some (c, r)) (hit : MergeHit p ref) :
    p = ((c : Int), (r : Int)) ∧ (splitColon ref).headD [] = ref := by
  have hs := shape_of_parseA1 hq
  obtain ⟨_, q, hdec, hin⟩ := hit
  have hcc : (countColon ref != 1) = true := by rw [countColon_cell hs]; decide
  simp only [hcc, if_true] at hdec
  have := (rangeRef_ok_iff (ref ++ [':'] ++ ref) _ _ _ _).mpr
    ⟨c, r, c, r, rfl, rfl, rfl, rfl, ref, ref, by simp, hs, hs⟩
  rw [this] at hdec
  cases hdec
  rw [sort_minmax, cellInRange_iff] at hin
  dsimp only at hin
  refine ⟨Prod.ext (by simp only []; omega) (by simp only []; omega), ?_⟩
  rw [splitColon_of_parseA1 hq]; rfl

/-! ## Round 5 (second wave): the encoders' exact acceptance, range decode → encode, normal form -/

/-- **exact acceptance of the cell encoder** (round 5, second wave): `CoordinatesToCellName`
returns a name iff the position lies inside the 16384 × 1048576 grid — for ALL integers,
relative and absolute -/
theorem cell_encode_accepts_iff (c r : Int) (abs : Bool) :
    (∃ s, coordinatesToCellName c r abs = .ok s) ↔
      1 ≤ c ∧ c ≤ (Facts.MaxColumns : Int) ∧ 1 ≤ r ∧ r ≤ (Facts.TotalRows : Int) := by
  constructor
  · rintro ⟨s, h⟩
    unfold coordinatesToCellName at h
    by_cases a : c < 1
    · simp [a] at h
    by_cases b : r < 1
    · simp [b] at h
    by_cases d : r > (Facts.TotalRows : Int)
    · simp [a, b, d] at h
    by_cases e : c > (Facts.MaxColumns : Int)
    · simp [a, b, d, columnNumberToName, e] at h
    omega
  · rintro ⟨h1, h2, h3, h4⟩
    have hc : c = ((c.toNat : Nat) : Int) := by omega
    have hr : r = ((r.toNat : Nat) : Int) := by omega
    rw [hc, hr]
    exact ⟨_, cell_encode_eq c.toNat r.toNat abs (by omega) (by omega) (by omega) (by omega)⟩

/-- **exact acceptance of the range encoder**: `coordinatesToRangeRef` returns a reference iff
both corners lie inside the grid (ordered or not) -/
theorem range_encode_accepts_iff (c1 r1 c2 r2 : Int) (abs : Bool) :
    (∃ s, coordinatesToRangeRef (c1, r1, c2, r2) abs = .ok s) ↔
      (1 ≤ c1 ∧ c1 ≤ (Facts.MaxColumns : Int) ∧ 1 ≤ r1 ∧ r1 ≤ (Facts.TotalRows : Int)) ∧
      (1 ≤ c2 ∧ c2 ≤ (Facts.MaxColumns : Int) ∧ 1 ≤ r2 ∧ r2 ≤ (Facts.TotalRows : Int)) := by
  rw [← cell_encode_accepts_iff c1 r1 abs, ← cell_encode_accepts_iff c2 r2 abs]
  unfold coordinatesToRangeRef
  dsimp only
  constructor
  · rintro ⟨s, h⟩
    cases ha : coordinatesToCellName c1 r1 abs with
    | error e => simp [ha] at h
    | ok a =>
      cases hb : coordinatesToCellName c2 r2 abs with
      | error e => simp [ha, hb] at h
      | ok b => exact ⟨⟨a, rfl⟩, ⟨b, rfl⟩⟩
  · rintro ⟨⟨a, ha⟩, ⟨b, hb⟩⟩
    exact ⟨a ++ [':'] ++ b, by simp only [ha, hb]⟩

/-- range reference → coordinates → range reference → coordinates: whatever the decoder
accepts (any spelling: `$`, lower case, leading zeros) re-encodes, and the canonical
reference decodes to the same four coordinates (the other direction is `range_encode_decode`) -/
theorem range_decode_encode (ref : List Char) (q : Int × Int × Int × Int)
    (h : rangeRefToCoordinates ref = .ok q) :
    ∃ canon, coordinatesToRangeRef q false = .ok canon ∧ rangeRefToCoordinates canon = .ok q := by
  obtain ⟨c1, r1, c2, r2⟩ := q
  obtain ⟨n1, m1, n2, m2, rfl, rfl, rfl, rfl, _, _, _, hs1, hs2⟩ :=
    (rangeRef_ok_iff ref _ _ _ _).mp h
  obtain ⟨_, _, _, _, _, _, _, _, _, _, _, _, a1, a2, _, a3, a4⟩ := hs1
  obtain ⟨_, _, _, _, _, _, _, _, _, _, _, _, b1, b2, _, b3, b4⟩ := hs2
  exact range_encode_decode n1 m1 n2 m2 false ⟨a1, a2⟩ ⟨a3, a4⟩ ⟨b1, b2⟩ ⟨b3, b4⟩

/-- normal form of a range (what `MergeCell` & co. store): the sorted rectangle of every accepted
range reference is encodable, its reference decodes to exactly that rectangle, and anything
that reference decodes to is a fixed point of `sortCoordinates` -/
theorem range_normal_form (ref : List Char) (q : Int × Int × Int × Int)
    (h : rangeRefToCoordinates ref = .ok q) :
    ∃ canon, coordinatesToRangeRef (sortCoordinates q) false = .ok canon ∧
      rangeRefToCoordinates canon = .ok (sortCoordinates q) ∧
      (∀ q', rangeRefToCoordinates canon = .ok q' → sortCoordinates q' = q') := by
  obtain ⟨c1, r1, c2, r2⟩ := q
  have g := range_decode_in_grid ref c1 r1 c2 r2 h
  have hs : sortCoordinates (c1, r1, c2, r2) =
      ((((min c1 c2).toNat : Nat) : Int), (((min r1 r2).toNat : Nat) : Int), (((max c1 c2).toNat : Nat) : Int), (((max r1 r2).toNat : Nat) : Int)) := by
    unfold sortCoordinates
    dsimp only
    split <;> split <;> simp <;> omega
  rw [hs]
  obtain ⟨s, e, d⟩ := range_encode_decode (min c1 c2).toNat (min r1 r2).toNat (max c1 c2).toNat (max r1 r2).toNat false
    (by omega) (by omega) (by omega) (by omega)
  refine ⟨s, e, d, ?_⟩
  intro q' hq'
  rw [d] at hq'
  cases hq'
  rw [← hs]
  exact sort_idem _

end XlModel.Props.C20
