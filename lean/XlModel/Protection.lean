/-
C18 — sheet / workbook protection as state transformers over the stored record
(sheet.go ProtectSheet, UnprotectSheet; workbook.go ProtectWorkbook,
UnprotectWorkbook).  Core Lean only; defined over `FactsC18` (which stored flag
comes from which option, inverted or not; constant flags; ISO algorithm names;
spin counts).  The ISO hash (`genISOPasswdHash`: salted, spun digest) is a total
function parameter `H alg password salt`; its guards (password length, algorithm
name) are modelled.  The spin count used for verification is the stored one; `H`
does not depend on it (the setter always stores the same constant).
-/
import XlModel.Settings

namespace XlModel.Protection
open XlModel XlModel.Settings

inductive PKind | sheet | workbook
  deriving DecidableEq, Repr

/-- the stored protection record (`xlsxSheetProtection` / `xlsxWorkbookProtection`) -/
structure PRec where
  alg : List Char
  password : List Char      -- legacy XOR attribute (sheets only)
  hash : List Char
  salt : List Char
  spin : Nat
  flags : List (String × Bool)
  deriving DecidableEq, Repr

/-- the options structure: algorithm, password, and the boolean option fields by name -/
structure Opts where
  alg : List Char
  pw : List Char
  fields : List (String × Bool)
  deriving DecidableEq, Repr

/-- a bool field of the options struct (zero value `false` when not mentioned) -/
def Opts.field (o : Opts) (n : String) : Bool :=
  match o.fields.lookup n with
  | some b => b
  | none => false

def flagTable : PKind → List (String × String × Bool)
  | .sheet => Facts.C18.sheetProtFlags
  | .workbook => Facts.C18.workbookProtFlags

def constTable : PKind → List (String × Bool)
  | .sheet => Facts.C18.sheetProtConsts
  | .workbook => Facts.C18.workbookProtConsts

def spinOf : PKind → Nat
  | .sheet => Facts.C18.sheetProtectionSpinCount
  | .workbook => Facts.C18.workbookProtectionSpinCount

/-- the flag part of the composite literal in `Protect*` -/
def flagsOf (k : PKind) (o : Opts) : List (String × Bool) :=
  (flagTable k).map (fun t => (t.1, xor t.2.2 (o.field t.2.1))) ++ constTable k

abbrev Hash := List Char → List Char → List Char → List Char

/-- `genISOPasswdHash` guards: password length 1..MaxFieldLength, known algorithm -/
def iso (H : Hash) (alg pw salt : List Char) : Option (List Char) :=
  if pw.length < 1 || pw.length > Facts.MaxFieldLength then none
  else if Facts.C18.isoAlgorithms.any (fun a => a.toList == alg) then some (H alg pw salt)
  else none

def sha512 : List Char := "SHA-512".toList

/-- `if opts.AlgorithmName == "" { opts.AlgorithmName = "SHA-512" }` (ProtectWorkbook) -/
def wbAlg (a : List Char) : List Char := if a.isEmpty then sha512 else a

/-- Spec: the record a protect call with options `o` asks for (`none` = the call is
rejected: unsupported algorithm or bad password length) -/
def recordOf (k : PKind) (H : Hash) (salt : List Char) (o : Opts) : Option PRec :=
  let base : PRec := ⟨[], [], [], [], 0, flagsOf k o⟩
  if o.pw.isEmpty then some base
  else match k with
    | .sheet =>
      if o.alg.isEmpty then some { base with password := passwdOf o.pw }
      else (iso H o.alg o.pw salt).map fun h => { base with alg := o.alg, hash := h, salt := salt, spin := spinOf k }
    | .workbook =>
      let a := wbAlg o.alg
      (iso H a o.pw salt).map fun h => { base with alg := a, hash := h, salt := salt, spin := spinOf k }

/-- Impl: `ProtectSheet` / `ProtectWorkbook`, statement by statement: make sure a record
exists, replace it by the literal with the flags, then add the password part; on a hash
error the call returns the error with the flags-only record already stored. Result:
new state and whether the call returned nil. -/
def protect (k : PKind) (H : Hash) (salt : List Char) (prev : Option PRec) (o : Opts) : Option PRec × Bool :=
  let _prev : PRec := match prev with
    | some r => r
    | none => ⟨[], [], [], [], 0, []⟩            -- `new(xlsx…Protection)` (workbook only; dead value)
  let base : PRec := ⟨[], [], [], [], 0, flagsOf k o⟩   -- `= &xlsx…Protection{…}`
  if o.pw.isEmpty then (some base, true)
  else match k with
    | .sheet =>
      if o.alg.isEmpty then (some { base with password := passwdOf o.pw }, true)
      else match iso H o.alg o.pw salt with
        | some h => (some { base with alg := o.alg, hash := h, salt := salt, spin := spinOf k }, true)
        | none => (some base, false)
    | .workbook =>
      let a := wbAlg o.alg
      match iso H a o.pw salt with
      | some h => (some { base with alg := a, hash := h, salt := salt, spin := spinOf k }, true)
      | none => (some base, false)

/-- Spec: does password argument `pw` (or its absence) remove the protection `st`? -/
def verifies (k : PKind) (H : Hash) (st : Option PRec) (pw : Option (List Char)) : Bool :=
  match pw with
  | none => true
  | some p =>
    match st with
    | none => false
    | some r =>
      if r.alg.isEmpty then
        (match k with
         | .sheet => r.password == passwdOf p
         | .workbook => true)
      else iso H r.alg p r.salt == some r.hash

/-- Impl: `UnprotectSheet` / `UnprotectWorkbook`: new state and whether it returned nil -/
def unprotect (k : PKind) (H : Hash) (st : Option PRec) (pw : Option (List Char)) : Option PRec × Bool :=
  match pw with
  | none => (none, true)
  | some p =>
    match st with
    | none => (st, false)
    | some r =>
      match k with
      | .sheet =>
        if r.alg.isEmpty && r.password != passwdOf p then (st, false)
        else if !r.alg.isEmpty then
          (match iso H r.alg p r.salt with
           | none => (st, false)
           | some h => if r.hash != h then (st, false) else (none, true))
        else (none, true)
      | .workbook =>
        if !r.alg.isEmpty then
          (match iso H r.alg p r.salt with
           | none => (st, false)
           | some h => if r.hash != h then (st, false) else (none, true))
        else (none, true)

end XlModel.Protection
