/-
Model of the read paths of a worksheet (C04).

A worksheet is what the readers see: `<sheetData>` as a list of `<row>`
elements, each with an optional `r` attribute, a `hidden` flag and a list of
`<c>` elements with an optional `r` attribute (column and row part).  What a
cell *renders* to (`getValueFrom`: shared strings, number formats, …) is an
abstract text `val`; `hasF` says that the cell has an `<f>` child.

`Impl` transcribes
  * rows.go  `appendSpace`, `Rows.rowXMLHandler` (`cellStep`), the
    `Rows.Next`/`Rows.Columns`/`GetRows` loop (`rowStep`, `flush`, `getRows`;
    derivation of the fold from the token machine: design.d/C04.md),
  * col.go   `columnXMLHandler` (`totalCols`), `Cols.rowXMLHandler`/`Cols.Rows`
    (`colCells`), `GetCols`,
  * sheet.go `searchSheet` (literal search),
  * cell.go  `getCellStringFunc` + `GetCellValue` (`getCellValue`),
  * excelize.go `checkSheet`, `checkSheetR0`, rows.go `checkRow` (`load`: what
    the first getter does to a sheet opened from a file),
  * rows.go `GetRowVisible`, styles.go `GetCellStyle` as state-passing getters.
`Spec` is the grid `value s c r` defined by *effective positions* (`r`
attribute if present, else previous position + 1).

Core Lean only (linked into the driver).
-/
import XlModel.Basic
import XlModel.Generated.Facts
import XlModel.Generated.FactsC04

namespace XlModel.Readers
open XlModel

abbrev Val := List Char

structure Cell where
  /-- column part of the `r` attribute, 0 = attribute missing -/
  col : Nat
  /-- row part of the `r` attribute, 0 = attribute missing -/
  row : Nat
  /-- text rendered by `getValueFrom` -/
  val : Val
  /-- `<f>` child present -/
  hasF : Bool
  /-- `s` attribute non-zero -/
  styled : Bool
  deriving DecidableEq, Repr

structure Row where
  /-- `r` attribute, 0 = missing -/
  r : Nat
  hidden : Bool
  cells : List Cell
  deriving DecidableEq, Repr

abbrev Sheet := List Row

def blankCell : Cell := ⟨0, 0, [], false, false⟩

/-- `xlsxC.hasValue` (cell.go / excelize.go): value, formula, or style -/
def Cell.hasValue (c : Cell) : Bool := c.val ≠ [] || c.hasF || c.styled

/-- a cell the streaming row reader keeps: `val != "" || colCell.F != nil` -/
def Cell.live (c : Cell) : Bool := c.val ≠ [] || (Facts.C04.rowsLiveUsesFormula && c.hasF)

/-- effective column of a cell given the running column: `cellCol++`, then
overwritten by the `r` attribute when present -/
def effCol (cc : Nat) (c : Cell) : Nat := if c.col ≠ 0 then c.col else cc + 1

/-- effective row number: `curRow++`, overwritten by a non-zero `r` -/
def effRow (cur : Nat) (r : Row) : Nat := if r.r ≠ 0 then r.r else cur + 1

/-! ## Impl: the streaming row reader -/

/-- `appendSpace(l, s)`: `for i := start; i < l; i++ { s = append(s, "") }` -/
def appendSpace (l : Nat) (s : List Val) : List Val :=
  s ++ List.replicate (l - Facts.C04.appendSpaceStart) []

structure Iter where
  cellCol : Nat
  cells : List Val
  deriving DecidableEq, Repr

/-- `Rows.rowXMLHandler` on one `<c>` element -/
def cellStep (it : Iter) (c : Cell) : Iter :=
  let cc := effCol it.cellCol c
  if c.live then ⟨cc, appendSpace (cc - it.cells.length) it.cells ++ [c.val]⟩
  else ⟨cc, it.cells⟩

/-- cells of one `<row>` as `Rows.Columns` returns them -/
def rowCells (cells : List Cell) : List Val := (cells.foldl cellStep ⟨0, []⟩).cells

structure RState where
  /-- `rows.seekRow` = `cur` of `GetRows`: position of the output row being built -/
  seek : Nat
  /-- `rows.curRow` -/
  cur : Nat
  it : Iter
  results : List (List Val)
  /-- a `<row>` whose `r` exceeds `TotalRows` was met: `Rows.Next` returns false, or
  `Rows.Columns` returns `ErrMaxRows` and `GetRows` breaks *without* appending the
  row it was building -/
  stopped : Bool := false

/-- `if len(row) > 0 { pad with empty rows; append; maxVal = cur }` -/
def flush (st : RState) : List (List Val) :=
  if st.it.cells.isEmpty then st.results
  else st.results ++ List.replicate (st.seek - st.results.length - 1) [] ++ [st.it.cells]

/-- one `<row>` start element met by `Rows.Columns`/`Rows.Next`: when the new
`curRow` exceeds `seekRow` the current output row is finished, otherwise the
row's cells are absorbed into the output row being built (the iterator is not
reset). -/
def rowStep (st : RState) (r : Row) : RState :=
  if st.stopped then st
  else if Facts.C04.rowsBoundByTotalRows && decide (r.r > Facts.TotalRows) then
    { st with it := ⟨0, []⟩, stopped := true }
  else
  let cur' := effRow st.cur r
  if cur' > st.seek then
    { seek := cur', cur := cur', it := r.cells.foldl cellStep ⟨0, []⟩, results := flush st }
  else { st with cur := cur', it := r.cells.foldl cellStep st.it }

/-- `GetRows` (also what iterating `Rows`/`Columns` and dropping the trailing
empty rows yields) -/
def getRows (s : Sheet) : List (List Val) :=
  flush (s.foldl rowStep ⟨0, 0, ⟨0, []⟩, [], false⟩)

/-- `GetRows` returns `ErrMaxRows` (with the rows read so far): a `<row>` whose `r` exceeds
`TotalRows` was met by `Rows.Next` or `Rows.Columns` -/
def getRowsErr (s : Sheet) : Bool :=
  Facts.C04.getRowsReturnsMaxRows && (s.foldl rowStep ⟨0, 0, ⟨0, []⟩, [], false⟩).stopped

/-! ## Impl: the column reader -/

/-- `columnXMLHandler`: `totalCols` = largest effective column of any `<c>` -/
def totalColsRow (cells : List Cell) (tot : Nat) : Nat :=
  (cells.foldl (fun (p : Nat × Nat) c =>
      let cc := effCol p.1 c; (cc, if cc > p.2 then cc else p.2)) (0, tot)).2

def totalCols (s : Sheet) : Nat := s.foldl (fun tot r => totalColsRow r.cells tot) 0

structure CIter where
  cellCol : Nat
  cellRow : Nat
  cells : List Val

/-- `Cols.rowXMLHandler` on one `<c>`: the row part of `r` overrides `cellRow` -/
def colCellStep (curCol : Nat) (it : CIter) (c : Cell) : CIter :=
  let cc := effCol it.cellCol c
  let cr := if c.col ≠ 0 then c.row else it.cellRow
  let padded := it.cells ++ List.replicate (cr - it.cells.length - 1) []
  if cc = curCol then ⟨cc, cr, padded ++ [c.val]⟩ else ⟨cc, cr, padded⟩

def colRowStep (curCol : Nat) (it : CIter) (r : Row) : CIter :=
  r.cells.foldl (colCellStep curCol) ⟨0, effRow it.cellRow r, it.cells⟩

/-- `Cols.Rows` for column `curCol` -/
def colCells (s : Sheet) (curCol : Nat) : List Val :=
  (s.foldl (colRowStep curCol) ⟨0, 0, []⟩).cells

/-- `GetCols` -/
def getCols (s : Sheet) : List (List Val) :=
  (List.range (totalCols s)).map fun i => colCells s (i + 1)

/-! ## Impl: SearchSheet (literal) -/

inductive Err | cellName | coords
  deriving DecidableEq, Repr

def Err.tag : Err → String
  | .cellName => "E_CELLNAME" | .coords => "E_COORDS"

/-- hits of one row; `rowNum` is the position the reader attributes to the row -/
def searchCells (rowNum : Nat) (needle : Val) :
    Nat → List Cell → List (Nat × Nat) → Except Err (List (Nat × Nat))
  | _, [], acc => .ok acc
  | cc, c :: cs, acc =>
    let k := if Facts.C04.searchTracksPositions then effCol cc c else c.col
    if c.val ≠ needle then searchCells rowNum needle k cs acc
    else if k = 0 ∨ k > Facts.MaxColumns then .error .cellName
    else if rowNum < 1 ∨ rowNum > Facts.TotalRows then .error .coords
    else searchCells rowNum needle k cs (acc ++ [(k, rowNum)])

def searchRows (needle : Val) : Nat → Sheet → List (Nat × Nat) → Except Err (List (Nat × Nat))
  | _, [], acc => .ok acc
  | cur, r :: rs, acc =>
    let n := if Facts.C04.searchTracksPositions then effRow cur r else r.r
    match searchCells n needle 0 r.cells acc with
    | .error e => .error e
    | .ok acc' => searchRows needle n rs acc'

/-- `searchSheet(name, value, false)`: references (col,row) in document order -/
def searchSheet (s : Sheet) (needle : Val) : Except Err (List (Nat × Nat)) :=
  searchRows needle 0 s []

/-! ## Impl: GetCellValue on the cached (loaded) worksheet -/

def gcvRows : Sheet → Nat → Nat → Val
  | [], _, _ => []
  | row :: rest, c, r =>
    if row.r = r then
      match row.cells.find? (fun x => x.col = c ∧ x.row = r) with
      | some cell => cell.val
      | none => gcvRows rest c r
    else gcvRows rest c r

/-- `getCellStringFunc` with `GetCellValue`'s closure: rows after the last
row's `r` are empty; otherwise the first cell whose reference equals the
requested one in a row whose `r` equals the requested row. -/
def lastNum (s : Sheet) : Nat := match s.getLast? with | some row => row.r | none => 0

def getCellValue (s : Sheet) (c r : Nat) : Val :=
  if r > lastNum s then [] else gcvRows s c r

/-! ## Impl: what loading does (checkSheet, checkSheetR0, checkRow) -/

inductive Outcome (α : Type) | ok (a : α) | err | panic
  deriving Repr

def setAt {α} (l : List α) (i : Nat) (a : α) : List α := l.set i a

/-- `checkRow` closure of `checkSheetR0` with `r0 = true`: pad the target row
to `col` cells and overwrite slot `col-1` -/
def r0Place (slots : List Row) (col row : Nat) (cell : Cell) : Outcome (List Row) :=
  if row = 0 ∨ col = 0 then .panic else
  match slots[row - 1]? with
  | none => .panic
  | some tgt =>
    let cs := tgt.cells ++ List.replicate (col - tgt.cells.length) blankCell
    .ok (slots.set (row - 1) { tgt with cells := cs.set (col - 1) cell })

/-- the loop of `checkSheetR0(…, r0 = true)`: `i` is the index of the cell in the row, `prev`
the column of the cell before it. A cell without reference goes to `prev + 1` (fact
`r0RunningCol`; it used to go to its index `i + 1`). -/
def r0CellsAux (running : Bool) (rowR : Nat) : Nat → Nat → List Cell → List Row → Outcome (List Row)
  | _, _, [], slots => .ok slots
  | i, prev, c :: cs, slots =>
    let (col, row) :=
      if c.col = 0 then (if running then prev + 1 else i + 1, rowR) else (c.col, c.row)
    match r0Place slots col row c with
    | .ok slots' => r0CellsAux running rowR (i + 1) col cs slots'
    | .err => .err
    | .panic => .panic

def r0Cells (rowR : Nat) (i : Nat) (cs : List Cell) (slots : List Row) : Outcome (List Row) :=
  r0CellsAux Facts.C04.r0RunningCol rowR i 0 cs slots

def lastRowNumOf (cells : List Cell) : Nat :=
  cells.foldl (fun n c => if c.col ≠ 0 ∧ c.row > n then c.row else n) 0

structure CS1 where
  row : Nat
  r0 : List Row
  kept : List Row

/-- first loop of `checkSheet` -/
def cs1Step (st : CS1) (r : Row) : CS1 :=
  if r.r = 0 ∨ r.r = st.row then
    let num := lastRowNumOf r.cells
    let row1 := if num > st.row then num else st.row
    let row2 := if num = 0 then row1 + 1 else row1
    { row := row2, r0 := st.r0 ++ [{ r with r := row2 }], kept := st.kept }
  else { row := if r.r > st.row then r.r else st.row, r0 := st.r0, kept := st.kept ++ [r] }

def emptyRow : Row := ⟨0, false, []⟩

def r0Rows : List Row → List Row → Outcome (List Row)
  | [], slots => .ok slots
  | r :: rs, slots =>
    match slots[r.r - 1]? with
    | none => .panic
    | some tgt =>
      -- an empty slot without attributes takes the attributes of the row (fact
      -- `r0KeepsRowAttrs`); then `sheetData.Row[r0Row.R-1].R = r0Row.R`
      let tgt' : Row :=
        if Facts.C04.r0KeepsRowAttrs && tgt.cells.isEmpty && !tgt.hidden then { r with cells := tgt.cells }
        else tgt
      match r0Cells r.r 0 r.cells (slots.set (r.r - 1) { tgt' with r := r.r }) with
      | .ok slots' => r0Rows rs slots'
      | .err => .err
      | .panic => .panic

/-- `checkSheet` -/
def checkSheet (s : Sheet) : Outcome (List Row) :=
  if Facts.C04.checkSheetBoundsRows && s.any (fun r => decide (r.r > Facts.TotalRows)) then .err else
  let st := s.foldl cs1Step ⟨0, [], []⟩
  let slots0 : List Row := List.replicate st.row emptyRow
  let slots1 := st.kept.foldl (fun sl r => sl.set (r.r - 1) r) slots0
  let last := lastNum st.kept
  match r0Rows st.r0 slots1 with
  | .ok slots2 =>
    -- `for i := 1; i <= row; i++ { sheetData.Row[i-1].R = i; checkSheetR0(.., false) }`
    .ok (slots2.mapIdx fun i r => if i < last then { r with r := i + 1 } else r)
  | .err => .err
  | .panic => .panic

/-- first loop of `checkRow` on one row: references for cells without `r` -/
def crAssign (rowNum : Nat) : Nat → List Cell → List Cell
  | _, [] => []
  | rc, c :: cs =>
    let rc1 := rc + 1
    if c.col ≠ 0 then c :: crAssign rowNum (if c.col > rc1 then c.col else rc1) cs
    else { c with col := rc1, row := rowNum } :: crAssign rowNum rc1 cs

def crPlace : List Cell → List Cell → Outcome (List Cell)
  | [], tgt => .ok tgt
  | c :: cs, tgt =>
    if c.col = 0 ∨ c.col > tgt.length then .panic else crPlace cs (tgt.set (c.col - 1) c)

/-- column of the last cell of a row (`rowData.C[colCount-1].R`) -/
def lastColOf (cs : List Cell) : Nat := match cs.getLast? with | some c => c.col | none => 0

/-- `checkRow` on row slot `idx` -/
def checkRow1 (idx : Nat) (r : Row) : Outcome Row :=
  if r.cells.isEmpty then .ok r else
  let cs := crAssign (idx + 1) 0 r.cells
  let lastCol0 := lastColOf cs
  if cs.length < lastCol0 then
    -- cells may be out of order: size the row by its greatest column
    let lastCol := if Facts.C04.checkRowSizesByGreatest
      then cs.foldl (fun m c => if c.col > m then c.col else m) lastCol0 else lastCol0
    let tgt := (List.range lastCol).map fun j => { blankCell with col := j + 1, row := idx + 1 }
    match crPlace cs tgt with
    | .ok t => .ok { r with cells := t }
    | .err => .err
    | .panic => .panic
  else .ok { r with cells := cs }

def checkRows : Nat → List Row → Outcome (List Row)
  | _, [] => .ok []
  | i, r :: rs =>
    match checkRow1 i r, checkRows (i + 1) rs with
    | .ok r', .ok rs' => .ok (r' :: rs')
    | .panic, _ => .panic
    | _, .panic => .panic
    | _, _ => .err

/-- `workSheetReader` on a sheet not yet cached: `checkSheet` then `checkRow` -/
def load (s : Sheet) : Outcome Sheet :=
  match checkSheet s with
  | .ok slots => checkRows 0 slots
  | .err => .err
  | .panic => .panic

/-! ## State-passing getters (purity) -/

/-- what a `*File` holds for one worksheet: the part as read from the package
(`raw`) until the first `workSheetReader` call, then the cached structure. -/
structure WS where
  sheet : Sheet
  loaded : Bool

/-- the sheet every streaming reader sees: the raw part, or the cached
structure marshalled and re-parsed (a row slot with `R = 0` is marshalled
without `r`; every cell keeps its reference) -/
def WS.view (w : WS) : Sheet := w.sheet

def WS.ensure (w : WS) : Outcome WS :=
  if w.loaded then .ok w else
  match load w.sheet with
  | .ok s => .ok ⟨s, true⟩
  | .err => .err
  | .panic => .panic

/-- `GetRowVisible` on the cached structure: slot index, not `r` -/
def rowVisible (s : Sheet) (row : Nat) : Bool :=
  match s[row - 1]? with
  | some r => !r.hidden
  | none => false

/-- `prepareSheetXML(col,row)`: what `GetCellStyle`/`GetCellRichText` did to the
cached structure before the repair (kept for the regression theorem) -/
def prepareSheetXML (s : Sheet) (col row : Nat) : Sheet :=
  let s1 := s ++ (List.range (row - s.length)).map fun i => (⟨s.length + i + 1, false, []⟩ : Row)
  match s1[row - 1]? with
  | none => s1
  | some r =>
    let n := r.cells.length
    s1.set (row - 1) { r with cells := r.cells ++ (List.range (col - n)).map fun j =>
      { blankCell with col := n + j + 1, row := row } }

/-- the cached structure after `GetCellStyle(col,row)` -/
def getCellStyleState (s : Sheet) (col row : Nat) : Sheet :=
  if Facts.C04.getCellStyleMaterialises then prepareSheetXML s col row else s

/-! ## Spec: the grid by effective positions -/

def valAt : Nat → List Cell → Nat → Val
  | _, [], _ => []
  | cc, c :: cs, k => let e := effCol cc c; if e = k then c.val else valAt e cs k

def rowAt : Nat → Sheet → Nat → List Cell
  | _, [], _ => []
  | cur, r :: rs, k => let e := effRow cur r; if e = k then r.cells else rowAt e rs k

/-- the value of cell (c,r) -/
def value (s : Sheet) (c r : Nat) : Val := valAt 0 (rowAt 0 s r) c

/-- effective columns strictly increase (and start above `cc`) -/
def ColsAsc : Nat → List Cell → Prop
  | _, [] => True
  | cc, c :: cs => cc < effCol cc c ∧ ColsAsc (effCol cc c) cs

/-- effective row numbers strictly increase; every row's columns do -/
def RowsAsc : Nat → Sheet → Prop
  | _, [] => True
  | cur, r :: rs => cur < effRow cur r ∧ ColsAsc 0 r.cells ∧ RowsAsc (effRow cur r) rs

/-- representation invariant of a worksheet as the readers see it -/
def WF (s : Sheet) : Prop := RowsAsc 0 s

/-- every row and cell carries its reference, consistent with its place and
inside the grid (what a cached worksheet looks like) -/
def ExplicitCells (rowNum : Nat) : List Cell → Prop
  | [] => True
  | c :: cs => c.col ≠ 0 ∧ c.col ≤ Facts.MaxColumns ∧ c.row = rowNum ∧ ExplicitCells rowNum cs

def Explicit : Sheet → Prop
  | [] => True
  | r :: rs => r.r ≠ 0 ∧ r.r ≤ Facts.TotalRows ∧ ExplicitCells r.r r.cells ∧ Explicit rs

/-- index a jagged result like a grid (1-based), "" outside -/
def cellOf (g : List (List Val)) (c r : Nat) : Val :=
  if c = 0 ∨ r = 0 then [] else ((g[r - 1]?).getD [])[c - 1]?.getD []

/-- `GetCols` result indexed the same way -/
def cellOfCols (g : List (List Val)) (c r : Nat) : Val := cellOf g r c

/-- column of the last live cell of a row, 0 if none -/
def lastLive : Nat → List Cell → Nat → Nat
  | _, [], acc => acc
  | cc, c :: cs, acc => let e := effCol cc c; lastLive e cs (if c.live then e else acc)

/-- number of the last row with a live cell, 0 if none -/
def lastLiveRow : Nat → Sheet → Nat → Nat
  | _, [], acc => acc
  | cur, r :: rs, acc =>
    let e := effRow cur r; lastLiveRow e rs (if lastLive 0 r.cells 0 ≠ 0 then e else acc)

end XlModel.Readers
