/-
C04: what a cell renders to — `getValueFrom` by cell type, for the raw mode and for the
formatted mode of unstyled cells (boolean, text). The abstract `val` of `XlModel.Readers` is
instantiated by `render` (`toSheet`), so every reader theorem speaks about typed cells.

Transcribed: cell.go `getValueFrom` (`b`, `d`, `s` with the in-memory table, `str` with
`bstrUnmarshal`, `inlineStr`, default), `getCellBool`, `xlsxSI.String` (ReadersState.SI.str),
`formattedValue` for `raw || s == 0`. Not modelled: number formats (C10), the date conversion of
`getCellDate` in formatted mode, the numeric normalisation of the default branch in formatted
mode (Lean has no kernel floats; the transcript uses numerals it leaves unchanged).
Core Lean only.
-/
import XlModel.ReadersState

namespace XlModel.Readers
open XlModel

/-- the `t` attribute of `<c>` (`""` and `"n"` are `n`; anything else takes the default branch too) -/
inductive CellT | b | d | s | str | inlineStr | e | n
  deriving DecidableEq, Repr

structure TCell where
  col : Nat
  row : Nat
  t : CellT
  /-- `<v>` -/
  v : Val
  /-- `<is>` -/
  is : Option SI
  hasF : Bool
  deriving Repr

/-- `strconv.Atoi(strings.TrimSpace(c.V))` with the error dropped (0), for `[-]digits` / other text -/
def sIndex (v : Val) : Int :=
  let digits (ds : List Char) : Option Nat :=
    if ds.isEmpty then none else
    ds.foldl (fun acc c => match acc with
      | some n => if 48 ≤ c.toNat ∧ c.toNat ≤ 57 then some (n * 10 + (c.toNat - 48)) else none
      | none => none) (some 0)
  match v with
  | '-' :: ds => match digits ds with | some n => -(n : Int) | none => 0
  | ds => match digits ds with | some n => (n : Int) | none => 0

/-- `getValueFrom(f, sst, raw)` on an unstyled cell (`formattedValue` returns `c.V`) -/
def render (sst : List SI) (raw : Bool) (c : TCell) : Val :=
  match c.t with
  | .b => if !raw && c.v = ['1'] then "TRUE".toList else if !raw && c.v = ['0'] then "FALSE".toList else c.v
  | .str => Bstr.unmarshal c.v
  | .inlineStr => match c.is with | some x => x.str | none => c.v
  | .s =>
    if c.v = [] then [] else
    let i := sIndex c.v
    if 0 ≤ i ∧ i.toNat < sst.length then (sst[i.toNat]?.map SI.str).getD c.v else c.v
  | .d | .e | .n => c.v

structure TRow where
  r : Nat
  hidden : Bool
  cells : List TCell

/-- the worksheet as the readers see it, every cell rendered -/
def toSheet (sst : List SI) (raw : Bool) (ts : List TRow) : Sheet :=
  ts.map fun r => ⟨r.r, r.hidden, r.cells.map fun c => ⟨c.col, c.row, render sst raw c, c.hasF, false⟩⟩

end XlModel.Readers
