/-
C04: getters that touch more state than the cell grid, as state-passing functions.

* `GetCellValue` through `mergeCellsParser` (`getCellValueM`) and `GetMergeCells` as a
  transformer of the merge list (`getMergeCellsState`): the merge list model, `anchor`
  and `mergeOverlapCells` are C03's transcription (`XlModel.Grid`, tied by C03's facts and
  transcript); the scenario of the finding is replayed on the real code by C04's harness
  witness `overlap-merge`.
* the stored text of a numeric cell after a formatted read (`storedAfterFormattedRead`):
  `getValueFrom` computes the 15-significant-digit / fixed rendering `norm`; whether it is
  written back into `c.V` is the regenerated fact `getValueFromWritesCV`.
Core Lean only.
-/
import XlModel.Readers
import XlModel.Grid
import XlModel.Bstr

namespace XlModel.Readers
open XlModel

/-- `GetCellValue` with the redirection of `mergeCellsParser` -/
def getCellValueM (s : Sheet) (ms : List Grid.MObj) (c r : Nat) : Val :=
  getCellValue s (Grid.anchor ms c r).1 (Grid.anchor ms c r).2

/-- the stored merge list after `GetMergeCells`: `mergeOverlapCells` ran on the worksheet itself
(regenerated fact `getMergeCellsInPlace`); it now runs on a copy -/
def getMergeCellsState (ms : List Grid.MObj) : List Grid.MObj :=
  if Facts.C04.getMergeCellsInPlace then Grid.mergeOverlapCells ms else ms

/-- the ranges `GetMergeCells` reports: the normal form of the stored list -/
def getMergeCellsResult (ms : List Grid.MObj) : List Grid.MObj := Grid.mergeOverlapCells ms

/-- a merged range whose `Ref` and cached rect are the same rectangle -/
def mrange (c1 r1 c2 r2 : Nat) : Grid.MObj := ⟨⟨c1, r1, c2, r2⟩, ⟨c1, r1, c2, r2⟩⟩

/-- `c.V` after `getValueFrom(…, raw = false)` on a numeric cell -/
def storedAfterFormattedRead (v norm : Val) : Val :=
  if Facts.C04.getValueFromWritesCV then norm else v

/-! ## shared strings read from a temporary file (`getFromStringItem` / `loadStringItems`) -/

/-- one `<si>`: an optional `<t>` and the `<t>` of its runs -/
structure SI where
  t : Option Val
  runs : List Val
  deriving DecidableEq, Repr

/-- `xlsxSI.String()`: the `<t>` and the runs' `<t>` concatenated, then `bstrUnmarshal` (C01's
`Bstr.unmarshal`; used on byte strings whose `_xHHHH_` escapes denote ASCII) -/
def SI.str (x : SI) : Val :=
  let raw := x.t.getD [] ++ x.runs.flatten
  if raw.isEmpty then [] else Bstr.unmarshal raw

/-- `decoder.DecodeElement(&si, …)`: with a target declared inside the loop (regenerated fact
`sharedStringItemFresh`) the result is the item; into a reused target whose runs were reset, an
item without `<t>` keeps the text the target held -/
def decodeSI (target x : SI) : SI :=
  if Facts.C04.sharedStringItemFresh then x
  else ⟨match x.t with | some v => some v | none => target.t, x.runs⟩

/-- `loadStringItems`: the text written to the temporary file for every item, in order -/
def loadStringItems : SI → List SI → List Val
  | _, [] => []
  | tgt, x :: xs => (decodeSI tgt x).str :: loadStringItems (decodeSI tgt x) xs

/-- the shared strings as a workbook opened with the part in a temporary file shows them -/
def spillStrings (items : List SI) : List Val := loadStringItems ⟨none, []⟩ items

/-- `GetCellFormula` stores the expanded shared formula in the dependent cell -/
def getCellFormulaMemoises : Bool :=
  Facts.C04.getterSharedWrites.contains "getCellFormula:c.F.Content"

/-- `c.F.Content` of a dependent cell of a shared formula after `GetCellFormula` -/
def formulaContentAfterRead (content expanded : Val) : Val :=
  if getCellFormulaMemoises then expanded else content

end XlModel.Readers
