/-
Model of the reference codecs of lib.go (C20; used by every grid model).

`Impl` is a transcription of the Go functions over byte strings (a Go string
is a byte sequence; here a `List Char` whose characters are byte values).
`SplitCellName` uses rune functions in Go, but its predicate only accepts
ASCII, and no byte ≥ 0x80 (valid multi-byte rune or `RuneError`) satisfies it,
so the byte positions it finds are the ones found here.

`ColumnNameToNumber` walks the name from its last letter, accumulating
`col += val * multi` in Go's 64-bit `int` and checking the limit after every
letter; `colLoop` is that loop over exact naturals, and `colLoop_small`
(Lemmas/Ref3) shows no value it computes can reach 2^63, so the exact model is
the 64-bit one (validated by the correspondence on 14..70-letter names).
-/
import XlModel.Basic
import XlModel.Generated.Facts

namespace XlModel.Ref
open XlModel

inductive Err
  | cellName | colName | colNumber | maxRows | coords | rowNumber | param
  deriving DecidableEq, Repr

def Err.tag : Err → String
  | .cellName => "E_CELLNAME" | .colName => "E_COLNAME" | .colNumber => "E_COLNUM"
  | .maxRows => "E_MAXROWS" | .coords => "E_COORDS" | .rowNumber => "E_ROWNUM"
  | .param => "E_PARAM"

def isUp (c : Char) : Bool := 65 ≤ c.toNat && c.toNat ≤ 90
def isLo (c : Char) : Bool := 97 ≤ c.toNat && c.toNat ≤ 122
def isLetter (c : Char) : Bool := isUp c || isLo c
def isDigit (c : Char) : Bool := 48 ≤ c.toNat && c.toNat ≤ 57
def isDollar (c : Char) : Bool := c.toNat == 36
/-- the `alpha` closure of `SplitCellName` -/
def isAlpha (c : Char) : Bool := isLetter c || isDollar c

def letterVal (c : Char) : Nat := if isUp c then c.toNat - 64 else c.toNat - 96

def toUpper (c : Char) : Char := if isLo c then Char.ofNat (c.toNat - 32) else c

/-- exact value of a column name read as a bijective base-26 numeral -/
def colRawAux : Nat → List Char → Option Nat
  | acc, [] => some acc
  | acc, c :: cs => if isLetter c then colRawAux (acc * 26 + letterVal c) cs else none

def colRaw (cs : List Char) : Option Nat := colRawAux 0 cs

/-- little-endian value of a (reversed) column name: what the loop of
`ColumnNameToNumber` accumulates when it walks the name from its last letter -/
def leVal : List Char → Nat
  | [] => 0
  | c :: cs => letterVal c + 26 * leVal cs

/-- the loop of `ColumnNameToNumber` over the reversed name: `col += val * multi`,
limit check after every letter (so neither `col` nor `multi` can wrap: see
`colLoop_small`), `multi *= 26`. -/
def colLoop : Nat → Nat → List Char → Except Err Nat
  | col, _, [] => .ok col
  | col, multi, c :: cs =>
    if isLetter c then
      if col + letterVal c * multi > Facts.MaxColumns then .error .colNumber
      else colLoop (col + letterVal c * multi) (multi * 26) cs
    else .error .colName

/-- `ColumnNameToNumber` -/
def columnNameToNumber (name : List Char) : Except Err Int :=
  if name.isEmpty then .error .colName else
  match colLoop 0 1 name.reverse with
  | .error e => .error e
  | .ok v => .ok (v : Int)

/-- the digit loop of `ColumnNumberToName` -/
def numToName : Nat → List Char
  | 0 => []
  | n + 1 => numToName (n / 26) ++ [Char.ofNat (n % 26 + 65)]
decreasing_by omega

/-- `ColumnNumberToName` -/
def columnNumberToName (num : Int) : Except Err (List Char) :=
  if num < (Facts.MinColumns : Int) || num > (Facts.MaxColumns : Int) then .error .colNumber
  else .ok (numToName num.toNat)

/-- decimal rendering, `strconv.Itoa` on a non-negative value -/
def itoaAux : Nat → List Char
  | 0 => []
  | n + 1 => itoaAux ((n + 1) / 10) ++ [Char.ofNat ((n + 1) % 10 + 48)]
decreasing_by omega

def itoa (n : Nat) : List Char := if n = 0 then ['0'] else itoaAux n

def itoaInt (i : Int) : List Char :=
  if i < 0 then '-' :: itoa i.natAbs else itoa i.toNat

def digitsValAux : Nat → List Char → Option Nat
  | acc, [] => some acc
  | acc, c :: cs => if isDigit c then digitsValAux (acc * 10 + (c.toNat - 48)) cs else none

/-- value of a non-empty all-digit string -/
def digitsVal (s : List Char) : Option Nat :=
  if s.isEmpty then none else digitsValAux 0 s

/-- `strconv.Atoi` (64-bit): optional sign, decimal digits, range error outside int64 -/
def atoi (s : List Char) : Option Int :=
  match s with
  | [] => none
  | c :: rest =>
    let neg := c.toNat == 45
    let ds := if c.toNat == 45 || c.toNat == 43 then rest else s
    match digitsVal ds with
    | none => none
    | some v =>
      if neg then (if v ≤ 9223372036854775808 then some (-(v : Int)) else none)
      else (if v < 9223372036854775808 then some (v : Int) else none)

/-- `strings.IndexFunc` -/
def firstIdx (p : Char → Bool) : List Char → Option Nat
  | [] => none
  | c :: cs => if p c then some 0 else (firstIdx p cs).map (· + 1)

/-- `strings.LastIndexFunc` -/
def lastIdx (p : Char → Bool) : List Char → Option Nat
  | [] => none
  | c :: cs =>
    match lastIdx p cs with
    | some i => some (i + 1)
    | none => if p c then some 0 else none

/-- `strings.TrimPrefix(s, "$")`: strip one optional leading `$` -/
def dropDollar : List Char → List Char
  | c :: cs => if isDollar c then cs else c :: cs
  | [] => []

/-- `strings.TrimSuffix(s, "$")` -/
def trimSuffixDollar (s : List Char) : List Char := (dropDollar s.reverse).reverse

def isSign (c : Char) : Bool := c.toNat == 43 || c.toNat == 45

def headSign : List Char → Bool
  | c :: _ => isSign c
  | [] => false

/-- `SplitCellName`: the column part may carry one leading and one trailing `$`
and no other, the row part must not start with a sign (`strconv.Atoi` would
accept one). -/
def splitCellName (cell : List Char) : Except Err (List Char × Int) :=
  if firstIdx isAlpha cell = some 0 then
    match lastIdx isAlpha cell with
    | some i =>
      if i + 1 < cell.length then
        let col := trimSuffixDollar (dropDollar (cell.take (i + 1)))
        let rowStr := cell.drop (i + 1)
        if !col.isEmpty && !col.any isDollar && !headSign rowStr then
          match atoi rowStr with
          | some row => if row > 0 then .ok (col, row) else .error .cellName
          | none => .error .cellName
        else .error .cellName
      else .error .cellName
    | none => .error .cellName
  else .error .cellName

/-- `JoinCellName` -/
def joinCellName (col : List Char) (row : Int) : Except Err (List Char) :=
  let norm := (col.filter isLetter).map toUpper
  if col.isEmpty || col.length != norm.length then .error .colName
  else if row < 1 then .error .rowNumber
  else .ok (norm ++ itoaInt row)

/-- `CellNameToCoordinates` -/
def cellNameToCoordinates (cell : List Char) : Except Err (Int × Int) :=
  match splitCellName cell with
  | .error _ => .error .cellName
  | .ok (colName, row) =>
    if row > (Facts.TotalRows : Int) then .error .maxRows
    else match columnNameToNumber colName with
      | .error e => .error e
      | .ok col => .ok (col, row)

/-- `CoordinatesToCellName` (the variadic `abs` folded to one flag) -/
def coordinatesToCellName (col row : Int) (abs : Bool) : Except Err (List Char) :=
  if col < 1 || row < 1 then .error .coords
  else if row > (Facts.TotalRows : Int) then .error .maxRows
  else
    let sign : List Char := if abs then ['$'] else []
    match columnNumberToName col with
    | .error e => .error e
    | .ok name => .ok (sign ++ name ++ sign ++ itoaInt row)

/-- `strings.Split(s, ":")` -/
def splitColonAux : List Char → List Char → List (List Char)
  | cur, [] => [cur.reverse]
  | cur, c :: cs => if c.toNat == 58 then cur.reverse :: splitColonAux [] cs else splitColonAux (c :: cur) cs

def splitColon (s : List Char) : List (List Char) := splitColonAux [] s

/-- `rangeRefToCoordinates`: the reference is split at `:` and must have exactly
two parts, each decoded by `CellNameToCoordinates` as it is (absolute markers are
validated there, not stripped). On an error in the first cell Go returns early,
on an error in the second it returns the error as well. -/
def rangeRefToCoordinates (ref : List Char) : Except Err (Int × Int × Int × Int) :=
  match splitColon ref with
  | [a, b] =>
    match cellNameToCoordinates a with
    | .error e => .error e
    | .ok (c1, r1) =>
      match cellNameToCoordinates b with
      | .error e => .error e
      | .ok (c2, r2) => .ok (c1, r1, c2, r2)
  | _ => .error .param

/-- `sortCoordinates` on a 4-element slice -/
def sortCoordinates (q : Int × Int × Int × Int) : Int × Int × Int × Int :=
  let (c1, r1, c2, r2) := q
  let (c1, c2) := if c2 < c1 then (c2, c1) else (c1, c2)
  let (r1, r2) := if r2 < r1 then (r2, r1) else (r1, r2)
  (c1, r1, c2, r2)

/-- `coordinatesToRangeRef` -/
def coordinatesToRangeRef (q : Int × Int × Int × Int) (abs : Bool) : Except Err (List Char) :=
  let (c1, r1, c2, r2) := q
  match coordinatesToCellName c1 r1 abs with
  | .error e => .error e
  | .ok a =>
    match coordinatesToCellName c2 r2 abs with
    | .error e => .error e
    | .ok b => .ok (a ++ [':'] ++ b)

/-- The lookup disciplines of cell.go. Setters (`prepareCell`) index the grid by
the decoded coordinates and store the canonical reference
`CoordinatesToCellName(CellNameToCoordinates(s))`. -/
def setterRef (s : List Char) : Option (List Char) :=
  match cellNameToCoordinates s with
  | .ok (c, r) =>
    match coordinatesToCellName c r false with
    | .ok canon => some canon
    | .error _ => none
  | .error _ => none

/-- Getters (`getCellStringFunc`, `GetCellHyperLink`) upper-case the spelling
(`mergeCellsParser`), decode it, re-encode the coordinates canonically and compare
that with the stored reference. -/
def getterRef (s : List Char) : Option (List Char) := setterRef (s.map toUpper)

/-- what every API taking a cell name does first (`mergeCellsParser`, or a direct
`CellNameToCoordinates` which is case-insensitive): ASCII upper-casing, decoding,
canonical re-encoding. `none` = the API returns an error. -/
def apiRef (s : List Char) : Option (List Char) := getterRef s

/-- does a getter called with spelling `s` find what a setter called with `s`
wrote?  `none` = the spelling is rejected by the setter or by the getter. -/
def getterFinds (s : List Char) : Option Bool :=
  match setterRef s, getterRef s with
  | some a, some b => some (a == b)
  | _, _ => none

/-! ### Spec: the strict A1 grammar `\$?[A-Za-z]+\$?[0-9]+` inside the grid -/

/-- strict parser: optional `$`, letters, optional `$`, digits (no sign), then
range checks on the exact (unwrapped) values. Leading zeros in the row are
tolerated (Excel itself reads `A01` as `A1`). -/
def parseA1 (s : List Char) : Option (Nat × Nat) :=
  let s1 := dropDollar s
  let letters := s1.takeWhile isLetter
  let s2 := dropDollar (s1.dropWhile isLetter)
  if letters.isEmpty then none else
  match colRaw letters, digitsVal s2 with
  | some c, some r =>
    if 1 ≤ c ∧ c ≤ Facts.MaxColumns ∧ 1 ≤ r ∧ r ≤ Facts.TotalRows then some (c, r) else none
  | _, _ => none

end XlModel.Ref
