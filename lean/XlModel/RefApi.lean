/-
C20, deepening round: additions to the reference model that do not belong in
`Ref.lean` (which other properties import and which stays untouched).

1. the *strict* grammar of a range reference `cell:cell` (Spec), against which
   the lenient `rangeRefToCoordinates` of lib.go (`Ref.rangeRefToCoordinates`)
   is characterised in `Lemmas/Ref7.lean`;
2. the normalisation every family of cell-name taking APIs applies before it
   touches the worksheet ("lookup paths"), transcribed from cell.go, styles.go,
   vml.go, picture.go, merge.go.  A path maps the spelling the caller passed to
   the *key* under which the API stores or looks up the cell: coordinates, the
   canonical reference, or — for comments — the raw spelling itself.

Core Lean only (linked into the driver).
-/
import XlModel.Ref

namespace XlModel.Ref
open XlModel

/-- `strings.ReplaceAll(ref, "$", "")` -/
def stripDollar (s : List Char) : List Char := s.filter (fun c => !isDollar c)

/-! ### Spec: strict range grammar -/

/-- strict range reference: exactly `cell:cell`, both cells strict A1 references
inside the grid (each with its own optional absolute markers). -/
def parseRangeStrict (s : List Char) : Option (Nat × Nat × Nat × Nat) :=
  match splitColon s with
  | [a, b] =>
    match parseA1 a, parseA1 b with
    | some (c1, r1), some (c2, r2) => some (c1, r1, c2, r2)
    | _, _ => none
  | _ => none

/-! ### Lookup paths of the cell-name taking APIs

The key of a cell inside a worksheet. -/
inductive Key
  /-- grid position: `ws.SheetData.Row[row-1].C[col-1]`, drawing anchors, VML anchors -/
  | xy (col row : Int)
  /-- a stored reference string compared with `==` (`c.R`, hyperlink `Ref`, comment `Ref`) -/
  | ref (s : List Char)
  deriving DecidableEq, Repr

/-- `mergeCellsParser` on a sheet without merged cells: ASCII upper-casing,
decoding, canonical re-encoding. -/
def mergeParse (s : List Char) : Option (List Char) := apiRef s

/-- path P (`prepareCell`): `mergeCellsParser`, then `CellNameToCoordinates` of its
result, then the grid position. Setters: SetCellValue/Int/Bool/Str/Float/Default,
SetCellFormula, SetCellRichText, SetCellHyperLink (style part). -/
def pathPrepare (s : List Char) : Option Key :=
  match mergeParse s with
  | some canon =>
    match cellNameToCoordinates canon with
    | .ok (c, r) => some (.xy c r)
    | .error _ => none
  | none => none

/-- path G (`getCellStringFunc`): `mergeCellsParser`, decode, canonical re-encode,
compare with the stored `c.R`. Getters: GetCellValue, GetCellFormula, GetCellType. -/
def pathGetString (s : List Char) : Option Key :=
  match mergeParse s with
  | some canon =>
    match cellNameToCoordinates canon with
    | .ok (c, r) =>
      match coordinatesToCellName c r false with
      | .ok again => some (.ref again)
      | .error _ => none
    | .error _ => none
  | none => none

/-- path D (direct decode): `CellNameToCoordinates(cell)` on the caller's spelling,
no upper-casing step, then the grid position. GetCellStyle, SetCellStyle (both
corners), AddPicture / GetPictures / DeletePicture, AddComment's validity check,
deleteFormControl. -/
def pathDirect (s : List Char) : Option Key :=
  match cellNameToCoordinates s with
  | .ok (c, r) => some (.xy c r)
  | .error _ => none

/-- path R (`GetCellRichText`): `mergeCellsParser`, decode, grid position — the
same as P. -/
def pathRichGet (s : List Char) : Option Key := pathPrepare s

/-- path H-set (`SetCellHyperLink`): `SplitCellName` gate, `mergeCellsParser`; the
link is stored under the canonical reference. -/
def pathLinkSet (s : List Char) : Option Key :=
  match splitCellName s with
  | .error _ => none
  | .ok _ =>
    match mergeParse s with
    | some canon => some (.ref canon)
    | none => none

/-- path H-get (`GetCellHyperLink`): `SplitCellName` gate, direct decode, canonical
re-encode, compared with the stored reference. -/
def pathLinkGet (s : List Char) : Option Key :=
  match splitCellName s with
  | .error _ => none
  | .ok _ =>
    match cellNameToCoordinates s with
    | .ok (c, r) =>
      match coordinatesToCellName c r false with
      | .ok canon => some (.ref canon)
      | .error _ => none
    | .error _ => none

/-- path C-add (`AddComment` → `addComment`): validity by direct decode, the
comment is stored with `Ref: opts.Comment.Cell`, the spelling *as passed*. -/
def pathCommentAdd (s : List Char) : Option Key :=
  match cellNameToCoordinates s with
  | .ok _ => some (.ref s)
  | .error _ => none

/-- path C-del (`DeleteComment`): `cmt.Ref != cell` — the stored reference is
compared with the spelling *as passed*; no validation before the comparison. -/
def pathCommentDel (s : List Char) : Option Key := some (.ref s)

/-- the canonical key of the cell a spelling denotes, in the key space of a path -/
def keyOfCell (kind : Key) (c r : Int) : Option Key :=
  match kind with
  | .xy _ _ => some (.xy c r)
  | .ref _ =>
    match coordinatesToCellName c r false with
    | .ok canon => some (.ref canon)
    | .error _ => none

/-- paired use: does the reader called with spelling `t` hit what the writer
called with spelling `s` stored?  `none` = one of the two calls is rejected. -/
def pairFinds (w rd : List Char → Option Key) (s t : List Char) : Option Bool :=
  match w s, rd t with
  | some a, some b => some (a == b)
  | _, _ => none

end XlModel.Ref
