/-
C20, deepening round: additions to the reference model that do not belong in
`Ref.lean` (which other properties import and which stays untouched).

1. the *strict* grammar of a range reference `cell:cell` (Spec), against which
   `rangeRefToCoordinates` of lib.go (`Ref.rangeRefToCoordinates`) is
   characterised in `Lemmas/Ref7.lean` (since the repair: they coincide);
2. the normalisation every family of cell-name taking APIs applies before it
   touches the worksheet ("lookup paths"), transcribed from cell.go, styles.go,
   vml.go, picture.go, merge.go.  A path maps the spelling the caller passed to
   the *key* under which the API stores or looks up the cell: coordinates, the
   canonical reference, (comments too since the repair).

Core Lean only (linked into the driver).
-/
import XlModel.Ref

namespace XlModel.Ref
open XlModel

/-- `strings.ReplaceAll(ref, "$", "")` -/
def stripDollar (s : List Char) : List Char := s.filter (fun c => !isDollar c)

/-! ### Spec: strict range grammar -/

/-- strict range reference: exactly `cell:cell`, both cells strict A1 references
inside the grid (each with its own optional absolute markers). -/
def parseRangeStrict (s : List Char) : Option (Nat × Nat × Nat × Nat) :=
  match splitColon s with
  | [a, b] =>
    match parseA1 a, parseA1 b with
    | some (c1, r1), some (c2, r2) => some (c1, r1, c2, r2)
    | _, _ => none
  | _ => none

/-! ### Lookup paths of the cell-name taking APIs

The key of a cell inside a worksheet. -/
inductive Key
  /-- grid position: `ws.SheetData.Row[row-1].C[col-1]`, drawing anchors, VML anchors -/
  | xy (col row : Int)
  /-- a stored reference string compared with `==` (`c.R`, hyperlink `Ref`, comment `Ref`) -/
  | ref (s : List Char)
  deriving DecidableEq, Repr

/-- `mergeCellsParser` on a sheet without merged cells: ASCII upper-casing,
decoding, canonical re-encoding. -/
def mergeParse (s : List Char) : Option (List Char) := apiRef s

/-- path P (`prepareCell`): `mergeCellsParser`, then `CellNameToCoordinates` of its
result, then the grid position. Setters: SetCellValue/Int/Bool/Str/Float/Default,
SetCellFormula, SetCellRichText, SetCellHyperLink (style part). -/
def pathPrepare (s : List Char) : Option Key :=
  match mergeParse s with
  | some canon =>
    match cellNameToCoordinates canon with
    | .ok (c, r) => some (.xy c r)
    | .error _ => none
  | none => none

/-- path G (`getCellStringFunc`): `mergeCellsParser`, decode, canonical re-encode,
compare with the stored `c.R`. Getters: GetCellValue, GetCellFormula, GetCellType. -/
def pathGetString (s : List Char) : Option Key :=
  match mergeParse s with
  | some canon =>
    match cellNameToCoordinates canon with
    | .ok (c, r) =>
      match coordinatesToCellName c r false with
      | .ok again => some (.ref again)
      | .error _ => none
    | .error _ => none
  | none => none

/-- path D (direct decode): `CellNameToCoordinates(cell)` on the caller's spelling,
no upper-casing step, then the grid position. GetCellStyle, SetCellStyle (both
corners), AddPicture / GetPictures / DeletePicture, AddComment's validity check,
deleteFormControl. -/
def pathDirect (s : List Char) : Option Key :=
  match cellNameToCoordinates s with
  | .ok (c, r) => some (.xy c r)
  | .error _ => none

/-- path R (`GetCellRichText`): `mergeCellsParser`, decode, grid position — the
same as P. -/
def pathRichGet (s : List Char) : Option Key := pathPrepare s

/-- path H-set (`SetCellHyperLink`): `SplitCellName` gate, `mergeCellsParser`; the
link is stored under the canonical reference. -/
def pathLinkSet (s : List Char) : Option Key :=
  match splitCellName s with
  | .error _ => none
  | .ok _ =>
    match mergeParse s with
    | some canon => some (.ref canon)
    | none => none

/-- path H-get (`GetCellHyperLink`): `SplitCellName` gate, then `mergeCellsParser`
(ASCII upper-casing, decoding, canonical re-encoding — and, on a sheet with merged
cells, the redirection to the top-left cell of the range, where `SetCellHyperLink`
stores the link; not modelled here); the result is compared with the stored
reference. Since repo commit 6b4d3bc this is the same path as H-set. -/
def pathLinkGet (s : List Char) : Option Key :=
  match splitCellName s with
  | .error _ => none
  | .ok _ =>
    match mergeParse s with
    | some canon => some (.ref canon)
    | none => none

/-- path C-add (`AddComment` → `addComment`): direct decode, the comment is stored
under the canonical reference of the cell. -/
def pathCommentAdd (s : List Char) : Option Key :=
  match cellNameToCoordinates s with
  | .ok (c, r) =>
    match coordinatesToCellName c r false with
    | .ok canon => some (.ref canon)
    | .error _ => none
  | .error _ => none

/-- path C-del (`DeleteComment`, on a sheet that has comments): direct decode,
canonical re-encode, compared with the stored reference. -/
def pathCommentDel (s : List Char) : Option Key := pathCommentAdd s

/-- a grid position is the cell whose stored reference `c.R` is the canonical
relative name (`prepareSheetXML` / `checkRow` fill `c.R` that way): both kinds of
key are compared in the space of stored references. -/
def Key.stored : Key → Option (List Char)
  | .xy c r =>
    match coordinatesToCellName c r false with
    | .ok canon => some canon
    | .error _ => none
  | .ref s => some s

/-- paired use: does the reader called with spelling `t` hit what the writer
called with spelling `s` stored?  `none` = one of the two calls is rejected. -/
def pairFinds (w rd : List Char → Option Key) (s t : List Char) : Option Bool :=
  match w s, rd t with
  | some a, some b =>
    match a.stored, b.stored with
    | some x, some y => some (x == y)
    | _, _ => none
  | _, _ => none

/-- the three probes of the `paths` transcript op for one writer/reader pair:
reader called with the writer's spelling, with the canonical spelling, with the
absolute spelling. One character per probe: `1` found, `0` not found, `E` a call
was rejected. -/
def probe (w rd : List Char → Option Key) (s t : List Char) : Char :=
  match pairFinds w rd s t with
  | some true => '1'
  | some false => '0'
  | none => 'E'

def probes (w rd : List Char → Option Key) (s canon alt : List Char) : List Char :=
  [probe w rd s s, probe w rd s canon, probe w rd s alt]

/-- the `paths` op: for an accepted spelling, the verdicts of all writer/reader
pairs; `rejected` when the spelling is not accepted by the setters. Pairs:
V SetCellValue/GetCellValue, N SetCellInt/GetCellValue, F SetCellFormula/GetCellFormula,
T SetCellBool/GetCellType (P/G); S SetCellStyle/GetCellStyle (D/D);
R SetCellRichText/GetCellRichText (P/R); H SetCellHyperLink/GetCellHyperLink;
P AddPicture/GetPictures (D/D); C AddComment/DeleteComment. -/
def pathsOp (s : List Char) : List Char :=
  match cellNameToCoordinates s with
  | .error _ => "rejected".toList
  | .ok (c, r) =>
    match coordinatesToCellName c r false, coordinatesToCellName c r true with
    | .ok canon, .ok alt =>
      let pg := probes pathPrepare pathGetString s canon alt
      'V' :: pg ++ 'N' :: pg ++ 'F' :: pg ++ 'T' :: pg ++
      'S' :: probes pathDirect pathDirect s canon alt ++
      'R' :: probes pathPrepare pathRichGet s canon alt ++
      'H' :: probes pathLinkSet pathLinkGet s canon alt ++
      'P' :: probes pathDirect pathDirect s canon alt ++
      'C' :: probes pathCommentAdd pathCommentDel s canon alt
    | _, _ => "rejected".toList

/-- the `rngapi` op: `MergeCell(sheet, a, b)` decodes `a + ":" + b` with the range
decoder, sorts the corners and stores the canonical range reference. -/
def mergeCellRef (a b : List Char) : Option (List Char) :=
  match rangeRefToCoordinates (a ++ [':'] ++ b) with
  | .ok q =>
    match coordinatesToRangeRef (sortCoordinates q) false with
    | .ok ref => some ref
    | .error _ => none
  | .error _ => none

end XlModel.Ref
