/-
C20, deepening round 4: the reference grammar of `SetConditionalFormat`
(styles.go `prepareConditionalFormatRange` over calc.go `parseRef`): areas separated
by one space or a comma, each area one or two `:`-separated parts, each part a cell,
a whole column or a whole row (with an optional `sheet!` prefix that is dropped).
Core Lean only (linked into the driver).
-/
import XlModel.RefOpts

namespace XlModel.Ref
open XlModel

/-- what `parseRef` returns: a cell, or the `col` / `row` cast -/
inductive CfPart
  | cell (c r : Int)
  | col (c : Int)
  | row (r : Int)
  deriving DecidableEq, Repr

/-- the text `parseRef` decodes: with exactly one `!` the part after it -/
def cfCellText (ref : List Char) : List Char :=
  match splitBang ref with
  | [_, c] => c
  | _ => ref

/-- `parseRef`: cell, else column name, else `strconv.Atoi` row in 1..TotalRows;
the error returned is the one of `CellNameToCoordinates` -/
def cfParseRef (ref : List Char) : Except Err CfPart :=
  match cellNameToCoordinates (cfCellText ref) with
  | .ok (c, r) => .ok (.cell c r)
  | .error e =>
    match columnNameToNumber (cfCellText ref) with
    | .ok c => .ok (.col c)
    | .error _ =>
      match atoi (cfCellText ref) with
      | some r =>
        if 1 ≤ r ∧ r ≤ (Facts.TotalRows : Int) then .ok (.row r) else .error e
      | none => .error e

/-- the corner a part stands for as the first (`j = 0`) or second part of an area -/
def cfCorner (first : Bool) : CfPart → Int × Int
  | .cell c r => (c, r)
  | .col c => (c, if first then 1 else (Facts.TotalRows : Int))
  | .row r => (if first then 1 else (Facts.MaxColumns : Int), r)

def cfName (p : Int × Int) : List Char :=
  match coordinatesToCellName p.1 p.2 false with
  | .ok s => s
  | .error _ => []

/-- one area: the stored text -/
def cfArea (area : List Char) : Except Err (List Char) :=
  match splitColon area with
  | [a] =>
    match cfParseRef a with
    | .error e => .error e
    | .ok p => .ok (cfName (cfCorner true p))
  | [a, b] =>
    match cfParseRef a with
    | .error e => .error e
    | .ok p =>
      match cfParseRef b with
      | .error e => .error e
      | .ok q => .ok (cfName (cfCorner true p) ++ [':'] ++ cfName (cfCorner false q))
  | _ => .error .param

/-- `strings.Split(s, " ")` -/
def splitSpaceAux : List Char → List Char → List (List Char)
  | cur, [] => [cur.reverse]
  | cur, c :: cs => if c.toNat == 32 then cur.reverse :: splitSpaceAux [] cs else splitSpaceAux (c :: cur) cs

def cfAreasOf (s : List Char) : List (List Char) :=
  splitSpaceAux [] (s.map fun c => if c.toNat == 44 then ' ' else c)

def cfMapAreas : List (List Char) → Except Err (List (List Char))
  | [] => .ok []
  | a :: rest =>
    match cfArea a with
    | .error e => .error e
    | .ok x =>
      match cfMapAreas rest with
      | .error e => .error e
      | .ok xs => .ok (x :: xs)

/-- the stored areas of `prepareConditionalFormatRange(rangeRef)` -/
def cfPrepareAreas (s : List Char) : Except Err (List (List Char)) :=
  if s.isEmpty then .error .param else cfMapAreas (cfAreasOf s)

/-- the stored `sqref`: the areas joined by one space -/
def cfPrepare (s : List Char) : Except Err (List Char) :=
  match cfPrepareAreas s with
  | .error e => .error e
  | .ok xs => .ok ((List.intersperse [' '] xs).flatten)

end XlModel.Ref
