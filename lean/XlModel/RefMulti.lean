/-
C20, deepening round 2: the multi-range layer of lib.go / cell.go / datavalidation.go
and the merged-cell redirect of `mergeCellsParser`.

* `cellInRange`, `isOverlap`, `checkCellInRangeRef` (cell.go)
* `fields` = `strings.Fields` on a byte string (Unicode white space, decoded rune by
  rune), `flatSqref` (lib.go): a reference sequence → the cells it enumerates
* `squashSqref` (datavalidation.go): cells of one column → reference list
* `mergeParseWith`: `mergeCellsParser` on a worksheet whose `<mergeCells>` list is given

Spec: `Area` / `areaHas` — a reference sequence *denotes* a set of cells.
Core Lean only (linked into the driver).
-/
import XlModel.RefApi

namespace XlModel.Ref
open XlModel

abbrev Cell := Int × Int
abbrev Rect := Int × Int × Int × Int

/-- `cellInRange(cell, ref)` -/
def cellInRange (p : Cell) (q : Rect) : Bool :=
  decide (p.1 ≥ q.1) && decide (p.1 ≤ q.2.2.1) && decide (p.2 ≥ q.2.1) && decide (p.2 ≤ q.2.2.2)

/-- `isOverlap(rect1, rect2)` -/
def isOverlap (a b : Rect) : Bool :=
  decide (a.1 ≤ b.2.2.1) && decide (b.1 ≤ a.2.2.1) && decide (a.2.1 ≤ b.2.2.2) && decide (b.2.1 ≤ a.2.2.2)

/-- `checkCellInRangeRef(cell, rangeRef)`: a reference that does not have exactly
two parts is "not in range" without an error. -/
def checkCellInRangeRef (cell rangeRef : List Char) : Except Err Bool :=
  match cellNameToCoordinates cell with
  | .error e => .error e
  | .ok p =>
    match splitColon rangeRef with
    | [_, _] =>
      match rangeRefToCoordinates rangeRef with
      | .error e => .error e
      | .ok q => .ok (cellInRange p q)
    | _ => .ok false

/-! ### `strings.Fields` on bytes -/

/-- length in bytes of the white-space rune at the head of the string, 0 if the
head is not white space (`unicode.IsSpace`: ASCII `\t \n \v \f \r` and space, U+0085,
U+00A0, U+1680, U+2000–U+200A, U+2028, U+2029, U+202F, U+205F, U+3000 in UTF-8).
No byte inside a valid multi-byte rune, and no byte of an invalid sequence, starts
one of these patterns, so scanning byte by byte finds what Go's rune loop finds. -/
def spaceLen (s : List Char) : Nat :=
  match s.map Char.toNat with
  | 0xC2 :: b :: _ => if b == 0x85 || b == 0xA0 then 2 else 0
  | 0xE1 :: 0x9A :: 0x80 :: _ => 3
  | 0xE2 :: 0x80 :: b :: _ =>
    if (0x80 ≤ b && b ≤ 0x8A) || b == 0xA8 || b == 0xA9 || b == 0xAF then 3 else 0
  | 0xE2 :: 0x81 :: 0x9F :: _ => 3
  | 0xE3 :: 0x80 :: 0x80 :: _ => 3
  | b :: _ => if (9 ≤ b && b ≤ 13) || b == 32 then 1 else 0
  | [] => 0

/-- `strings.Fields`; `fuel` bounds the recursion (the string length suffices) -/
def fieldsAux : Nat → List Char → List Char → List (List Char)
  | 0, cur, _ => if cur.isEmpty then [] else [cur.reverse]
  | _, cur, [] => if cur.isEmpty then [] else [cur.reverse]
  | fuel + 1, cur, c :: cs =>
    let n := spaceLen (c :: cs)
    if n == 0 then fieldsAux fuel (c :: cur) cs
    else
      let rest := fieldsAux fuel [] ((c :: cs).drop n)
      if cur.isEmpty then rest else cur.reverse :: rest

def fields (s : List Char) : List (List Char) := fieldsAux (s.length + 1) [] s

/-! ### `flatSqref` -/

/-- the double loop `for c := c0..c2 { for r := r1..r3 {…} }` over a sorted rectangle -/
def rectCells (q : Rect) : List Cell :=
  (List.range (q.2.2.1 - q.1 + 1).toNat).flatMap fun (i : Nat) =>
    (List.range (q.2.2.2 - q.2.1 + 1).toNat).map fun (j : Nat) => (q.1 + (i : Int), q.2.1 + (j : Int))

/-- one reference of a sequence: a cell, a range, anything else (three or more
parts) is `ErrParameterInvalid` (the `default` case, since the repair of
`sqref:accept-non-ref:skipped-multi-colon`; the `Option` is kept for the callers). -/
def flatRef (ref : List Char) : Except Err (Option (List Cell)) :=
  match splitColon ref with
  | [a] =>
    match cellNameToCoordinates a with
    | .error e => .error e
    | .ok p => .ok (some [p])
  | [_, _] =>
    match rangeRefToCoordinates ref with
    | .error e => .error e
    | .ok q => .ok (some (rectCells (sortCoordinates q)))
  | _ => .error .param

def flatRefs : List (List Char) → Except Err (List Cell)
  | [] => .ok []
  | r :: rs =>
    match flatRef r with
    | .error e => .error e
    | .ok cs =>
      match flatRefs rs with
      | .error e => .error e
      | .ok rest => .ok (cs.getD [] ++ rest)

/-- `flatSqref`: the cells in insertion order (Go groups them by column in a map;
`cells[col]` is the sub-list with that column, in this order) -/
def flatSqref (sqref : List Char) : Except Err (List Cell) := flatRefs (fields sqref)

/-- `cells[col]` -/
def colOf (cells : List Cell) (col : Int) : List Cell := cells.filter (fun p => p.1 == col)

/-! ### `squashSqref` -/

/-- an emitted reference, before rendering: a single cell (`l == r`) or the range
from `cells[l]` to `cells[r]` (not sorted, not checked) -/
inductive Piece
  | one (p : Cell)
  | span (a b : Cell)
  deriving DecidableEq, Repr

/-- the loop of `squashSqref`: `start = cells[l]`, `prev = cells[r]` (`r = i-1`
throughout), `single` = `l == r` -/
def squashAux (start prev : Cell) (single : Bool) : List Cell → List Piece
  | [] => [if single then .one start else .span start prev]
  | x :: xs =>
    if x.1 == prev.1 && decide (x.2 - prev.2 > 1) then
      (if single then Piece.one start else Piece.span start prev) :: squashAux x x true xs
    else squashAux start x false xs

/-- `squashSqref` on the coordinate level -/
def squashPieces : List Cell → List Piece
  | [] => []
  | [p] => [.one p]
  | p :: q :: rest => squashAux p p true (q :: rest)

/-- rendering of a piece: `CoordinatesToCellName` / `coordinatesToRangeRef`, errors
dropped as in the Go code (`ref, _ :=`), giving the empty string -/
def renderPiece : Piece → List Char
  | .one p => match coordinatesToCellName p.1 p.2 false with
    | .ok s => s
    | .error _ => []
  | .span a b => match coordinatesToRangeRef (a.1, a.2, b.1, b.2) false with
    | .ok s => s
    | .error _ => []

def squashSqref (cells : List Cell) : List (List Char) := (squashPieces cells).map renderPiece

/-! ### `mergeCellsParser` with merged cells -/

/-- `strings.Count(ref, ":")` -/
def countColon (s : List Char) : Nat := (s.filter (fun c => c.toNat == 58)).length

/-- the scan over `ws.MergeCells.Cells` (the `rect` cache is the decoded `Ref`; an
empty `Ref` has no rectangle and is skipped) -/
def redirectScan (p : Cell) (canon : List Char) : List (List Char) → Except Err (List Char)
  | [] => .ok canon
  | ref :: rest =>
    if ref.isEmpty then redirectScan p canon rest else
    let full := if countColon ref != 1 then ref ++ [':'] ++ ref else ref
    match rangeRefToCoordinates full with
    | .error e => .error e
    | .ok q =>
      if cellInRange p (sortCoordinates q) then .ok ((splitColon ref).headD [])
      else redirectScan p canon rest

/-- `mergeCellsParser` on a worksheet whose merged-cell references are `merges` -/
def mergeParseWith (merges : List (List Char)) (s : List Char) : Except Err (List Char) :=
  match cellNameToCoordinates (s.map toUpper) with
  | .error e => .error e
  | .ok (c, r) =>
    match coordinatesToCellName c r false with
    | .error e => .error e
    | .ok canon => redirectScan (c, r) canon merges

/-! ### column ranges (`parseColRange`, col.go) -/

/-- `parseColRange` (SetColVisible, SetColStyle; SetColWidth passes
`startCol + ":" + endCol`): one column name or two of them separated by `:`, the
result sorted. More than two parts is an invalid column name (since the repair of
`colrange:accept-extra-part`). -/
def parseColRange (columns : List Char) : Except Err (Int × Int) :=
  match splitColon columns with
  | [a] =>
    match columnNameToNumber a with
    | .error e => .error e
    | .ok v => .ok (v, v)
  | [a, b] =>
    match columnNameToNumber a with
    | .error e => .error e
    | .ok x =>
      match columnNameToNumber b with
      | .error e => .error e
      | .ok y => .ok (if y < x then (y, x) else (x, y))
  | _ => .error .colName

/-- `SetColWidth(sheet, startCol, endCol, w)` -/
def colWidthRange (a b : List Char) : Except Err (Int × Int) := parseColRange (a ++ [':'] ++ b)

/-! ### lookup paths on a sheet WITH merged cells

The same paths as in `RefApi`, with `mergeCellsParser` running over the worksheet's
merged-cell list `ms` (`mergeParseWith`). A path returns the key it touches, or an
error (a malformed merged-cell reference makes every path through
`mergeCellsParser` fail). -/

def pathPrepareM (ms : List (List Char)) (s : List Char) : Except Err Key :=
  match mergeParseWith ms s with
  | .error e => .error e
  | .ok anchor =>
    match cellNameToCoordinates anchor with
    | .ok (c, r) => .ok (.xy c r)
    | .error e => .error e

def pathGetStringM (ms : List (List Char)) (s : List Char) : Except Err Key :=
  match mergeParseWith ms s with
  | .error e => .error e
  | .ok anchor =>
    match cellNameToCoordinates anchor with
    | .ok (c, r) =>
      match coordinatesToCellName c r false with
      | .ok again => .ok (.ref again)
      | .error e => .error e
    | .error e => .error e

def pathRichGetM (ms : List (List Char)) (s : List Char) : Except Err Key := pathPrepareM ms s

/-- hyperlinks: `SplitCellName` gate, then the anchor string itself is the key -/
def pathLinkM (ms : List (List Char)) (s : List Char) : Except Err Key :=
  match splitCellName s with
  | .error e => .error e
  | .ok _ =>
    match mergeParseWith ms s with
    | .error e => .error e
    | .ok anchor => .ok (.ref anchor)

/-! ### Spec: what a reference sequence denotes -/

/-- the cells one reference denotes: a cell, or the rectangle spanned by two
cells whatever their order -/
def refHas (ref : List Char) (p : Cell) : Prop :=
  (∃ c r : Nat, parseA1 ref = some (c, r) ∧ p = ((c : Int), (r : Int))) ∨
  (∃ c1 r1 c2 r2 : Nat, parseRangeStrict ref = some (c1, r1, c2, r2) ∧
    min (c1 : Int) c2 ≤ p.1 ∧ p.1 ≤ max (c1 : Int) c2 ∧ min (r1 : Int) r2 ≤ p.2 ∧ p.2 ≤ max (r1 : Int) r2)

/-- a sequence denotes the union of its references -/
def sqrefHas (sqref : List Char) (p : Cell) : Prop := ∃ ref ∈ fields sqref, refHas ref p

end XlModel.Ref
