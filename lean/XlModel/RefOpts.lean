/-
C20, deepening round 3: references that reach the library inside option structs or
through the remaining cell/range taking functions, and what each API does with
them before storing them ("acceptance paths").

* direct decode (`CellNameToCoordinates`): `Shape.Cell` (AddShape),
  `SlicerOptions.Cell` (AddSlicer), `FormControl.Cell` (AddFormControl),
  `FormControl.CellLink` for scroll bars and spin buttons, `InsertPageBreak`,
  the start cell of `SetSheetRow` / `SetSheetCol`
* range decode (`rangeRefToCoordinates`): `Table.Range` (AddTable)
* `adjustRange` (pivotTable.go): `PivotTableOptions.DataRange` / `PivotTableRange`
* NO validation, the string is stored as passed: `DataValidation.Sqref`
  (AddDataValidation), `SparklineOptions.Location` / `Range` (AddSparkline),
  `Panes.TopLeftCell`, `Selection.ActiveCell`, `Selection.SQRef` (SetPanes),
  `AddIgnoredErrors` (only the empty string is rejected), `FormControl.CellLink`
  of a check box
* `UnsetConditionalFormat` compares its argument with the stored (canonical)
  reference as a string.

Core Lean only (linked into the driver).
-/
import XlModel.RefMulti

namespace XlModel.Ref
open XlModel

inductive OptKind
  | shape | slicer | formCtl | formLinkSpin | formLinkCheck | pageBreak | sheetRow2 | sheetCol2
  | streamSetRow | streamPageBreak | calcCell
  | table | pivotData | pivotLoc
  | dvSqref | sparkLoc | sparkRng | panesTopLeft | panesActive | panesSqref | ignoredErrors
  deriving DecidableEq, Repr

def OptKind.ofString : String → Option OptKind
  | "shape" => some .shape | "slicer" => some .slicer | "formctl" => some .formCtl
  | "formlinkspin" => some .formLinkSpin | "formlinkcheck" => some .formLinkCheck
  | "pagebreak" => some .pageBreak | "sheetrow2" => some .sheetRow2 | "sheetcol2" => some .sheetCol2
  | "streamsetrow" => some .streamSetRow | "streampagebreak" => some .streamPageBreak
  | "calccell" => some .calcCell
  | "table" => some .table | "pivotdata" => some .pivotData | "pivotloc" => some .pivotLoc
  | "dvsqref" => some .dvSqref | "sparkloc" => some .sparkLoc | "sparkrng" => some .sparkRng
  | "panestl" => some .panesTopLeft | "panesactive" => some .panesActive
  | "panessqref" => some .panesSqref | "ignored" => some .ignoredErrors
  | _ => none

/-- `strings.Split(s, "!")` -/
def splitBangAux : List Char → List Char → List (List Char)
  | cur, [] => [cur.reverse]
  | cur, c :: cs => if c.toNat == 33 then cur.reverse :: splitBangAux [] cs else splitBangAux (c :: cur) cs

def splitBang (s : List Char) : List (List Char) := splitBangAux [] s

/-- `adjustRange` (pivotTable.go): `sheet!range`, exactly one `!`; EVERY `$` of the
range part is deleted before it is decoded; a single cell (`A1:A1`) is rejected;
the corners are sorted. Returns the sheet name and the rectangle. -/
def adjustRange (s : List Char) : Except Err (List Char × Rect) :=
  if s.isEmpty then .error .param else
  match splitBang s with
  | [sheet, rng] =>
    match rangeRefToCoordinates (stripDollar rng) with
    | .error e => .error e
    | .ok (x1, y1, x2, y2) =>
      if x1 == x2 && y1 == y2 then .error .param
      else .ok (sheet, sortCoordinates (x1, y1, x2, y2))
  | _ => .error .param

/-- `CellNameToCoordinates(s)` returns no error -/
def decodeOk (s : List Char) : Bool :=
  match cellNameToCoordinates s with | .ok _ => true | .error _ => false

/-- `rangeRefToCoordinates(s)` returns no error -/
def rangeOk (s : List Char) : Bool :=
  match rangeRefToCoordinates s with | .ok _ => true | .error _ => false

/-- does the API accept the string for this option field / argument?
(on a fresh workbook with everything else valid) -/
def optAccepts : OptKind → List Char → Bool
  | .shape, s | .slicer, s | .formCtl, s | .pageBreak, s => decodeOk s
  -- StreamWriter.SetRow / InsertPageBreak decode directly; CalcCellValue goes through the
  -- getter path (ASCII upper-casing, then decoding), which accepts the same strings
  | .streamSetRow, s | .streamPageBreak, s => decodeOk s
  | .calcCell, s => (apiRef s).isSome
  | .formLinkSpin, s =>
    -- `if opts.CellLink != ""` guards the check
    s.isEmpty || decodeOk s
  | .sheetRow2, s =>
    -- two values: the second one goes to column + 1
    match cellNameToCoordinates s with
    | .ok (c, r) => (match coordinatesToCellName (c + 1) r false with | .ok _ => true | .error _ => false)
    | .error _ => false
  | .sheetCol2, s =>
    match cellNameToCoordinates s with
    | .ok (c, r) => (match coordinatesToCellName c (r + 1) false with | .ok _ => true | .error _ => false)
    | .error _ => false
  | .table, s => rangeOk s
  | .pivotData, s | .pivotLoc, s => match adjustRange s with | .ok _ => true | .error _ => false
  | .ignoredErrors, s => !s.isEmpty
  | .formLinkCheck, _ | .dvSqref, _ | .sparkLoc, _ | .sparkRng, _
  | .panesTopLeft, _ | .panesActive, _ | .panesSqref, _ => true

/-- `SetConditionalFormat` on a plain `cell:cell` reference stores the two corners
re-encoded canonically, in the order given (`prepareConditionalFormatRange`; its
whole-column / whole-row / multi-area grammar is not modelled). -/
def cfStoredRef (s : List Char) : Option (List Char) :=
  match splitColon s with
  | [a, b] =>
    match setterRef a, setterRef b with
    | some x, some y => some (x ++ [':'] ++ y)
    | _, _ => none
  | _ => none

/-- `UnsetConditionalFormat(sheet, t)` after `SetConditionalFormat(sheet, s, …)`:
removed iff the stored reference equals `t` as a string. -/
def cfUnsetFinds (s t : List Char) : Option Bool :=
  match cfStoredRef s with
  | some stored => some (stored == t)
  | none => none

end XlModel.Ref
