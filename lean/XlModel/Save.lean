/-
Model of "save as a state transformer" (C02).

What is transcribed (`Impl`, bug-compatible, slot arithmetic exactly as in Go):

* sheet.go `trimCell` — as the *in-place* compaction loop over the row's backing
  array (`trimCellLoop`: read slot `j`, write slot `i`, finally re-slice to `[:i]`),
  because the cached worksheet shares that array with the row that is trimmed;
* sheet.go `trimRow` (row slots are never dropped: `i++` is unconditional; a row is
  replaced by its trimmed form only if it keeps a cell or has an attribute);
* sheet.go `workSheetWriter` for one worksheet part: trim the cached worksheet in
  place, marshal it (the part becomes the trimmed rows), evict iff the part is in
  `File.checked`; otherwise the worksheet stays cached and — iff the regenerated
  fact `Facts.C02.redensifyCached` says the code does so — gets `checkRow()`;
* excelize.go `workSheetReader` (cache hit / decode + `checkSheet` + `checkRow` +
  mark checked), `checkSheet` for rows with `r ≠ 0` (the `r="0"` path is reported
  as `unmodelled`), rows.go `checkRow` with its unguarded index as `panic`;
* sheet.go `prepareSheetXML`, `fillColumns`; cell.go `prepareCell` (slot
  `[row-1][col-1]`, never by reference), the setters as content transformers,
  `getCellStringFunc` (scan by stored reference; first match / first match with a
  formula), rows.go `SetRowVisible` / `GetRowVisible`;
* sheet.go `setSheet` (NewSheet: cached, not checked) and `copySheet` (deep copy of
  the loaded source stored in the cache, `checked` untouched).

Cell references are kept decoded as `(col, row)`; that `CoordinatesToCellName` /
`CellNameToCoordinates` are mutually inverse on the grid is property C20.  The
shared-string table is abstracted: a `t="s"` cell carries its text.  XML syntax is a
parameter: a part *is* the row list that is marshalled (infoset level).

`Spec`: a worksheet is a total map position → content plus row visibility and the
number of row slots; saving is the identity.

Core Lean only (linked into the driver).
-/
import XlModel.Basic
import XlModel.Generated.Facts
import XlModel.Generated.FactsC02

namespace XlModel.Save
open XlModel

/-- outcome of a Go call: value, returned error, or run-time panic -/
inductive Res (α : Type) where
  | ok : α → Res α
  | err : Res α
  | panic : Res α
  | unmodelled : Res α
  deriving Repr

/-- the fields of `xlsxC` that the observation distinguishes -/
structure Content where
  s : Nat
  t : String
  v : String
  f : Option String
  deriving DecidableEq, Repr, Inhabited

def Content.blank : Content := ⟨0, "", "", none⟩

/-- one disjunct of cell.go `hasValue`, by Go field name -/
def fieldNonzero (c : Content) (field : String) : Bool :=
  if field = "S" then c.s != 0
  else if field = "V" then c.v != ""
  else if field = "F" then c.f.isSome
  else if field = "T" then c.t != ""
  else false

/-- cell.go `hasValue`, over the regenerated list of fields it tests -/
def hasValue (c : Content) : Bool := Facts.C02.hasValueFields.any (fieldNonzero c)

/-- `xlsxC`: stored reference `R` (decoded) and content -/
structure Cell where
  col : Nat
  row : Nat
  c : Content
  deriving DecidableEq, Repr, Inhabited

/-- `xlsxRow`: `R`, `Hidden`, `C` -/
structure Row where
  r : Nat
  hidden : Bool
  cells : List Cell
  deriving DecidableEq, Repr, Inhabited

structure Sheet where
  rows : List Row
  deriving DecidableEq, Repr, Inhabited

def blankCell (col row : Nat) : Cell := ⟨col, row, Content.blank⟩

/-! ### representation invariant -/

/-- cell slots `k, k+1, …` of row `rw` hold references `(k+1, rw), (k+2, rw), …` -/
def denseCells (rw : Nat) : Nat → List Cell → Bool
  | _, [] => true
  | k, c :: cs => c.col == k + 1 && c.row == rw && denseCells rw (k + 1) cs

/-- row slots `i, i+1, …` hold rows `i+1, i+2, …`, each with dense cells -/
def denseRows : Nat → List Row → Bool
  | _, [] => true
  | i, r :: rs => r.r == i + 1 && denseCells (i + 1) 0 r.cells && denseRows (i + 1) rs

/-- the dense-grid invariant every setter relies on -/
def Dense (s : Sheet) : Prop := denseRows 0 s.rows = true

instance (s : Sheet) : Decidable (Dense s) := by unfold Dense; infer_instance

/-! ### sheet.go: trimCell / trimRow -/

/-- the second loop of `trimCell`, literally: `for j, c := range column { if
c.hasValue() { row.C[i] = c; i++ } }` where `column` and `row.C` are the same
backing array `buf`.  Returns the array and `i`. -/
def trimCellLoop : (fuel : Nat) → (buf : List Cell) → (i j : Nat) → List Cell × Nat
  | 0, buf, i, _ => (buf, i)
  | fuel + 1, buf, i, j =>
    match buf[j]? with
    | none => (buf, i)
    | some c =>
      if hasValue c.c then trimCellLoop fuel (buf.set i c) (i + 1) (j + 1)
      else trimCellLoop fuel buf i (j + 1)

/-- sheet.go `trimCell` on the visible slice of the row -/
def trimCell (cells : List Cell) : List Cell :=
  if cells.all (fun c => hasValue c.c) then cells
  else
    let (buf, i) := trimCellLoop cells.length cells 0 0
    buf.take i

/-- rows.go `hasAttr` restricted to the modelled attribute -/
def hasAttr (r : Row) : Bool := r.hidden

/-- one iteration of sheet.go `trimRow`: slot `k` is overwritten only when the
trimmed row keeps a cell or has an attribute; the slot itself always stays -/
def trimRow1 (r : Row) : Row :=
  let cs := trimCell r.cells
  if cs.length != 0 || hasAttr r then { r with cells := cs } else r

def trimRow (s : Sheet) : Sheet := ⟨s.rows.map trimRow1⟩

/-! ### excelize.go: checkSheet (rows with r ≠ 0), rows.go: checkRow -/

def zeroRow : Row := ⟨0, false, []⟩

/-- first loop of `checkSheet`: running maximum of `R`; `none` when a row takes
the `r == 0 || r == row` branch (not modelled) -/
def checkSheetMax : Nat → List Row → Option Nat
  | m, [] => some m
  | m, r :: rs => if r.r == 0 || r.r == m then none else checkSheetMax (if r.r > m then r.r else m) rs

/-- `sheetData.Row[r.R-1] = r` for every row, in order -/
def placeRows : List Row → List Row → List Row
  | arr, [] => arr
  | arr, r :: rs => placeRows (arr.set (r.r - 1) r) rs

/-- `for i := 1; i <= row; i++ { sheetData.Row[i-1].R = i }` with `row` the `R` of
the last row placed -/
def renumber (last : Nat) (arr : List Row) : List Row :=
  arr.mapIdx (fun i r => if i < last then { r with r := i + 1 } else r)

def checkSheet (rows : List Row) : Res (List Row) :=
  -- row numbers are bounded first (`r.R > TotalRows` → ErrMaxRows; negative numbers cannot occur here)
  if rows.any (fun r => decide (r.r > Facts.TotalRows)) then .err else
  match checkSheetMax 0 rows with
  | none => .unmodelled
  | some m =>
    match rows.getLast? with
    | none => .ok rows
    | some l => .ok (renumber l.r (placeRows (List.replicate m zeroRow) rows))

def validRef (c : Cell) : Bool :=
  1 ≤ c.col && c.col ≤ Facts.MaxColumns && 1 ≤ c.row && c.row ≤ Facts.TotalRows

/-- the copy loop of `checkRow`: `Row[rowIdx].C[colNum-1] = *colData`; an index
beyond the target list is a Go panic -/
def placeCells : List Cell → List Cell → Option (List Cell)
  | tgt, [] => some tgt
  | tgt, c :: cs => if c.col - 1 < tgt.length then placeCells (tgt.set (c.col - 1) c) cs else none

/-- `if colNum > lastCol { lastCol = colNum }` over all cells -/
def maxCol (init : Nat) (cells : List Cell) : Nat :=
  cells.foldl (fun m c => if c.col > m then c.col else m) init

/-- rows.go `checkRow` for one row at slot `rowIdx` (every cell carries a reference) -/
def checkRow1 (rowIdx : Nat) (r : Row) : Res Row :=
  match r.cells.getLast? with
  | none => .ok r
  | some l =>
    if !(r.cells.all validRef) then .err
    else
      if r.cells.length < l.col then
        -- cells may be out of order: the row is sized by its greatest column
        let lastCol := maxCol l.col r.cells
        let tgt := (List.range lastCol).map (fun j => blankCell (j + 1) (rowIdx + 1))
        match placeCells tgt r.cells with
        | some cs => .ok { r with cells := cs }
        | none => .panic
      else .ok r

/-- `checkRow` over all rows; rows before a failing row stay re-densified (the
mutation is in place) -/
def checkRows : Nat → List Row → List Row × Res Unit
  | _, [] => ([], .ok ())
  | i, r :: rs =>
    match checkRow1 i r with
    | .ok r' => let (rs', e) := checkRows (i + 1) rs; (r' :: rs', e)
    | .err => (r :: rs, .err)
    | .panic => (r :: rs, .panic)
    | .unmodelled => (r :: rs, .unmodelled)

def checkRow (s : Sheet) : Sheet × Res Unit :=
  let (rs, e) := checkRows 0 s.rows
  (⟨rs⟩, e)

/-! ### sheet.go: prepareSheetXML / fillColumns; cell.go: prepareCell, setters -/

/-- sheet.go `fillColumns`: append blank cells named after *slot index and requested row* -/
def fillColumns (cells : List Cell) (col row : Nat) : List Cell :=
  if cells.length < col then
    cells ++ (List.range' cells.length (col - cells.length)).map (fun j => blankCell (j + 1) row)
  else cells

/-- the "append missing rows" loop of `prepareSheetXML` -/
def appendRows (rows : List Row) (row : Nat) : List Row :=
  if rows.length < row then
    rows ++ (List.range' rows.length (row - rows.length)).map (fun i => (⟨i + 1, false, []⟩ : Row))
  else rows

/-- sheet.go `prepareSheetXML(col, row)`; `row = 0` would index slot `-1` -/
def prepareSheetXML (s : Sheet) (col row : Nat) : Res Sheet :=
  if row = 0 then .panic
  else
    let rows := appendRows s.rows row
    .ok ⟨rows.modify (row - 1) (fun r => { r with cells := fillColumns r.cells col row })⟩

def inGrid (col row : Nat) : Bool :=
  1 ≤ col && col ≤ Facts.MaxColumns && 1 ≤ row && row ≤ Facts.TotalRows

/-- `prepareCell` followed by a setter body `upd` applied to `&Row[row-1].C[col-1]`
(the stored reference of that slot is left as it is) -/
def setCell (s : Sheet) (col row : Nat) (upd : Content → Content) : Res Sheet :=
  if !inGrid col row then .err
  else
    match prepareSheetXML s col row with
    | .ok s' =>
      .ok ⟨s'.rows.modify (row - 1) (fun r =>
        { r with cells := r.cells.modify (col - 1) (fun c => { c with c := upd c.c }) })⟩
    | .err => .err
    | .panic => .panic
    | .unmodelled => .unmodelled

/-- rows.go `SetRowVisible`: `prepareSheetXML(0, row)`; `Row[row-1].Hidden = !visible` -/
def setRowHidden (s : Sheet) (row : Nat) (h : Bool) : Res Sheet :=
  if row < 1 then .err
  else
    match prepareSheetXML s 0 row with
    | .ok s' => .ok ⟨s'.rows.modify (row - 1) (fun r => { r with hidden := h })⟩
    | .err => .err
    | .panic => .panic
    | .unmodelled => .unmodelled

/-- setter bodies -/
def updVal (t v : String) : Content → Content := fun c => { c with t := t, v := v, f := none }
/-- SetCellFormula: the value stays behind as the cached result; a boolean keeps its type, every
other cell becomes `t="str"` (a shared string's text is moved into the cell — the model carries
the text already) -/
def updFormula (f : String) : Content → Content := fun c =>
  if f = "" then { c with f := none }
  else if c.t = "b" then { c with f := some f }
  else { c with f := some f, t := "str" }
def updStyle (s : Nat) : Content → Content := fun c => { c with s := s }

/-! ### cell.go: getCellStringFunc; rows.go: GetRowVisible -/

def lastRowNum (s : Sheet) : Nat :=
  match s.rows.getLast? with
  | some r => r.r
  | none => 0

/-- the inner loop of `getCellStringFunc` with a callback that always answers
(GetCellValue, GetCellType, the content dump): first cell whose stored reference
equals the requested one -/
def findCell (cells : List Cell) (col row : Nat) : Option Content :=
  cells.findSome? (fun c => if c.col == col && c.row == row then some c.c else none)

/-- the inner loop with GetCellFormula's callback: a matching cell without a
formula answers `ok = false` and the scan goes on -/
def findFormula (cells : List Cell) (col row : Nat) : Option String :=
  cells.findSome? (fun c => if c.col == col && c.row == row then c.c.f else none)

/-- `getCellStringFunc`: rows are scanned by their stored `R`, cells by their stored reference -/
def getCell (s : Sheet) (col row : Nat) : Content :=
  if row > lastRowNum s then Content.blank
  else (s.rows.findSome? (fun r => if r.r == row then findCell r.cells col row else none)).getD Content.blank

def getFormula (s : Sheet) (col row : Nat) : Option String :=
  if row > lastRowNum s then none
  else s.rows.findSome? (fun r => if r.r == row then findFormula r.cells col row else none)

/-- rows.go `GetRowVisible`: `row > len(Row)` → false, else `!Row[row-1].Hidden` (by slot) -/
def getRowVisible (s : Sheet) (row : Nat) : Bool :=
  if row > s.rows.length then false
  else match s.rows[row - 1]? with
    | some r => !r.hidden
    | none => false

/-! ### the workbook: cache, checked set, parts -/

/-- one worksheet part: `File.Sheet[path]`, `File.checked[path]`, `File.Pkg[path]` -/
structure WS where
  cache : Option Sheet
  checked : Bool
  pkg : Option (List Row)
  deriving DecidableEq, Repr, Inhabited

structure WB where
  sheets : List WS
  deriving DecidableEq, Repr, Inhabited

/-- file.go `NewFile`: the template part of `Sheet1` is read through
`workSheetReader` right away, so it is cached *and* checked -/
def newFile : WB := ⟨[⟨some ⟨[]⟩, true, some []⟩]⟩

/-- sheet.go `setSheet` (NewSheet): stored in the cache, *not* in `checked` -/
def newSheet (wb : WB) : WB := ⟨wb.sheets ++ [⟨some ⟨[]⟩, false, none⟩]⟩

/-- decode a part (infoset level: the rows that were marshalled) and normalise it
like `workSheetReader` does for a part that is not in `checked` -/
def decodePart (checked : Bool) (pkg : Option (List Row)) : Res Sheet :=
  let rows := pkg.getD []
  if checked then .ok ⟨rows⟩
  else
    match checkSheet rows with
    | .ok rows' =>
      match checkRow ⟨rows'⟩ with
      | (s, .ok ()) => .ok s
      | (_, .err) => .err
      | (_, .panic) => .panic
      | (_, .unmodelled) => .unmodelled
    | .err => .err
    | .panic => .panic
    | .unmodelled => .unmodelled

/-- excelize.go `workSheetReader` for one part -/
def loadWS (w : WS) : Res (WS × Sheet) :=
  match w.cache with
  | some s => .ok (w, s)
  | none =>
    match decodePart w.checked w.pkg with
    | .ok s => .ok ({ w with cache := some s, checked := true }, s)
    | .err => .err
    | .panic => .panic
    | .unmodelled => .unmodelled

/-- sheet.go `workSheetWriter` for one part; `redensify` says whether a worksheet
that stays cached gets `checkRow()` after it was trimmed and marshalled -/
def saveWSWith (redensify : Bool) (w : WS) : Res WS :=
  match w.cache with
  | none => .ok w
  | some s =>
    let t := trimRow s
    if w.checked then .ok ⟨none, false, some t.rows⟩
    else if redensify then
      match checkRow t with
      | (_, .panic) => .panic
      | (s', _) => .ok ⟨some s', false, some t.rows⟩
    else .ok ⟨some t, false, some t.rows⟩

/-- the code as it is now (regenerated fact) -/
def saveWS (w : WS) : Res WS := saveWSWith Facts.C02.redensifyCached w

def saveAll : List WS → Res (List WS)
  | [] => .ok []
  | w :: ws =>
    match saveWS w, saveAll ws with
    | .ok w', .ok ws' => .ok (w' :: ws')
    | .panic, _ => .panic
    | _, .panic => .panic
    | _, _ => .err

/-- file.go `writeToZip`, worksheet parts only -/
def save (wb : WB) : Res WB :=
  match saveAll wb.sheets with
  | .ok ws => .ok ⟨ws⟩
  | .err => .err
  | .panic => .panic
  | .unmodelled => .unmodelled

/-- OpenReader on the bytes just written: nothing cached, nothing checked -/
def reopen (wb : WB) : Res WB :=
  match save wb with
  | .ok wb' => .ok ⟨wb'.sheets.map (fun w => ⟨none, false, w.pkg⟩)⟩
  | .err => .err
  | .panic => .panic
  | .unmodelled => .unmodelled

/-- run a sheet-level operation through `workSheetReader`; a setter that fails
after the load leaves the part loaded -/
def onSheet (wb : WB) (i : Nat) (op : Sheet → Res Sheet) : Res WB × WB :=
  match wb.sheets[i]? with
  | none => (.err, wb)
  | some w =>
    match loadWS w with
    | .ok (w', s) =>
      match op s with
      | .ok s' => (.ok ⟨wb.sheets.set i { w' with cache := some s' }⟩, wb)
      | .err => (.err, ⟨wb.sheets.set i w'⟩)
      | .panic => (.panic, wb)
      | .unmodelled => (.unmodelled, wb)
    | .err => (.err, wb)
    | .panic => (.panic, wb)
    | .unmodelled => (.unmodelled, wb)

/-- read through `workSheetReader` (which caches the part) -/
def readSheet (wb : WB) (i : Nat) : Res (WB × Sheet) :=
  match wb.sheets[i]? with
  | none => .err
  | some w =>
    match loadWS w with
    | .ok (w', s) => .ok (⟨wb.sheets.set i w'⟩, s)
    | .err => .err
    | .panic => .panic
    | .unmodelled => .unmodelled

/-- sheet.go `copySheet(from, to)`: the source is loaded, then the target is loaded
too (it must be a worksheet; this marks an uncached target part as checked), then a
deep copy of the source replaces the target in the cache; `checked` and the part of
`to` are otherwise untouched. The second component is the state left behind when
the call fails (loads that already happened stay). -/
def copySheet (wb : WB) (src dst : Nat) : Res WB × WB :=
  if src = dst ∨ wb.sheets.length ≤ dst then (.err, wb) else
  match readSheet wb src with
  | .ok (wb1, s) =>
    match readSheet wb1 dst with
    | .ok (wb2, _) =>
      match wb2.sheets[dst]? with
      | none => (.err, wb2)
      | some w => (.ok ⟨wb2.sheets.set dst { w with cache := some s }⟩, wb2)
    | .err => (.err, wb1)
    | .panic => (.panic, wb1)
    | .unmodelled => (.unmodelled, wb1)
  | .err => (.err, wb)
  | .panic => (.panic, wb)
  | .unmodelled => (.unmodelled, wb)

/-! ### operations and histories -/

inductive Op where
  | setVal (sh col row : Nat) (t v : String)
  | setFormula (sh col row : Nat) (f : String)
  | setStyle (sh col row : Nat) (s : Nat)
  | setHidden (sh row : Nat) (h : Bool)
  | newSheet
  | copy (src dst : Nat)
  | save
  | reopen
  | get (sh col row : Nat)
  | vis (sh row : Nat)
  deriving Repr, DecidableEq

/-- what a call reports back -/
inductive Out where
  | done
  | err
  | panic
  | unmodelled
  | cell (c : Content) (f : Option String)
  | vis (b : Bool)
  deriving Repr, DecidableEq

def liftRes (wb : WB) : Res WB → WB × Out
  | .ok wb' => (wb', .done)
  | .err => (wb, .err)
  | .panic => (wb, .panic)
  | .unmodelled => (wb, .unmodelled)

def liftOn : Res WB × WB → WB × Out
  | (r, wb) => liftRes wb r

/-- one API call on the implementation model.  The order "validate arguments /
load the worksheet" is the one of the Go function: SetCellInt/Str/Bool/Default,
SetCellFormula and the getters load first; SetCellStyle, SetRowVisible and
GetRowVisible validate first. -/
def step (wb : WB) : Op → WB × Out
  | .setVal sh c r t v => liftOn (onSheet wb sh (fun s => setCell s c r (updVal t v)))
  | .setFormula sh c r f => liftOn (onSheet wb sh (fun s => setCell s c r (updFormula f)))
  | .setStyle sh c r st =>
    if !inGrid c r then (wb, .err) else liftOn (onSheet wb sh (fun s => setCell s c r (updStyle st)))
  | .setHidden sh r h =>
    if r < 1 then (wb, .err) else liftOn (onSheet wb sh (fun s => setRowHidden s r h))
  | .newSheet => (newSheet wb, .done)
  | .copy a b => liftOn (copySheet wb a b)
  | .save => liftRes wb (save wb)
  | .reopen => liftRes wb (reopen wb)
  | .get sh c r =>
    match readSheet wb sh with
    | .ok (wb', s) => if !inGrid c r then (wb', .err) else (wb', .cell (getCell s c r) (getFormula s c r))
    | .err => (wb, .err)
    | .panic => (wb, .panic)
    | .unmodelled => (wb, .unmodelled)
  | .vis sh r =>
    if r < 1 then (wb, .err) else
    match readSheet wb sh with
    | .ok (wb', s) => (wb', .vis (getRowVisible s r))
    | .err => (wb, .err)
    | .panic => (wb, .panic)
    | .unmodelled => (wb, .unmodelled)

def run : WB → List Op → WB × List Out
  | wb, [] => (wb, [])
  | wb, o :: os =>
    let (wb', out) := step wb o
    let (wb'', outs) := run wb' os
    (wb'', out :: outs)

/-! ### Spec: a worksheet is a total map; saving is the identity -/

namespace Spec

structure Grid where
  cell : Nat → Nat → Content
  hidden : Nat → Bool
  nrows : Nat

def Grid.empty : Grid := ⟨fun _ _ => Content.blank, fun _ => false, 0⟩

def Grid.set (g : Grid) (col row : Nat) (upd : Content → Content) : Grid :=
  { g with
    cell := fun c r => if c = col ∧ r = row then upd (g.cell c r) else g.cell c r
    nrows := max g.nrows row }

def Grid.setHidden (g : Grid) (row : Nat) (h : Bool) : Grid :=
  { g with
    hidden := fun r => if r = row then h else g.hidden r
    nrows := max g.nrows row }

abbrev Book := List Grid

def newFile : Book := [Grid.empty]

def onGrid (b : Book) (i : Nat) (ok : Bool) (f : Grid → Grid) : Book × Out :=
  match b[i]? with
  | none => (b, .err)
  | some g => if ok then (b.set i (f g), .done) else (b, .err)

/-- one API call on the specification: `save` and `reopen` do nothing -/
def step (b : Book) : Op → Book × Out
  | .setVal sh c r t v => onGrid b sh (inGrid c r) (fun g => g.set c r (updVal t v))
  | .setFormula sh c r f => onGrid b sh (inGrid c r) (fun g => g.set c r (updFormula f))
  | .setStyle sh c r st => onGrid b sh (inGrid c r) (fun g => g.set c r (updStyle st))
  | .setHidden sh r h => onGrid b sh (decide (1 ≤ r)) (fun g => g.setHidden r h)
  | .newSheet => (b ++ [Grid.empty], .done)
  | .copy a d =>
    if a = d then (b, .err) else
    match b[a]?, b[d]? with
    | some g, some _ => (b.set d g, .done)
    | _, _ => (b, .err)
  | .save => (b, .done)
  | .reopen => (b, .done)
  | .get sh c r =>
    if !inGrid c r then (b, .err) else
    match b[sh]? with
    | some g => (b, .cell (g.cell c r) (g.cell c r).f)
    | none => (b, .err)
  | .vis sh r =>
    if r < 1 then (b, .err) else
    match b[sh]? with
    | some g => (b, .vis (decide (r ≤ g.nrows) && !g.hidden r))
    | none => (b, .err)

def run : Book → List Op → Book × List Out
  | b, [] => (b, [])
  | b, o :: os =>
    let (b', out) := step b o
    let (b'', outs) := run b' os
    (b'', out :: outs)

end Spec

/-- abstraction of a worksheet *as its getters report it* -/
def rowAt (s : Sheet) (r : Nat) : Option Row := if r = 0 then none else s.rows[r - 1]?

def abs (s : Sheet) : Spec.Grid :=
  ⟨fun c r => getCell s c r,
   fun r => match rowAt s r with | some row => row.hidden | none => false,
   s.rows.length⟩

end XlModel.Save
