/-
Workbook-level model of save and open (C01): the modelled observables of a workbook and how
`writeToZip` + `OpenReader` map them.

  sheets   workbook.go  sheet list with order, name, visibility; active tab       (written/read as is)
  names    workbook.go  defined names: name, refersTo, comment, scope/localSheetId (written/read as is)
  sst      rows.go      stored text of the plain shared string items              (written/read as is)
  per sheet: rows  → sheet.go trimRow … excelize.go checkSheet, rows.go checkRow  (`XlModel.Grid`)
             cols  → sheet.go mergeExpandedCols                                   (`XlModel.SaveCols`)
             merges: the merged-range list as `GetMergeCells` shows it (the overlap normalisation of
                     `mergeOverlapCells` is C03's subject; on its own output it changes nothing)

The XML layer is a parameter `x : List Char → List Char` applied to every free-text string that
crosses it (cell type/value/formula/inline text, sheet names, defined-name strings, shared strings);
generated text (cell references, numeric attribute text, merge references) is ASCII by construction
and not routed through it.  `Inv` is the invariant of reachable workbook states the theorems need.
-/
import XlModel.SaveGrid
import XlModel.SaveCols
import XlModel.Bstr

namespace XlModel.SaveBook
open XlModel XlModel.Grid

inductive Vis | visible | hidden | veryHidden
  deriving DecidableEq, Repr

structure DefName where
  name : List Char
  refersTo : List Char
  comment : List Char
  scope : Option Nat
  deriving DecidableEq, Repr

structure Sheet where
  name : List Char
  vis : Vis
  rows : List Row
  cols : List SaveCols.Col
  merges : List (List Char)

structure Book where
  sheets : List Sheet
  active : Nat
  names : List DefName
  sst : List (List Char)

/-! ## save, the XML layer, open -/

/-- `workSheetWriter` on one worksheet -/
def saveSheet (s : Sheet) : Sheet :=
  { s with rows := trimRow s.rows, cols := SaveCols.mergeCols s.cols }

def saveBook (b : Book) : Book := { b with sheets := b.sheets.map saveSheet }

def xCell (x : List Char → List Char) (c : Cell) : Cell :=
  { c with t := x c.t, v := x c.v, f := c.f.map x, is := c.is.map x }

def xRow (x : List Char → List Char) (r : Row) : Row := { r with cells := r.cells.map (xCell x) }

def xName (x : List Char → List Char) (d : DefName) : DefName :=
  ⟨x d.name, x d.refersTo, x d.comment, d.scope⟩

def wireSheet (x : List Char → List Char) (s : Sheet) : Sheet :=
  { s with name := x s.name, rows := s.rows.map (xRow x) }

def wireBook (x : List Char → List Char) (b : Book) : Book :=
  ⟨b.sheets.map (wireSheet x), b.active, b.names.map (xName x), b.sst.map x⟩

/-- `workSheetReader` on one decoded worksheet -/
def openSheet (s : Sheet) : Res Sheet := (densify s.rows).map fun rows => { s with rows := rows }

def openSheets : List Sheet → Res (List Sheet)
  | [] => .ok []
  | s :: ss => (openSheet s).bind fun s' => (openSheets ss).map (s' :: ·)

def openBook (b : Book) : Res Book := (openSheets b.sheets).map fun ss => { b with sheets := ss }

/-- save, through the XML layer, open -/
def cycleBook (x : List Char → List Char) (b : Book) : Res Book := openBook (wireBook x (saveBook b))

/-! ## invariant and observation -/

def LegalS (s : List Char) : Prop := ∀ c ∈ s, Bstr.illegal c = false

def LegalO : Option (List Char) → Prop
  | none => True
  | some s => LegalS s

def LegalContent (k : Content) : Prop := LegalS k.t ∧ LegalS k.v ∧ LegalO k.f ∧ LegalO k.is

def SheetInv (s : Sheet) : Prop :=
  Dense s.rows ∧ SaveCols.Wf s.cols ∧ LegalS s.name ∧
    ∀ i j, LegalContent (Grid.abs s.rows i j)

def Inv (b : Book) : Prop :=
  (∀ s ∈ b.sheets, SheetInv s) ∧
  (∀ d ∈ b.names, LegalS d.name ∧ LegalS d.refersTo ∧ LegalS d.comment) ∧
  (∀ t ∈ b.sst, LegalS t)

/-- what the getters show of one worksheet: name, visibility, content at every position, row numbers
and attributes, the attributes every column resolves to, the merged ranges -/
def SheetEq (s' s : Sheet) : Prop :=
  s'.name = s.name ∧ s'.vis = s.vis ∧ (∀ i j, Grid.abs s'.rows i j = Grid.abs s.rows i j) ∧
  s'.rows.map (fun r => (r.r, r.attrs)) = s.rows.map (fun r => (r.r, r.attrs)) ∧
  (∀ c, SaveCols.look s'.cols c = SaveCols.look s.cols c) ∧ s'.merges = s.merges

/-- sheet by sheet, in order -/
def SheetsEq : List Sheet → List Sheet → Prop
  | [], [] => True
  | s' :: ss', s :: ss => SheetEq s' s ∧ SheetsEq ss' ss
  | _, _ => False

/-- equality of the modelled observation of two workbooks -/
def ObsEq (b' b : Book) : Prop :=
  SheetsEq b'.sheets b.sheets ∧ b'.active = b.active ∧ b'.names = b.names ∧ b'.sst = b.sst

/-- the raw value `GetCellValue` derives from a cell's content and the shared strings
(cell.go getValueFrom with `raw`): shared string → `xlsxSI.String`, inline string likewise, otherwise `V` -/
def rawValue (sst : List (List Char)) (k : Content) : List Char :=
  if k.t = ['s'] then
    match (String.ofList k.v).toNat? with
    | some n => match sst[n]? with
      | some t => Bstr.siString t
      | none => k.v
    | none => k.v
  else if k.t = "inlineStr".toList then
    match k.is with
    | some t => Bstr.siString t
    | none => k.v
  else k.v

/-- `getCellBool` without `raw` -/
def boolText (v : List Char) : List Char :=
  if v = ['1'] then "TRUE".toList else if v = ['0'] then "FALSE".toList else v

/-! ## writing a cell (sheet.go prepareSheetXML, fillColumns; cell.go prepareCell + a setter) -/

/-- the row `prepareSheetXML` appends for slot `k` (no custom default row height) -/
def newRow (k : Nat) : Row := ⟨k + 1, emptyAttrs, []⟩

/-- `prepareSheetXML`: append missing row slots up to `n` -/
def extendRows (rows : List Row) (n : Nat) : List Row :=
  rows ++ (List.range' rows.length (n - rows.length)).map newRow

/-- `fillColumns`: append missing cell slots of row slot `i` up to `n` -/
def fillCols (i : Nat) (cells : List Cell) (n : Nat) : List Cell :=
  cells ++ (List.range' cells.length (n - cells.length)).map fun j => blank (refOf j i)

/-- a setter changes the payload fields of the prepared cell, never its reference -/
def updCell (upd : Content → Content) (c : Cell) : Cell :=
  let k := upd (content c)
  ⟨c.ref, k.s, k.t, k.v, k.f, k.is⟩

/-- `prepareCell` + setter at row slot `i`, cell slot `j` (cell `(j+1, i+1)`) -/
def writeCell (rows : List Row) (i j : Nat) (upd : Content → Content) : List Row :=
  let rows := extendRows rows (i + 1)
  match rows[i]? with
  | none => rows
  | some r =>
    let cs := fillCols i r.cells (j + 1)
    match cs[j]? with
    | none => rows
    | some c => rows.set i { r with cells := cs.set j (updCell upd c) }

/-- `SetCellInt` on an unstyled sheet: no type, decimal text, formula and inline string cleared -/
def setInt (n : Int) (k : Content) : Content := ⟨k.s, [], Ref.itoaInt n, none, none⟩

/-- `SetCellBool` -/
def setBool (b : Bool) (k : Content) : Content := ⟨k.s, ['b'], if b then ['1'] else ['0'], none, none⟩

/-- a row-attribute setter (`SetRowHeight`, `SetRowVisible`, `SetRowOutlineLevel`): `prepareSheetXML(0, row)` (rows only, no cell is added)
then the attribute change on row slot `i` -/
def writeRowAttr (rows : List Row) (i : Nat) (f : Attrs → Attrs) : List Row :=
  let rows := extendRows rows (i + 1)
  match rows[i]? with
  | none => rows
  | some r => rows.set i { r with attrs := f r.attrs, cells := fillCols i r.cells 0 }

/-- `SetRowHeight` (height ≥ 0), `SetRowVisible`, `SetRowOutlineLevel` as attribute changes -/
def rowHeight (h : List Char) (a : Attrs) : Attrs := { a with ht := some h, customHeight := true }
def rowVisible (v : Bool) (a : Attrs) : Attrs := { a with hidden := !v }
def rowOutline (lv : Nat) (a : Attrs) : Attrs := { a with outlineLevel := lv }

/-! ## `SetCellStyle` over a rectangle (styles.go): `prepareSheetXML`, `makeContiguousColumns`, then `S` of
every cell of the rectangle — the same final worksheet as writing the style cell by cell -/

def setStyle (st : Nat) (k : Content) : Content := { k with s := st }

/-- the cell slots (row slot, cell slot) of the rectangle, row by row -/
def positions (i1 j1 i2 j2 : Nat) : List (Nat × Nat) :=
  (List.range' i1 (i2 + 1 - i1)).flatMap fun i => (List.range' j1 (j2 + 1 - j1)).map fun j => (i, j)

def styleRect (rows : List Row) (i1 j1 i2 j2 st : Nat) : List Row :=
  (positions i1 j1 i2 j2).foldl (fun rs p => writeCell rs p.1 p.2 (setStyle st)) rows

/-- a cell that carries an inline string also carries a type, a value or a formula (every setter that
sets `IS` sets `T`); needed because a style change can make `hasValue` false -/
def CellInv (k : Content) : Prop := k.is.isSome → (k.v ≠ [] ∨ k.f.isSome ∨ k.t ≠ [])

def GridInv (rows : List Row) : Prop := ∀ i j, CellInv (Grid.abs rows i j)

/-- the payload without the style id -/
def eraseS (k : Content) : Content := { k with s := 0 }

end XlModel.SaveBook
