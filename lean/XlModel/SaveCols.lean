/-
Model of the column-definition path of a save (C01): sheet.go `mergeExpandedCols`, which
`workSheetWriter` runs on every save, and the per-column lookup the getters perform on the
`<cols>` list after open (col.go `GetColWidth`, `GetColVisible`, `GetColOutlineLevel`,
`GetColStyle`: the entry with `Min ≤ col ≤ Max`).

`Impl`: `mergeCols` (stable sort by `Min`, then runs of entries each equal to its predecessor
shifted by one column collapse into the first entry with `Max := last.Min`).  `Spec`: `look`, the
attributes a column resolves to, is unchanged.  The setters keep the list flat (one entry per
column, `flatCols`), which is the precondition of the theorem.
-/
import XlModel.Basic
namespace XlModel.SaveCols
open XlModel

/-- the eight non-positional fields of `xlsxCol` (width as its decimal text) -/
structure Attrs where
  bestFit : Bool
  collapsed : Bool
  customWidth : Bool
  hidden : Bool
  outline : Nat
  phonetic : Bool
  style : Nat
  width : Option (List Char)
  deriving DecidableEq, Repr

structure Col where
  min : Nat
  max : Nat
  a : Attrs
  deriving DecidableEq, Repr

/-- `sort.Slice(cols, Min <)`: insertion sort (what Go runs for up to 12 elements; stable) -/
def insert (c : Col) : List Col → List Col
  | [] => [c]
  | d :: ds => if c.min < d.min then c :: d :: ds else d :: insert c ds

def sortCols : List Col → List Col
  | [] => []
  | c :: cs => insert c (sortCols cs)

/-- the `reflect.DeepEqual` test: `b` is `p` shifted by one column -/
def adj (p b : Col) : Bool := b.min == p.min + 1 && b.max == p.max + 1 && b.a == p.a

/-- the entry appended for a run `left … prev` (`multi` = the run has more than one entry) -/
def close (left prev : Col) (multi : Bool) : Col :=
  if multi then { left with max := prev.min } else left

/-- the loop of `mergeExpandedCols` over the sorted list -/
def mergeGo : Col → Col → Bool → List Col → List Col
  | left, prev, multi, [] => [close left prev multi]
  | left, prev, multi, b :: rest =>
    if adj prev b then mergeGo left b true rest
    else close left prev multi :: mergeGo b b false rest

def mergeSorted : List Col → List Col
  | [] => []
  | a :: rest => mergeGo a a false rest

/-- `mergeExpandedCols` -/
def mergeCols (l : List Col) : List Col := mergeSorted (sortCols l)

/-- the attributes column `c` resolves to -/
def look (l : List Col) (c : Nat) : Option Attrs :=
  (l.find? fun e => decide (e.min ≤ c) && decide (c ≤ e.max)).map (·.a)

/-- one entry per column, strictly increasing (what `flatCols` maintains, after the sort) -/
def FlatFrom : Nat → List Col → Prop
  | _, [] => True
  | lo, e :: es => lo < e.min ∧ e.max = e.min ∧ FlatFrom e.min es

/-- sorted, pairwise disjoint column ranges (what a saved file holds after `mergeExpandedCols`, and what
the getters and the next save see when it is opened again); a flat list is the special case `max = min` -/
def RangesFrom : Nat → List Col → Prop
  | _, [] => True
  | lo, e :: es => lo < e.min ∧ e.min ≤ e.max ∧ RangesFrom e.max es

/-- two column ranges do not overlap -/
def Disj (a b : Col) : Prop := a.max < b.min ∨ b.max < a.min

/-- what the column setters leave in memory (`flatCols` appends new columns at the end, so the list is
*not* sorted): well-formed ranges inside the sheet, pairwise non-overlapping, in any order -/
def Wf (l : List Col) : Prop := (∀ e ∈ l, 1 ≤ e.min ∧ e.min ≤ e.max) ∧ l.Pairwise Disj

end XlModel.SaveCols
