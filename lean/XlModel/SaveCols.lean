/-
Model of the column-definition path of a save (C01): sheet.go `mergeExpandedCols`, which
`workSheetWriter` runs on every save, and the per-column lookup the getters perform on the
`<cols>` list after open (col.go `GetColWidth`, `GetColVisible`, `GetColOutlineLevel`,
`GetColStyle`: the entry with `Min ≤ col ≤ Max`).

`Impl`: `mergeCols` (stable sort by `Min`, then runs of entries each equal to its predecessor
shifted by one column collapse into the first entry with `Max := last.Min`).  `Spec`: `look`, the
attributes a column resolves to, is unchanged.  The setters keep the list flat (one entry per
column, `flatCols`), which is the precondition of the theorem.
-/
import XlModel.Basic
namespace XlModel.SaveCols
open XlModel

/-- the eight non-positional fields of `xlsxCol` (width as its decimal text) -/
structure Attrs where
  bestFit : Bool
  collapsed : Bool
  customWidth : Bool
  hidden : Bool
  outline : Nat
  phonetic : Bool
  style : Nat
  width : Option (List Char)
  deriving DecidableEq, Repr

structure Col where
  min : Nat
  max : Nat
  a : Attrs
  deriving DecidableEq, Repr

/-- `sort.Slice(cols, Min <)`: insertion sort (what Go runs for up to 12 elements; stable) -/
def insert (c : Col) : List Col → List Col
  | [] => [c]
  | d :: ds => if c.min < d.min then c :: d :: ds else d :: insert c ds

def sortCols : List Col → List Col
  | [] => []
  | c :: cs => insert c (sortCols cs)

/-- the `reflect.DeepEqual` test: `b` is `p` shifted by one column -/
def adj (p b : Col) : Bool := b.min == p.min + 1 && b.max == p.max + 1 && b.a == p.a

/-- the entry appended for a run `left … prev` (`multi` = the run has more than one entry) -/
def close (left prev : Col) (multi : Bool) : Col :=
  if multi then { left with max := prev.min } else left

/-- the loop of `mergeExpandedCols` over the sorted list -/
def mergeGo : Col → Col → Bool → List Col → List Col
  | left, prev, multi, [] => [close left prev multi]
  | left, prev, multi, b :: rest =>
    if adj prev b then mergeGo left b true rest
    else close left prev multi :: mergeGo b b false rest

def mergeSorted : List Col → List Col
  | [] => []
  | a :: rest => mergeGo a a false rest

/-- `mergeExpandedCols` -/
def mergeCols (l : List Col) : List Col := mergeSorted (sortCols l)

/-- the attributes column `c` resolves to -/
def look (l : List Col) (c : Nat) : Option Attrs :=
  (l.find? fun e => decide (e.min ≤ c) && decide (c ≤ e.max)).map (·.a)

/-- one entry per column, strictly increasing (what `flatCols` maintains, after the sort) -/
def FlatFrom : Nat → List Col → Prop
  | _, [] => True
  | lo, e :: es => lo < e.min ∧ e.max = e.min ∧ FlatFrom e.min es

/-- sorted, pairwise disjoint column ranges (what a saved file holds after `mergeExpandedCols`, and what
the getters and the next save see when it is opened again); a flat list is the special case `max = min` -/
def RangesFrom : Nat → List Col → Prop
  | _, [] => True
  | lo, e :: es => lo < e.min ∧ e.min ≤ e.max ∧ RangesFrom e.max es

/-- two column ranges do not overlap -/
def Disj (a b : Col) : Prop := a.max < b.min ∨ b.max < a.min

/-- what the column setters leave in memory (`flatCols` appends new columns at the end, so the list is
*not* sorted): well-formed ranges inside the sheet, pairwise non-overlapping, in any order -/
def Wf (l : List Col) : Prop := (∀ e ∈ l, 1 ≤ e.min ∧ e.min ≤ e.max) ∧ l.Pairwise Disj

/-! ## the column setters (col.go flatCols, setColWidth, SetColOutlineLevel) -/

/-- `inFlat` closure of `flatCols`: index of the single-column entry for column `i` -/
def inFlat (i : Nat) (fc : List Col) : Option Nat := fc.findIdx? fun c => c.max == i && c.min == i

/-- one iteration of the inner loop of `flatCols` for column `i` of the existing entry `column` -/
def flatStep (rep : Attrs → Attrs → Attrs) (column : Col) (fc : List Col) (i : Nat) : List Col :=
  match inFlat i fc with
  | some idx => match fc[idx]? with
    | some e => fc.set idx { e with a := rep e.a column.a }
    | none => fc
  | none => fc ++ [⟨i, i, column.a⟩]

/-- the columns `Min … Max` of an entry -/
def span (c : Col) : List Nat := List.range' c.min (c.max + 1 - c.min)

/-- col.go `flatCols`: the new entry exploded into single columns, then every column of every existing
entry either merged into its single (through the setter's `replacer`) or appended as a new single -/
def flatCols (col : Col) (cols : List Col) (rep : Attrs → Attrs → Attrs) : List Col :=
  cols.foldl (fun fc column => (span column).foldl (flatStep rep column) fc)
    ((span col).map fun i => ⟨i, i, col.a⟩)

/-- a column setter: with no `<cols>` yet the entry is appended as given, otherwise `flatCols` -/
def setCols (cols : Option (List Col)) (col : Col) (rep : Attrs → Attrs → Attrs) : List Col :=
  match cols with
  | none => [col]
  | some l => flatCols col l rep

/-- `replacer` of `setColWidth`: keeps the new width/customWidth, takes the rest from the existing entry -/
def widthRep (fc c : Attrs) : Attrs :=
  { fc with bestFit := c.bestFit, collapsed := c.collapsed, hidden := c.hidden, outline := c.outline,
            phonetic := c.phonetic, style := c.style }

/-- `replacer` of `SetColOutlineLevel` -/
def outlineRep (fc c : Attrs) : Attrs :=
  { fc with bestFit := c.bestFit, collapsed := c.collapsed, customWidth := c.customWidth, hidden := c.hidden,
            phonetic := c.phonetic, style := c.style, width := c.width }

end XlModel.SaveCols
