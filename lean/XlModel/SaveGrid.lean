/-
Model of the grid path of save and open (C01):

  sheet.go     trimRow, trimCell                (save: workSheetWriter)
  cell.go      (*xlsxC).hasValue
  rows.go      (*xlsxRow).hasAttr, (*xlsxWorksheet).checkRow
  excelize.go  (*xlsxWorksheet).checkSheet, checkSheetR0   (open: workSheetReader)

The representation is that of `xlsxSheetData`: a list of row slots, each a list
of cell slots carrying their stored reference.  Cell payload fields are the ones
`hasValue` and the observation look at (`S`, `T`, `V`, `F.Content`, `IS` text);
row attributes are the eleven fields `hasAttr` looks at.  The XML
encode/decode of `<sheetData>` between `trimRow` and `checkSheet` is a parameter
(identity on this representation; validated by the correspondence, which runs
the real encoder/decoder in the middle).

`Impl`: `trimRow`, `checkSheet`, `checkRow`, `cycle`.  `Spec`: `abs` (the grid as a
total map position → content) and `Dense` (the representation invariant every
setter relies on) are unchanged by `cycle`.

`trimCell` compacts in place in Go (the cached worksheet's backing array); the
resulting *value* is the filtered list below, the aliasing is C02's subject.
-/
import XlModel.Ref
import XlModel.Generated.FactsC01

namespace XlModel.Grid
open XlModel XlModel.Ref

structure Cell where
  ref : List Char
  s : Nat
  t : List Char
  v : List Char
  f : Option (List Char)
  is : Option (List Char)
  deriving DecidableEq, Repr

structure Attrs where
  spans : List Char
  s : Nat
  customFormat : Bool
  ht : Option (List Char)
  hidden : Bool
  customHeight : Bool
  outlineLevel : Nat
  collapsed : Bool
  thickTop : Bool
  thickBot : Bool
  ph : Bool
  deriving DecidableEq, Repr

structure Row where
  r : Nat
  attrs : Attrs
  cells : List Cell
  deriving DecidableEq, Repr

inductive Res (α : Type) where
  | ok : α → Res α
  | err : Res α
  | panic : Res α
  deriving Repr, DecidableEq

def Res.map {α β} (f : α → β) : Res α → Res β
  | .ok a => .ok (f a) | .err => .err | .panic => .panic

def Res.bind {α β} (x : Res α) (f : α → Res β) : Res β :=
  match x with | .ok a => f a | .err => .err | .panic => .panic

def emptyCell : Cell := ⟨[], 0, [], [], none, none⟩
def blank (ref : List Char) : Cell := ⟨ref, 0, [], [], none, none⟩
def emptyAttrs : Attrs := ⟨[], 0, false, none, false, false, 0, false, false, false, false⟩
def emptyRow : Row := ⟨0, emptyAttrs, []⟩

/-- one disjunct of `hasValue`, by Go field name -/
def cellFieldSet (c : Cell) (f : String) : Bool :=
  if f = "S" then c.s != 0 else if f = "V" then c.v != [] else if f = "F" then c.f.isSome
  else if f = "T" then c.t != [] else false

/-- `(*xlsxC).hasValue`: the disjunction over the regenerated field list -/
def hasValue (c : Cell) : Bool := Facts.C01.hasValueFields.any (cellFieldSet c)

/-- one disjunct of `hasAttr`, by Go field name -/
def attrFieldSet (a : Attrs) (f : String) : Bool :=
  if f = "Spans" then a.spans != [] else if f = "S" then a.s != 0
  else if f = "CustomFormat" then a.customFormat else if f = "Ht" then a.ht.isSome
  else if f = "Hidden" then a.hidden else if f = "CustomHeight" then a.customHeight
  else if f = "OutlineLevel" then a.outlineLevel != 0 else if f = "Collapsed" then a.collapsed
  else if f = "ThickTop" then a.thickTop else if f = "ThickBot" then a.thickBot
  else if f = "Ph" then a.ph else false

/-- `(*xlsxRow).hasAttr` -/
def hasAttr (a : Attrs) : Bool := Facts.C01.hasAttrFields.any (attrFieldSet a)

/-! ## save: trimCell / trimRow -/

/-- `trimCell` -/
def trimCell (cells : List Cell) : List Cell :=
  if cells.all hasValue then cells else cells.filter hasValue

/-- one iteration of `trimRow`'s loop: the slot is overwritten with the trimmed row only
if it still has cells or attributes; otherwise it keeps the untrimmed row (whose cells are
all blank).  With fact `trimRowDropsEmptyRows` the slot would be dropped instead. -/
def trimRowOne (row : Row) : Option Row :=
  let cs := trimCell row.cells
  if cs ≠ [] || hasAttr row.attrs then some { row with cells := cs }
  else if Facts.C01.trimRowDropsEmptyRows then none else some row

/-- `trimRow` -/
def trimRow (rows : List Row) : List Row := rows.filterMap trimRowOne

/-! ## open: checkSheet -/

def rowOfRef (ref : List Char) : Option Nat :=
  match cellNameToCoordinates ref with
  | .ok (_, row) => some row.toNat
  | .error _ => none

/-- `lastRowNum` closure of `checkSheet` -/
def lastRowNum (r : Row) : Nat :=
  r.cells.foldl (fun num c => match rowOfRef c.ref with
    | some row => if row > num then row else num
    | none => num) 0

/-- first loop of `checkSheet`: returns (row counter, rows kept, r0 rows with their assigned number) -/
def csScan : Nat → List Row → Nat × List Row × List Row
  | row, [] => (row, [], [])
  | row, r :: rs =>
    if r.r == 0 || r.r == row then
      let num := lastRowNum r
      let row1 := if num > row then num else row
      let row2 := if num == 0 then row1 + 1 else row1
      let (m, k, z) := csScan row2 rs
      (m, k, { r with r := row2 } :: z)
    else
      let row' := if r.r > row then r.r else row
      let (m, k, z) := csScan row' rs
      (m, r :: k, z)

/-- second loop: `sheetData.Row[r.R-1] = r` -/
def place (sd : List Row) (kept : List Row) : List Row :=
  kept.foldl (fun sd r => if r.r != 0 then sd.set (r.r - 1) r else sd) sd

/-- the value of `row` after the second loop (the number of the *last* kept row) -/
def lastPlaced (kept : List Row) : Nat :=
  kept.foldl (fun row r => if r.r != 0 then r.r else row) 0

/-- closure `checkRow` of `checkSheetR0` -/
def setCellAt (cells : List Cell) (colIdx : Nat) (cell : Cell) (force : Bool) : List Cell :=
  let cells := cells ++ List.replicate (colIdx + 1 - cells.length) emptyCell
  match cells[colIdx]? with
  | some old => if force || !hasValue old then cells.set colIdx cell else cells
  | none => cells

def r0Put (sd : List Row) (col row : Int) (cell : Cell) : Res (List Row) :=
  if row < 1 ∨ col < 1 then .panic
  else match sd[row.toNat - 1]? with
    | none => .panic
    | some rw => .ok (sd.set (row.toNat - 1) { rw with cells := setCellAt rw.cells (col.toNat - 1) cell true })

/-- `checkSheetR0(…, r0 = true)` for one r0 row: a cell with a reference goes where it says, a cell
without one follows the cell before it (`prevCol + 1`) -/
def r0Cells (rowNo : Nat) : Int → List Cell → List Row → Res (List Row)
  | _, [], sd => .ok sd
  | prev, c :: cs, sd =>
    if c.ref == [] then (r0Put sd (prev + 1) rowNo c).bind (r0Cells rowNo (prev + 1) cs)
    else match cellNameToCoordinates c.ref with
      | .ok (col, row) => (r0Put sd col row c).bind (r0Cells rowNo col cs)
      | .error _ => r0Cells rowNo prev cs sd

def r0Rows : List Row → List Row → Res (List Row)
  | [], sd => .ok sd
  | z :: zs, sd =>
    match sd[z.r - 1]? with
    | none => .panic
    | some rw =>
      -- the row keeps its attributes unless its place is taken by a numbered row
      let slot : Row := if rw.cells.isEmpty && !hasAttr rw.attrs then { z with cells := rw.cells } else rw
      (r0Cells z.r 0 z.cells (sd.set (z.r - 1) { slot with r := z.r })).bind (r0Rows zs)

/-- last loop: `sheetData.Row[i-1].R = i` for `i ≤ row` (`checkSheetR0(…, false)` changes nothing) -/
def setNumbers (n : Nat) (sd : List Row) : List Row :=
  sd.mapIdx fun i r => if i < n then { r with r := i + 1 } else r

/-- `checkSheet` -/
def checkSheet (rows : List Row) : Res (List Row) :=
  -- row numbers are bounded first (negative numbers, also rejected there, are not representable here)
  if rows.any (fun r => decide (r.r > Facts.TotalRows)) then .err else
  let (m, kept, z) := csScan 0 rows
  let sd := place (List.replicate m emptyRow) kept
  (r0Rows z sd).map (setNumbers (lastPlaced kept))

/-! ## open: checkRow -/

/-- first loop of `checkRow` over one row: give a reference to cells without one -/
def fillRefs (rowNo : Nat) : Int → List Cell → Res (List Cell)
  | _, [] => .ok []
  | rc, c :: cs =>
    let rc := rc + 1
    if c.ref != [] then
      match cellNameToCoordinates c.ref with
      | .error _ => .err
      | .ok (col, _) => (fillRefs rowNo (if col > rc then col else rc) cs).map (c :: ·)
    else
      -- the error is ignored; on a column error `CoordinatesToCellName` still returns ""+row
      let name := match coordinatesToCellName rc rowNo false with
        | .ok n => n
        | .error _ =>
          if rc < 1 ∨ (rowNo : Int) < 1 ∨ (rowNo : Int) > (Facts.TotalRows : Int) then [] else itoaInt rowNo
      (fillRefs rowNo rc cs).map ({ c with ref := name } :: ·)

def targets (rowNo : Nat) : Nat → Option (List Cell)
  | 0 => some []
  | n + 1 => match targets rowNo n, coordinatesToCellName ((n : Int) + 1) rowNo false with
    | some l, .ok name => some (l ++ [blank name])
    | _, _ => none

def placeCells : List Cell → List Cell → Res (List Cell)
  | tgt, [] => .ok tgt
  | tgt, c :: cs =>
    match cellNameToCoordinates c.ref with
    | .error _ => .err
    | .ok (col, _) =>
      if 1 ≤ col ∧ col ≤ (tgt.length : Int) then placeCells (tgt.set (col.toNat - 1) c) cs
      else .panic

/-- "size the row by its greatest column": the maximum of `lastCol` and every cell's column -/
def maxCol : Int → List Cell → Res Int
  | m, [] => .ok m
  | m, c :: cs =>
    match cellNameToCoordinates c.ref with
    | .error _ => .err
    | .ok (col, _) => maxCol (if col > m then col else m) cs

/-- second half of `checkRow` over one row: re-densify if the last cell's column exceeds the count;
the new row has as many slots as the greatest column among the cells -/
def rebuild (rowNo : Nat) (cells : List Cell) : Res (List Cell) :=
  match cells.getLast? with
  | none => .ok cells
  | some last =>
    match cellNameToCoordinates last.ref with
    | .error _ => .err
    | .ok (lastCol, _) =>
      if (cells.length : Int) < lastCol then
        (maxCol lastCol cells).bind fun lastCol =>
          match targets rowNo lastCol.toNat with
          | none => .err
          | some tgt => placeCells tgt cells
      else .ok cells

def checkRowOne (rowNo : Nat) (cells : List Cell) : Res (List Cell) :=
  if cells.isEmpty then .ok cells else (fillRefs rowNo 0 cells).bind (rebuild rowNo)

/-- `checkRow` -/
def checkRowAux : Nat → List Row → Res (List Row)
  | _, [] => .ok []
  | i, r :: rs =>
    (checkRowOne (i + 1) r.cells).bind fun cs =>
      (checkRowAux (i + 1) rs).map ({ r with cells := cs } :: ·)

def checkRow (rows : List Row) : Res (List Row) := checkRowAux 0 rows

/-- what `workSheetReader` does to a decoded `<sheetData>` -/
def densify (rows : List Row) : Res (List Row) := (checkSheet rows).bind checkRow

/-- save (trim) then open (densify); the XML layer in between is the identity on this representation -/
def cycle (rows : List Row) : Res (List Row) := densify (trimRow rows)

/-! ## Spec -/

structure Content where
  s : Nat
  t : List Char
  v : List Char
  f : Option (List Char)
  is : Option (List Char)
  deriving DecidableEq, Repr

def content (c : Cell) : Content := ⟨c.s, c.t, c.v, c.f, c.is⟩
def noContent : Content := ⟨0, [], [], none, none⟩

/-- the grid as a total map (0-based row slot, 0-based cell slot) → content -/
def abs (rows : List Row) (i j : Nat) : Content :=
  match rows[i]? with
  | none => noContent
  | some r => match r.cells[j]? with
    | none => noContent
    | some c => content c

def refOf (j i : Nat) : List Char :=
  match coordinatesToCellName ((j : Int) + 1) ((i : Int) + 1) false with
  | .ok n => n | .error _ => []

/-- cell slot `j` of row slot `i` is named (j+1, i+1); a cell without value carries no inline string -/
def DenseRow (i : Nat) (cells : List Cell) : Prop :=
  cells.length ≤ Facts.MaxColumns ∧
  ∀ j (h : j < cells.length), cells[j].ref = refOf j i ∧ (hasValue cells[j] = false → cells[j].is = none)

/-- the representation invariant: row slot `i` holds row `i+1`, its cells are dense, inside the grid -/
def Dense (rows : List Row) : Prop :=
  rows.length ≤ Facts.TotalRows ∧
  ∀ i (h : i < rows.length), rows[i].r = i + 1 ∧ DenseRow i rows[i].cells

end XlModel.Grid
