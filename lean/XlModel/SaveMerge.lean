/-
Model of the merged-range list across a save (C01): merge.go `flatMergedCells` (= `mergeOverlapCells`,
which `workSheetWriter` runs in place on every save; `MergeCell` itself only appends) and the redirect
every cell getter/setter performs through cell.go `mergeCellsParser` (a cell inside a stored merged range
is read and written through the range's top-left cell).

`Impl`: `normalize`, `anchorOf`.  `Spec`: saving does not change where a cell is redirected to.  That
holds when no two stored ranges overlap (`normalize_of_disjoint`) and fails otherwise
(`Props.C01.finding_overlapping_merges_normalised_at_save`).
-/
import XlModel.Basic
namespace XlModel.SaveMerge
open XlModel

/-- a merged range as sorted coordinates (col1,row1)-(col2,row2) -/
structure Rect where
  c1 : Nat
  r1 : Nat
  c2 : Nat
  r2 : Nat
  deriving DecidableEq, Repr

/-- cell.go `isOverlap` -/
def overlap (a b : Rect) : Bool := a.c1 ≤ b.c2 && b.c1 ≤ a.c2 && a.r1 ≤ b.r2 && b.r1 ≤ a.r2

/-- merge.go `mergeCell`: the range bounding both -/
def bound (a b : Rect) : Rect := ⟨min a.c1 b.c1, min a.r1 b.r1, max a.c2 b.c2, max a.r2 b.r2⟩

/-- the inner `for` of `flatMergedCells`: take in every kept range that overlaps the current one, again
with the grown range, until none overlaps (every round removes at least one kept range: `fuel`) -/
def absorb : Nat → Rect → List Rect → Rect × List Rect
  | 0, cur, cells => (cur, cells)
  | fuel + 1, cur, cells =>
    let ov := cells.filter (overlap cur)
    if ov.isEmpty then (cur, cells)
    else absorb fuel (ov.foldl bound cur) (cells.filter fun o => !overlap cur o)

/-- `flatMergedCells` -/
def normalize (l : List Rect) : List Rect :=
  l.foldl (fun cells cur => let p := absorb (cells.length + 1) cur cells; p.2 ++ [p.1]) []

def inside (m : Rect) (c r : Nat) : Bool := m.c1 ≤ c && c ≤ m.c2 && m.r1 ≤ r && r ≤ m.r2

/-- `mergeCellsParser`: the cell a reference is redirected to -/
def anchorOf (l : List Rect) (c r : Nat) : Nat × Nat :=
  match l.find? fun m => inside m c r with
  | some m => (m.c1, m.r1)
  | none => (c, r)

/-- lib.go `sortCoordinates` on the four coordinates `rangeRefToCoordinates` returns (`C1:B3` → `B1:C3`) -/
def sortRect (x1 y1 x2 y2 : Nat) : Rect := ⟨min x1 x2, min y1 y2, max x1 x2, max y1 y2⟩

/-- the stored-list part of merge.go `MergeCell`: the corrected range is appended, nothing else in the list
is looked at or changed -/
def mergeCell (l : List Rect) (x1 y1 x2 y2 : Nat) : List Rect := l ++ [sortRect x1 y1 x2 y2]

/-- the stored-list part of merge.go `UnmergeCell`: `mergeOverlapCells` (= `normalize`) in place, then every
range that `isOverlap`s the corrected argument range is dropped, the others keep their order -/
def unmergeCell (l : List Rect) (x1 y1 x2 y2 : Nat) : List Rect :=
  (normalize l).filter fun m => !overlap (sortRect x1 y1 x2 y2) m

end XlModel.SaveMerge
