/-
Model of the shared-string bookkeeping behind `SetCellStr` (C01): cell.go `setSharedString` (table
`File.SharedStrings.SI`, index map `File.sharedStringsMap` keyed by the stored text) and the map
`sharedStringsReader` builds when a workbook is opened (rows.go: `sharedStringsMap[SI[i].T.Val] = i`).

`Impl`: `setShared`, `loadMap`.  `Spec`: the index handed to the cell points at an item whose text reads
back as the written string (truncated to the cell limit), and no earlier item changes — so no previously
written cell changes its value.
-/
import XlModel.Bstr
namespace XlModel.SaveSst
open XlModel XlModel.Bstr

/-- the table (stored text of each plain item, in order) and the index map as an association list:
`lookup` returns the most recent binding, which is what a Go map assignment leaves -/
structure State where
  sst : List (List Char)
  map : List (List Char × Nat)

def lookup (m : List (List Char × Nat)) (t : List Char) : Option Nat :=
  (m.find? fun p => p.1 == t).map (·.2)

/-- `setSharedString`: returns the new state and the index written into the cell -/
def setShared (st : State) (s : List Char) : State × Nat :=
  let t := (trimCellValue s).1
  match lookup st.map t with
  | some i => (st, i)
  | none => (⟨st.sst ++ [t], (t, st.sst.length) :: st.map⟩, st.sst.length)

/-- `setCellString`: the 32767-rune truncation, then `setSharedString` -/
def setCellString (st : State) (s : List Char) : State × Nat := setShared st (truncate s)

/-- the map `sharedStringsReader` builds from a loaded table (later items override earlier ones) -/
def loadMapFrom : Nat → List (List Char) → List (List Char × Nat) → List (List Char × Nat)
  | _, [], m => m
  | i, t :: ts, m => loadMapFrom (i + 1) ts ((t, i) :: m)

def loadMap (sst : List (List Char)) : List (List Char × Nat) := loadMapFrom 0 sst []

/-- a freshly opened workbook -/
def opened (sst : List (List Char)) : State := ⟨sst, loadMap sst⟩

/-- the invariant: every binding of the map points at an item with that text -/
def MapOk (st : State) : Prop := ∀ t i, lookup st.map t = some i → st.sst[i]? = some t

end XlModel.SaveSst
