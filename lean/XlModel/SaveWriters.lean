/-
Part writers of a save as state transformers that must not consume their source (C02).

`writeToZip` runs a fixed list of writers (`Facts.C02.saveWriters`); each renders a decoded
singleton of the File into part bytes.  A writer is *non-consuming* when rendering again
after it has run gives the same bytes and it leaves what the readers see unchanged.  Two
writer shapes that carry extra state are modelled here:

* the `mc:AlternateContent` pattern of workbook.go `workBookWriter` and sheet.go
  `workSheetWriter`: a decode-only field (`DecodeAlternateContent`) is turned into the
  encode field (`AlternateContent`) and then cleared; whether the encode field is built
  *only* inside `if Decode… != nil` (so that it persists) is the regenerated fact
  `Facts.C02.workbookAltPersisted` / `worksheetAltPersisted`;
* vml.go `vmlDrawingWriter` with its readers: the loaded drawing `File.VMLDrawing[path]`,
  the part bytes, and the memo `File.DecodeVMLDrawing[path]` of `decodeVMLDrawingReader`,
  which is never invalidated; whether the writer drops the loaded drawing is read off
  `Facts.C02.writerClears`.

Core Lean only.
-/
import XlModel.Generated.FactsC02

namespace XlModel.SaveWriters

/-- a writer: what it renders from the state, and the state it leaves -/
structure Writer (σ β : Type) where
  render : σ → β
  post : σ → σ

/-- rendering again after the writer ran gives the same part, and running it twice leaves the
state of running it once -/
def NonConsuming {σ β : Type} (w : Writer σ β) : Prop :=
  ∀ s, w.render (w.post s) = w.render s ∧ w.post (w.post s) = w.post s

def iter {σ : Type} (f : σ → σ) : Nat → σ → σ
  | 0, s => s
  | n + 1, s => iter f n (f s)

/-! ### mc:AlternateContent -/

structure Alt where
  alt : Option String   -- `AlternateContent` (encode field)
  dec : Option String   -- `DecodeAlternateContent` (decode-only field)
  deriving DecidableEq, Repr

/-- the element the writer marshals. `persisted`: the encode field is assigned only inside
`if DecodeAlternateContent != nil`; otherwise it is rebuilt from the decode field every time. -/
def altNext (persisted : Bool) (s : Alt) : Option String :=
  if persisted then (match s.dec with | some c => some c | none => s.alt) else s.dec

def altWriter (persisted : Bool) : Writer Alt (Option String) :=
  { render := altNext persisted
    post := fun s => ⟨altNext persisted s, none⟩ }

/-- the writers as they are in the code now -/
def workbookAltWriter : Writer Alt (Option String) := altWriter Facts.C02.workbookAltPersisted
def worksheetAltWriter : Writer Alt (Option String) := altWriter Facts.C02.worksheetAltPersisted

/-! ### VML drawings -/

abbrev Shapes := List String

structure Vml where
  loaded : Option Shapes   -- File.VMLDrawing[path]
  pkg : Option Shapes      -- File.Pkg[path] (bytes, decoded)
  memo : Option Shapes     -- File.DecodeVMLDrawing[path]
  deriving DecidableEq, Repr

/-- `decodeVMLDrawingReader`: the memo if present, else decode the part and keep it as memo -/
def Vml.decode (s : Vml) : Vml × Shapes :=
  match s.memo with
  | some m => (s, m)
  | none =>
    match s.pkg with
    | some p => ({ s with memo := some p }, p)
    | none => (s, [])

/-- GetFormControls / GetComments' shapes: the loaded drawing, else the decoded part -/
def Vml.read (s : Vml) : Vml × Shapes :=
  match s.loaded with
  | some v => (s, v)
  | none => s.decode

/-- AddFormControl / AddComment: start from what `read` gives, keep the result loaded -/
def Vml.add (s : Vml) (x : String) : Vml :=
  let (s', cur) := s.read
  { s' with loaded := some (cur ++ [x]) }

/-- `vmlDrawingWriter`; `drops`: the writer deletes the loaded drawing after storing the part -/
def Vml.write (drops : Bool) (s : Vml) : Vml :=
  match s.loaded with
  | some v => { s with pkg := some v, loaded := if drops then none else some v }
  | none => s

/-- does the code delete `f.VMLDrawing[path]` in the writer? (regenerated) -/
def vmlWriterDrops : Bool :=
  match Facts.C02.writerClears.find? (fun p => p.1 == "vmlDrawingWriter") with
  | some p => p.2.any (fun c => c == "delete f.VMLDrawing")
  | none => true

inductive VOp where
  | add (x : String)
  | save
  | read
  deriving DecidableEq, Repr

def vstep (drops : Bool) (s : Vml) : VOp → Vml × Option Shapes
  | .add x => (s.add x, none)
  | .save => (s.write drops, none)
  | .read => let (s', v) := s.read; (s', some v)

def vrun (drops : Bool) : Vml → List VOp → Vml × List (Option Shapes)
  | s, [] => (s, [])
  | s, o :: os =>
    let (s', out) := vstep drops s o
    let (s'', outs) := vrun drops s' os
    (s'', out :: outs)

/-- specification: the drawing is a list of shapes; saving does nothing -/
def vspecStep (v : Shapes) : VOp → Shapes × Option Shapes
  | .add x => (v ++ [x], none)
  | .save => (v, none)
  | .read => (v, some v)

def vspec : Shapes → List VOp → Shapes × List (Option Shapes)
  | v, [] => (v, [])
  | v, o :: os =>
    let (v', out) := vspecStep v o
    let (v'', outs) := vspec v' os
    (v'', out :: outs)

/-! ### decoded parts in general: cache-if-nil reader, render-if-loaded writer

Every remaining writer of `writeToZip` (calcChain, comments, content types, drawings, volatile
dependencies, relationships, shared strings, styles, theme, and the workbook) has the shape
`if loaded != nil [&& guard] { Pkg[path] = marshal(loaded) }` over a singleton or over every
entry of a map (`Facts.C02.writerShapes`), and the matching reader decodes the part only when
nothing is loaded (`Facts.C02.readerCaches`).  XML marshalling is a parameter (`Codec`). -/

structure Codec (α β : Type) where
  enc : α → β
  dec : β → α

/-- the round-trip law of the part's XML binding, needed only where a writer drops what it rendered -/
def Codec.RoundTrip {α β : Type} (c : Codec α β) : Prop := ∀ a, c.dec (c.enc a) = a

/-- one decoded part: `f.X` (or `f.X[path]`) and `File.Pkg[path]` -/
structure Slot (α β : Type) where
  loaded : Option α
  part : Option β

/-- `xReader`: what is loaded, else decode the part (or a fresh value) and keep it loaded -/
def Slot.read {α β : Type} (c : Codec α β) (zero : α) (s : Slot α β) : Slot α β × α :=
  match s.loaded with
  | some a => (s, a)
  | none =>
    let a := match s.part with
      | some b => c.dec b
      | none => zero
    (⟨some a, s.part⟩, a)

/-- what every reader and getter is a function of -/
def Slot.view {α β : Type} (c : Codec α β) (zero : α) (s : Slot α β) : α := (s.read c zero).2

/-- `xWriter`: guard `g` (e.g. `f.CalcChain.C != nil`); `consumes`: the writer clears the loaded value -/
def Slot.write {α β : Type} (c : Codec α β) (g : α → Bool) (consumes : Bool) (s : Slot α β) : Slot α β :=
  match s.loaded with
  | some a => if g a then ⟨if consumes then none else some a, some (c.enc a)⟩ else s
  | none => s

/-- mutation through the reader: `x, _ := f.xReader(); mutate x` -/
def Slot.update {α β : Type} (c : Codec α β) (zero : α) (f : α → α) (s : Slot α β) : Slot α β :=
  let (s', a) := s.read c zero
  ⟨some (f a), s'.part⟩

inductive SOp (α : Type) where
  | update (f : α → α)
  | read
  | save

def sstep {α β : Type} (c : Codec α β) (zero : α) (g : α → Bool) (consumes : Bool)
    (s : Slot α β) : SOp α → Slot α β × Option α
  | .update f => (s.update c zero f, none)
  | .read => let (s', a) := s.read c zero; (s', some a)
  | .save => (s.write c g consumes, none)

def srun {α β : Type} (c : Codec α β) (zero : α) (g : α → Bool) (consumes : Bool) :
    Slot α β → List (SOp α) → Slot α β × List (Option α)
  | s, [] => (s, [])
  | s, o :: os =>
    let (s', out) := sstep c zero g consumes s o
    let (s'', outs) := srun c zero g consumes s' os
    (s'', out :: outs)

/-- specification: the part is a value; saving does nothing -/
def sspecStep {α : Type} (a : α) : SOp α → α × Option α
  | .update f => (f a, none)
  | .read => (a, some a)
  | .save => (a, none)

def sspec {α : Type} : α → List (SOp α) → α × List (Option α)
  | a, [] => (a, [])
  | a, o :: os =>
    let (a', out) := sspecStep a o
    let (a'', outs) := sspec a' os
    (a'', out :: outs)

/-- does the code clear the loaded state the writer renders from? (from `writerShapes` and `writerClears`) -/
def writerConsumes (name : String) : Bool :=
  match Facts.C02.writerShapes.find? (fun p => p.1 == name), Facts.C02.writerClears.find? (fun p => p.1 == name) with
  | some (_, kind, subj), some (_, clears) =>
    clears.any (fun c =>
      if kind == "map" then c == "delete " ++ subj
      else if kind == "syncmap" then c == subj ++ ".Delete"
      else c == subj ++ "=nil")
  | _, _ => true

/-- the package: one slot per writer of `writeToZip`, saved by running every writer -/
def savePkg {α β : Type} (c : Codec α β) (g : α → Bool) : List Bool → List (Slot α β) → List (Slot α β)
  | f :: fs, s :: ss => s.write c g f :: savePkg c g fs ss
  | _, ss => ss

end XlModel.SaveWriters
