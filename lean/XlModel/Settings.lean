/-
Model for C18 (settings read back as set).  Core Lean only.

`Impl` transcribes, over the regenerated facts of `FactsC18`:

* lib.go `assignFieldValue`, `setNoPtrFieldsVal`, `setPtrFieldsVal` over an abstract
  record (field name ↦ plain / pointer value of kind bool, int, float64, string);
  every reflect call that panics in Go is an explicit `Out.panic`.  Types are
  abstracted to kinds: two fields of the same kind are taken to have the same Go
  type (true for every production struct routed through the helpers; other
  types — uint, nested structs — are kind `other` and never assignable).
* `strings.NewReplacer(...).Replace` for tables of non-empty old strings (first
  matching pair in argument order at each position, left to right), instantiated
  with the four extracted tables; `SetDropList`; `unescapeDataValidationFormula`.
* lib.go `genSheetPasswd` on 64-bit two's-complement arithmetic (as `Nat` mod 2^64).
* sheet.go `ProtectSheet` / `UnprotectSheet` password logic, ISO hash as a parameter.
* sheet.go `SetDefinedName`, `DeleteDefinedName`, `GetDefinedName` (ASCII names).

`Spec` is `Spec.normalize` (what a pointer option reads back as) and the
list-level statements in `Props/C18.lean`.
-/
import XlModel.Basic
import XlModel.Generated.Facts
import XlModel.Generated.FactsC18

namespace XlModel.Settings
open XlModel

/-! ## generic reflection copy -/

inductive Kind | bool | int | float | str | other
  deriving DecidableEq, Repr

inductive Val
  | b (v : Bool) | i (v : Int) | f (bits : Nat) | s (v : List Char)
  deriving DecidableEq, Repr

def Val.kind : Val → Kind
  | .b _ => .bool | .i _ => .int | .f _ => .float | .s _ => .str

/-- `reflect.Value.IsZero` (float64: `v.Float() == 0`, so `-0.0` is zero too — observed on Go 1.23) -/
def Val.isZero : Val → Bool
  | .b v => !v | .i v => v == 0 | .f v => v == 0 || v == 9223372036854775808 | .s v => v.isEmpty

def Kind.zero : Kind → Val
  | .bool => .b false | .int => .i 0 | .float => .f 0 | _ => .s []

inductive FVal
  | plain (v : Val)
  | ptr (k : Kind) (v : Option Val)
  deriving DecidableEq, Repr

abbrev Rec := List (String × FVal)

def Rec.get : Rec → String → Option FVal
  | [], _ => none
  | (k, b) :: r, n => if k = n then some b else Rec.get r n

def Rec.set : Rec → String → FVal → Rec
  | [], _, _ => []
  | (k, b) :: r, n, v => if k = n then (k, v) :: Rec.set r n v else (k, b) :: Rec.set r n v

inductive Out (α : Type)
  | ok (a : α) | panic
  deriving Repr

/-- does `assignFieldValue` have a `case reflect.<Kind>` for this kind? (regenerated) -/
def kindCase : Kind → Bool
  | .bool => Facts.C18.assignKinds.contains "Bool"
  | .int => Facts.C18.assignKinds.contains "Int"
  | .float => Facts.C18.assignKinds.contains "Float64"
  | .str => Facts.C18.assignKinds.contains "String"
  | .other => false

def kindName : Kind → String
  | .bool => "bool" | .int => "int" | .float => "float64" | .str => "string" | .other => "other"

/-- `SetBool/SetInt/SetFloat/SetString` on `mutable.FieldByName(field)`: the target
must exist, be a plain field, and have the kind of the value. -/
def store (field : String) (v : Val) (tgt : Rec) : Out Rec :=
  match tgt.get field with
  | some (.plain w) => if w.kind = v.kind then .ok (tgt.set field (.plain v)) else .panic
  | _ => .panic

/-- `assignFieldValue`; `imm = none` is the invalid `reflect.Value` of a missing field -/
def assign (field : String) (imm : Option Val) (tgt : Rec) : Out Rec :=
  match imm with
  | none => store field (.s "<invalid Value>".toList) tgt
  | some v =>
    if kindCase v.kind || v.kind = .str then store field v tgt
    else store field (.s ("<" ++ kindName v.kind ++ " Value>").toList) tgt

def setNoPtr : List String → Rec → Rec → Out Rec
  | [], _, tgt => .ok tgt
  | f :: fs, imm, tgt =>
    match imm.get f with
    | some (.ptr _ none) => setNoPtr fs imm tgt
    | some (.ptr _ (some v)) =>
      match assign f (some v) tgt with
      | .ok m => setNoPtr fs imm m
      | .panic => .panic
    | some (.plain v) =>
      match assign f (some v) tgt with
      | .ok m => setNoPtr fs imm m
      | .panic => .panic
    | none =>
      match assign f none tgt with
      | .ok m => setNoPtr fs imm m
      | .panic => .panic

def setPtr : List String → Rec → Rec → Out Rec
  | [], _, tgt => .ok tgt
  | f :: fs, imm, tgt =>
    match imm.get f with
    | none => .panic
    | some (.ptr _ none) => setPtr fs imm tgt
    | some (.ptr _ (some v)) =>
      match tgt.get f with
      | some (.plain w) => if w.kind = v.kind then setPtr fs imm (tgt.set f (.plain v)) else .panic
      | _ => .panic
    | some (.plain v) =>
      if v.isZero then setPtr fs imm tgt else
      match tgt.get f with
      | some (.ptr k _) => if k = v.kind then setPtr fs imm (tgt.set f (.ptr k (some v))) else .panic
      | _ => .panic

/-- Spec: what a pointer option reads back as after set-then-get: the new value if
one was given, else the old one; the zero value is reported as nil. -/
def Spec.normalize (o : Option Val) (old : Val) : Option Val :=
  let v := o.getD old
  if v.isZero then none else some v

/-! ### struct declarations (from facts) -/

def kindOfType (t : String) : Kind :=
  if t = "bool" then .bool else if t = "int" then .int else if t = "float64" then .float
  else if t = "string" then .str else .other

/-- a zero value of a declared struct, restricted to fields of modelled kinds -/
def zeroRec (decl : List (String × Bool × String)) : Rec :=
  decl.filterMap fun (n, isPtr, t) =>
    match kindOfType t with
    | .other => none
    | k => some (n, if isPtr then .ptr k none else .plain k.zero)

/-- static check: every field of `fs` is a pointer (or plain) field of a handled kind in
the options struct and a plain field of the same kind in the part struct -/
def wtDecl (fs : List String) (o p : List (String × Bool × String)) : Bool :=
  fs.all fun f =>
    match o.lookup f, p.lookup f with
    | some (_, to), some (false, tp) =>
      let k := kindOfType to
      k != .other && k == kindOfType tp && (kindCase k || k == .str)
    | _, _ => false

/-! ## strings.Replacer -/

abbrev Table := List (List Char × List Char)

def lookupRep (tbl : Table) (s : List Char) : Option (List Char × List Char) :=
  tbl.find? fun p => p.1.isPrefixOf s

/-- `Replace`; the counter skips the rest of a matched old string -/
def replaceGo (tbl : Table) : Nat → List Char → List Char
  | _, [] => []
  | k + 1, _ :: rest => replaceGo tbl k rest
  | 0, c :: rest =>
    match lookupRep tbl (c :: rest) with
    | some (old, new) => new ++ replaceGo tbl (old.length - 1) rest
    | none => c :: replaceGo tbl 0 rest

def replace (tbl : Table) (s : List Char) : List Char := replaceGo tbl 0 s

def tableOf (t : List (String × String)) : Table := t.map fun p => (p.1.toList, p.2.toList)

def escTbl : Table := tableOf Facts.C18.formulaEscaperTable
def unescTbl : Table := tableOf Facts.C18.formulaUnescaperTable
def quoteTbl : Table := tableOf Facts.C18.dropListQuoterTable
def unquoteTbl : Table := tableOf Facts.C18.dropListUnquoterTable

def escape (s : List Char) : List Char := replace escTbl s
def unescape (s : List Char) : List Char := replace unescTbl s
def quote (s : List Char) : List Char := replace quoteTbl s
def unquote (s : List Char) : List Char := replace unquoteTbl s

def dq : Char := '"'

/-- `unescapeDataValidationFormula`: unescape; a text enclosed in double quotes (a drop list
written by `SetDropList`) has its doubled quotes un-doubled INSIDE the enclosing pair -/
def unescapeDV (val : List Char) : List Char :=
  let u := unescape val
  if u.length > 1 && [dq].isPrefixOf u && u.getLast? == some dq then
    dq :: unquote (u.drop 1).dropLast ++ [dq]
  else u

/-- `getDataValidations`: Formula1 of a list validation gets the drop-list decoding, every
other formula (Formula1 of other types, Formula2) is only unescaped -/
def getFormula (isListFormula1 : Bool) (content : List Char) : List Char :=
  if isListFormula1 then unescapeDV content else unescape content

/-- UTF-16 length of a valid UTF-8 byte string -/
def utf16Len (s : List Char) : Nat :=
  (s.filter fun c => c.toNat / 64 != 2).length + (s.filter fun c => c.toNat ≥ 240).length

/-- `SetDropList`: the `Formula1` it stores (`none` = ErrDataValidationFormulaLength) -/
def setDropList (formula : List Char) : Option (List Char) :=
  if Facts.MaxFieldLength < utf16Len formula then none
  else if ['='].isPrefixOf formula then some (escape formula)
  else some (dq :: quote (escape formula) ++ [dq])

/-! ## legacy XOR password hash -/

def two64 : Nat := 18446744073709551616

/-- one loop iteration's `value | rotatedBits` as an unsigned 64-bit pattern: the character is
shifted by its position modulo 15 (a rotation inside the 15-bit register) -/
def xorTerm (v pos : Nat) : Nat :=
  let sh := pos % 15
  let value := (v <<< sh) % two64
  let neg := value ≥ two64 / 2
  let rot := (value >>> Facts.C18.xorRot) ||| (if neg then (two64 - 1) - ((two64 >>> Facts.C18.xorRot) - 1) else 0)
  (value &&& Facts.C18.xorMask) ||| rot

def xorFold : Nat → Nat → List Nat → Nat
  | acc, _, [] => acc
  | acc, pos, v :: vs => xorFold (acc ^^^ xorTerm v pos) (pos + 1) vs

/-- the 64-bit pattern of `password` before formatting -/
def xorHash (byteLen : Nat) (runes : List Nat) : Nat :=
  (xorFold 0 1 runes ^^^ byteLen) ^^^ Facts.C18.xorConst

def hexUpper (n : Nat) : List Char :=
  (Nat.toDigits 16 n).map fun c => if 97 ≤ c.toNat ∧ c.toNat ≤ 102 then Char.ofNat (c.toNat - 32) else c

/-- `genSheetPasswd`: `strings.ToUpper(strconv.FormatInt(password, 16))` -/
def genSheetPasswd (byteLen : Nat) (runes : List Nat) : List Char :=
  let h := xorHash byteLen runes
  if h ≥ two64 / 2 then '-' :: hexUpper (two64 - h) else hexUpper h

/-- runes of a valid UTF-8 byte string (Go's `range`); malformed bytes become U+FFFD -/
def runesOf : List Char → List Nat
  | [] => []
  | a :: rest =>
    let x := a.toNat
    if x < 128 then x :: runesOf rest
    else match rest with
      | b :: r2 =>
        if 192 ≤ x ∧ x < 224 then ((x % 32) * 64 + b.toNat % 64) :: runesOf r2
        else match r2 with
          | c :: r3 =>
            if 224 ≤ x ∧ x < 240 then ((x % 16) * 4096 + (b.toNat % 64) * 64 + c.toNat % 64) :: runesOf r3
            else match r3 with
              | d :: r4 => ((x % 8) * 262144 + (b.toNat % 64) * 4096 + (c.toNat % 64) * 64 + d.toNat % 64) :: runesOf r4
              | [] => [65533]
          | [] => [65533]
      | [] => [65533]

def passwdOf (s : List Char) : List Char := genSheetPasswd s.length (runesOf s)

/-! ## sheet protection: password logic -/

structure Prot where
  alg : List Char
  password : List Char
  hash : List Char
  salt : List Char
  deriving DecidableEq, Repr

/-- ISO hash as a parameter: algorithm, password, salt ↦ hash (`none` = unsupported
algorithm / bad password length); the spin count is fixed by the caller. -/
abbrev IsoHash := List Char → List Char → List Char → Option (List Char)

/-- `ProtectSheet` (password part): `freshSalt` is the random salt it draws -/
def protectSheet (H : IsoHash) (freshSalt alg pw : List Char) : Option Prot :=
  if pw.isEmpty then some ⟨[], [], [], []⟩
  else if alg.isEmpty then some ⟨[], passwdOf pw, [], []⟩
  else match H alg pw freshSalt with
    | some h => some ⟨alg, [], h, freshSalt⟩
    | none => none

inductive UnErr | notProtected | badPassword | hashError
  deriving DecidableEq, Repr

/-- `UnprotectSheet`: `.ok none` = protection removed -/
def unprotectSheet (H : IsoHash) (st : Option Prot) (pw : Option (List Char)) : Except UnErr (Option Prot) :=
  match pw with
  | none => .ok none
  | some p =>
    match st with
    | none => .error .notProtected
    | some pr =>
      if pr.alg.isEmpty then
        if pr.password ≠ passwdOf p then .error .badPassword else .ok none
      else match H pr.alg p pr.salt with
        | none => .error .hashError
        | some h => if pr.hash ≠ h then .error .badPassword else .ok none

/-! ## defined names -/

structure DN where
  name : List Char
  scope : List Char
  refersTo : List Char
  comment : List Char
  deriving DecidableEq, Repr

structure XDN where
  name : List Char
  data : List Char
  comment : List Char
  localSheetID : Option Nat
  deriving DecidableEq, Repr

structure DNState where
  sheets : List (List Char)
  names : List XDN
  deriving Repr

def lowerC (c : Char) : Char := if 65 ≤ c.toNat ∧ c.toNat ≤ 90 then Char.ofNat (c.toNat + 32) else c
/-- `strings.EqualFold` on ASCII -/
def eqFold (a b : List Char) : Bool := a.map lowerC == b.map lowerC

/-- `GetSheetIndex` (≥ 0 only; names are assumed to pass `checkSheetName`) -/
def sheetIndex (sheets : List (List Char)) (s : List Char) : Option Nat :=
  let i := sheets.findIdx (eqFold · s)
  if i < sheets.length then some i else none

/-- `GetSheetName` -/
def sheetName (sheets : List (List Char)) (i : Nat) : List Char := sheets.getD i []

def inRange : Nat → List Nat → Bool
  | c, lo :: hi :: rest => (lo ≤ c && c ≤ hi) || inRange c rest
  | _, _ => false

def checkRest : List Char → Bool
  | [] => true
  | c :: cs => inRange c.toNat Facts.C18.supportedDefinedNameAfterStartCharCodeRange && checkRest cs

/-- `checkDefinedName` (true = accepted); names are ASCII so runes are bytes -/
def checkDefinedName (n : List Char) : Bool :=
  if n.length > Facts.MaxFieldLength then false else
  match n with
  | [] => true
  | c :: cs => inRange c.toNat Facts.C18.supportedDefinedNameAtStartCharCodeRange && checkRest cs

def workbookS : List Char := "Workbook".toList

/-- scope string the duplicate test of `SetDefinedName` computes for a stored name -/
def storedScopeSet (sheets : List (List Char)) (x : XDN) : List Char :=
  match x.localSheetID with
  | some i => sheetName sheets i
  | none => []

inductive DnErr | param | name | duplicate | scope
  deriving DecidableEq, Repr

/-- `getDefinedNameScope`: nil for the workbook scope ("" or "Workbook"), else the index of
the named sheet (case-insensitive), which must exist -/
def resolveScope (sheets : List (List Char)) (s : List Char) : Except DnErr (Option Nat) :=
  if s.isEmpty || s == workbookS then .ok none
  else match sheetIndex sheets s with
    | some i => .ok (some i)
    | none => .error .scope

def sameName (id : Option Nat) (name : List Char) (y : XDN) : Bool :=
  y.localSheetID == id && y.name == name

def setDN (st : DNState) (d : DN) : Except DnErr DNState :=
  if d.name.isEmpty || d.refersTo.isEmpty then .error .param
  else if !checkDefinedName d.name && !((Facts.C18.builtInDefinedNames.take 2).any fun b => eqFold b.toList d.name) then .error .name
  else match resolveScope st.sheets d.scope with
    | .error e => .error e
    | .ok id =>
      if st.names.any (fun y => y.localSheetID == id && eqFold y.name d.name) then .error .duplicate
      else .ok { st with names := st.names ++ [⟨d.name, d.refersTo, d.comment, id⟩] }

def delFirst (p : XDN → Bool) : List XDN → Option (List XDN)
  | [] => none
  | x :: xs => if p x then some xs else (delFirst p xs).map (x :: ·)

/-- scope string `DeleteDefinedName` / `GetDefinedName` compute for a stored name -/
def storedScopeGet (sheets : List (List Char)) (x : XDN) : List Char :=
  match x.localSheetID with
  | some i => sheetName sheets i
  | none => workbookS

def delDN (st : DNState) (name scope : List Char) : Except DnErr DNState :=
  match resolveScope st.sheets scope with
  | .error _ => .error .scope
  | .ok id =>
    match delFirst (sameName id name) st.names with
    | some l => .ok { st with names := l }
    | none => .error .scope

def getDN (st : DNState) : List DN :=
  st.names.map fun x => ⟨x.name, storedScopeGet st.sheets x, x.data, x.comment⟩

/-! ## setters that accept and ignore invalid values (sheetview.go setSheetView, sheet.go setPageSetUp) -/

/-- `view.View` after `SetSheetView` with `View = &new`: stored only if in the name list; the
call returns nil either way -/
def setView (old new : List Char) : List Char :=
  if Facts.C18.sheetViewNames.any (fun n => n.toList == new) then new else old

/-- `GetSheetView`: an empty stored view reads "normal" -/
def getView (v : List Char) : List Char := if v.isEmpty then "normal".toList else v

/-- `view.ZoomScale` after `SetSheetView` with an integral `ZoomScale = &new` -/
def setZoom (old new : Int) : Int :=
  if new ≥ (Facts.C18.zoomMin : Int) ∧ new ≤ (Facts.C18.zoomMax : Int) then new else old

/-- `GetSheetView`: a stored zoom outside the bounds reads 100 -/
def getZoom (z : Int) : Int :=
  if z ≥ (Facts.C18.zoomMin : Int) ∧ z ≤ (Facts.C18.zoomMax : Int) then z else 100

/-- `SetSheetView` with `View = &v`, integral `ZoomScale = &z`: both are validated against the
documented ranges first (an invalid one is an error and nothing is stored), then stored -/
def setSheetViewVZ (st : List Char × Int) (v : List Char) (z : Int) : Option (List Char × Int) :=
  if !(Facts.C18.sheetViewNames.any (fun n => n.toList == v)) then none
  else if z < (Facts.C18.zoomMin : Int) ∨ z > (Facts.C18.zoomMax : Int) then none
  else some (setView st.1 v, setZoom st.2 z)

/-- `PageSetUp.FirstPageNumber` (none = attribute absent) after `SetPageLayout` with `FirstPageNumber = &new` -/
def setFirstPage (_old : Option Nat) (new : Nat) : Option Nat := some new

/-- `GetPageLayout`: default 1 when the attribute is absent; a stored number reads back as it is -/
def getFirstPage : Option Nat → Nat
  | some n => n
  | none => 1

end XlModel.Settings
