/-
SHA-1 (FIPS 180-4) on byte lists — the concrete hash the C13 correspondence driver plugs into the
key-derivation model (`XlModel.Crypt.standardKey`, `agileKey`), which is parametric in the hash.
No theorem is about this file; it is compared with Go's crypto/sha1 through every `kds`/`kda`
transcript line. Core Lean only.
-/
namespace XlModel.Sha1

@[inline] def rotl (x : UInt32) (n : UInt32) : UInt32 := (x <<< n) ||| (x >>> (32 - n))

def padMsg (msg : Array UInt8) : Array UInt8 := Id.run do
  let bitLen : UInt64 := UInt64.ofNat (msg.size * 8)
  let mut m := msg.push 0x80
  while m.size % 64 != 56 do
    m := m.push 0
  for k in [0:8] do
    m := m.push (UInt8.ofNat ((bitLen >>> (UInt64.ofNat (8 * (7 - k)))).toNat % 256))
  return m

def block (h : Array UInt32) (m : Array UInt8) (off : Nat) : Array UInt32 := Id.run do
  let mut w : Array UInt32 := Array.mkEmpty 80
  for t in [0:16] do
    let b0 := (m[off + 4 * t]!).toUInt32
    let b1 := (m[off + 4 * t + 1]!).toUInt32
    let b2 := (m[off + 4 * t + 2]!).toUInt32
    let b3 := (m[off + 4 * t + 3]!).toUInt32
    w := w.push ((b0 <<< 24) ||| (b1 <<< 16) ||| (b2 <<< 8) ||| b3)
  for t in [16:80] do
    w := w.push (rotl (w[t - 3]! ^^^ w[t - 8]! ^^^ w[t - 14]! ^^^ w[t - 16]!) 1)
  let mut a := h[0]!
  let mut b := h[1]!
  let mut c := h[2]!
  let mut d := h[3]!
  let mut e := h[4]!
  for t in [0:80] do
    let (f, k) : UInt32 × UInt32 :=
      if t < 20 then ((b &&& c) ||| ((~~~ b) &&& d), 0x5A827999)
      else if t < 40 then (b ^^^ c ^^^ d, 0x6ED9EBA1)
      else if t < 60 then ((b &&& c) ||| (b &&& d) ||| (c &&& d), 0x8F1BBCDC)
      else (b ^^^ c ^^^ d, 0xCA62C1D6)
    let tmp := rotl a 5 + f + e + k + w[t]!
    e := d
    d := c
    c := rotl b 30
    b := a
    a := tmp
  return #[h[0]! + a, h[1]! + b, h[2]! + c, h[3]! + d, h[4]! + e]

def sha1 (bytes : List Nat) : List Nat := Id.run do
  let m := padMsg (bytes.map (fun n => UInt8.ofNat n)).toArray
  let mut h : Array UInt32 := #[0x67452301, 0xEFCDAB89, 0x98BADCFE, 0x10325476, 0xC3D2E1F0]
  for i in [0:m.size / 64] do
    h := block h m (64 * i)
  let mut out : List Nat := []
  for i in [0:5] do
    let x := h[4 - i]!
    out := (x >>> 24).toNat % 256 :: (x >>> 16).toNat % 256 :: (x >>> 8).toNat % 256 :: x.toNat % 256 :: out
  return out

end XlModel.Sha1
