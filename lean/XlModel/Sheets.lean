/-
Model of the sheet collection of a workbook (C16): sheet.go NewSheet,
DeleteSheet (+ deleteAndAdjustDefinedNames, deleteSheetFromWorkbookRels,
removeContentTypesPart), CopySheet/copySheet, MoveSheet, SetSheetName,
SetSheetVisible, SetActiveSheet, GetActiveSheetIndex/getActiveSheetID,
GetSheetIndex, GetSheetName, getSheetID, getSheetXMLPath, GroupSheets,
UngroupSheets, checkSheetName, SetDefinedName (scope resolution only),
setSheet, setWorkbook (workbook.go), addRels (excelize.go), and the part of
workSheetWriter that stores decoded worksheets into the package.

`Impl` (namespace `XlModel.Sheets`) transcribes the Go code on the internal
lists; `Spec` (namespace `XlModel.Sheets.Spec`) is the ordered-list model the
property speaks about.  Sheet names are Go strings = byte sequences, here
`List Char` with byte-valued characters (as in `XlModel.Ref`).

Modelling decisions
* `strings.EqualFold` is modelled by ASCII case folding on bytes: exact for
  names whose non-ASCII runes have no case (the generator only draws such).
* `utf8.RuneCountInString` counts non-continuation bytes: exact on valid UTF-8.
* Worksheet content is one number: the integer stored in cell A1 (0 = empty).
* Go maps (`File.sheetMap`) are association lists; iteration order is not
  observable when keys are case-insensitively unique (an invariant proved in
  Props/C16.lean); states in which the Go code would depend on map order or
  alias its own slice (DeleteSheet's removal inside `range`) are unreachable.
  Where such a state would make the transcription ambiguous the model returns
  the explicit outcome `Err.gap`, which `Props.C16.no_gap` proves unreachable.
* Whether a comparison folds case, the forbidden characters, the guards added
  by the repairs and the template workbook come from `Facts.C16`.
-/
import XlModel.Basic
import XlModel.Generated.Facts
import XlModel.Generated.FactsC16

namespace XlModel.Sheets
open XlModel

abbrev Name := List Char

inductive Err
  | blank | length | quote | invalid | exists | notExist | sheetIdx | group
  | dupDefName | param | panic | gap | defScope
  deriving DecidableEq, Repr

def Err.tag : Err → String
  | .blank => "E_BLANK" | .length => "E_LENGTH" | .quote => "E_QUOTE" | .invalid => "E_INVALID"
  | .exists => "E_EXISTS" | .notExist => "E_NOTEXIST" | .sheetIdx => "E_SHEETIDX"
  | .group => "E_GROUP" | .dupDefName => "E_DUPDEFNAME" | .param => "E_PARAM"
  | .panic => "PANIC" | .gap => "E_GAP" | .defScope => "E_DEFSCOPE"

/-! ## names -/

def lower (c : Char) : Char :=
  if 65 ≤ c.toNat ∧ c.toNat ≤ 90 then Char.ofNat (c.toNat + 32) else c

def fold (n : Name) : Name := n.map lower

/-- `strings.EqualFold` (ASCII part) -/
def eqFold (a b : Name) : Bool := fold a == fold b

/-- a name comparison as the Go function makes it: `useFold` comes from `Facts.C16` -/
def nameEq (useFold : Bool) (a b : Name) : Bool := if useFold then eqFold a b else a == b

def isCont (c : Char) : Bool := 128 ≤ c.toNat && c.toNat < 192

/-- `utf8.RuneCountInString` on valid UTF-8 -/
def runeCount (n : Name) : Nat := (n.filter fun c => !isCont c).length

def quoteChar : Char := '\''

/-- `checkSheetName` -/
def checkSheetName (n : Name) : Except Err Unit :=
  if n = [] then .error .blank
  else if runeCount n > Facts.MaxSheetNameLength then .error .length
  else if n.head? = some quoteChar ∨ n.getLast? = some quoteChar then .error .quote
  else if n.any (fun c => Facts.C16.forbiddenChars.contains c.toNat) then .error .invalid
  else .ok ()

def validName (n : Name) : Bool :=
  match checkSheetName n with
  | .ok _ => true
  | .error _ => false

/-! ## state -/

inductive Vis | visible | hidden | veryHidden
  deriving DecidableEq, Repr

structure Sheet where
  name : Name
  id : Nat
  rid : Nat
  state : Vis
  deriving DecidableEq, Repr

/-- a decoded worksheet: tabSelected of its first view, value of A1 -/
structure Part where
  sel : Bool
  content : Nat
  deriving DecidableEq, Repr

structure DefName where
  name : Nat
  loc : Option Nat
  /-- the refers-to text (`xlsxDefinedName.Data`), bytes -/
  data : Name
  deriving DecidableEq, Repr

structure Rel where
  rid : Nat
  /-- worksheet part number, 0 = relationship of another type -/
  part : Nat
  deriving DecidableEq, Repr

structure St where
  count : Nat
  activeTab : Nat
  sheets : List Sheet
  sheetMap : List (Name × Nat)
  parts : List (Nat × Part)
  pkg : List Nat
  ctypes : List Nat
  rels : List Rel
  defs : List DefName
  /-- `f.SharedStrings != nil` -/
  ssLoaded : Bool
  deriving DecidableEq, Repr

/-- `NewFile` -/
def init : St :=
  { count := Facts.C16.templateSheets.length
    activeTab := Facts.C16.templateActiveTab
    sheets := Facts.C16.templateSheets.map fun (n, i, r) => ⟨bytesOf n, i, r, .visible⟩
    sheetMap := Facts.C16.templateSheets.map fun (n, i, _) => (bytesOf n, i)
    parts := Facts.C16.templateSheets.map fun (_, i, _) => (i, ⟨Facts.C16.templateTabSelected, 0⟩)
    pkg := Facts.C16.templateSheets.map fun (_, i, _) => i
    ctypes := Facts.C16.templateSheets.map fun (_, i, _) => i
    rels := Facts.C16.templateRels.map fun (r, p) => ⟨r, p⟩
    defs := []
    ssLoaded := false }

/-! ## list helpers -/

def idxOf? {α} (p : α → Bool) : List α → Option Nat
  | [] => none
  | x :: xs => if p x then some 0 else (idxOf? p xs).map (· + 1)

def maxOf (l : List Nat) : Nat := l.foldr max 0

/-- Go `m[k] = v` on an association list -/
def mapSet (m : List (Name × Nat)) (k : Name) (v : Nat) : List (Name × Nat) :=
  if m.any (·.1 == k) then m.map (fun e => if e.1 == k then (k, v) else e) else m ++ [(k, v)]

def mapGetExact (m : List (Name × Nat)) (k : Name) : Option Nat :=
  (m.find? (·.1 == k)).map (·.2)

def mapErase (m : List (Name × Nat)) (k : Name) : List (Name × Nat) := m.filter (·.1 != k)

def partGet? (ps : List (Nat × Part)) (p : Nat) : Option Part :=
  (ps.find? (·.1 == p)).map (·.2)

/-- `f.Sheet.Store(path, ws)` -/
def partSet (ps : List (Nat × Part)) (p : Nat) (v : Part) : List (Nat × Part) :=
  if ps.any (·.1 == p) then ps.map (fun e => if e.1 == p then (p, v) else e) else ps ++ [(p, v)]

def partErase (ps : List (Nat × Part)) (p : Nat) : List (Nat × Part) := ps.filter (·.1 != p)

def insSorted (x : Nat) : List Nat → List Nat
  | [] => [x]
  | y :: ys => if x < y then x :: y :: ys else if x = y then y :: ys else y :: insSorted x ys

/-! ## getters -/

/-- `GetSheetIndex`; `none` is Go's -1 -/
def getSheetIndex (s : St) (n : Name) : Except Err (Option Nat) :=
  match checkSheetName n with
  | .error e => .error e
  | .ok _ => .ok (idxOf? (fun sh => nameEq Facts.C16.foldGetSheetIndex sh.name n) s.sheets)

/-- `GetSheetIndex` with the error dropped (`idx, _ := …`) -/
def sheetIndexD (s : St) (n : Name) : Option Nat :=
  match getSheetIndex s n with
  | .ok i => i
  | .error _ => none

/-- `GetSheetName`: "" for an index outside the list -/
def getSheetName (s : St) (i : Nat) : Name :=
  match s.sheets[i]? with
  | some sh => sh.name
  | none => []

/-- `getActiveSheetID` (bookViews is present in every workbook made by NewFile) -/
def getActiveSheetID (s : St) : Nat :=
  match s.sheets[s.activeTab]? with
  | some sh => if sh.id ≠ 0 then sh.id else
      match s.sheets with
      | f :: _ => f.id
      | [] => 0
  | none =>
      match s.sheets with
      | f :: _ => f.id
      | [] => 0

/-- `GetActiveSheetIndex` -/
def getActiveSheetIndex (s : St) : Nat :=
  match idxOf? (fun sh => sh.id == getActiveSheetID s) s.sheets with
  | some i => i
  | none => 0

/-- `getSheetXMLPath`: part number mapped to a sheet name -/
def getSheetXMLPath (s : St) (n : Name) : Option Nat :=
  (s.sheetMap.find? fun e => nameEq Facts.C16.foldGetSheetXMLPath e.1 n).map (·.2)

/-- `workSheetReader`: part number and decoded worksheet.  A mapped path with no
decoded worksheet and no package part is outside the model (`gap`). -/
def workSheetReader (s : St) (n : Name) : Except Err (Nat × Part) :=
  match checkSheetName n with
  | .error e => .error e
  | .ok _ =>
    match getSheetXMLPath s n with
    | none => .error .notExist
    | some p =>
      match partGet? s.parts p with
      | some w => .ok (p, w)
      | none => .error .gap

/-- `getSheetID` -/
def getSheetID (s : St) (n : Name) : Option Nat :=
  (s.sheets.find? fun sh => nameEq Facts.C16.foldGetSheetID sh.name n).map (·.id)

def isVisible (v : Vis) : Bool := v == .visible

/-! ## SetActiveSheet -/

def setSelLoop (index : Nat) : Nat → List Name → St → St
  | _, [], s => s
  | idx, n :: ns, s =>
    match workSheetReader s n with
    | .error _ => s
    | .ok (p, w) => setSelLoop index (idx + 1) ns { s with parts := partSet s.parts p { w with sel := index == idx } }

/-- `SetActiveSheet(index)`; a negative index has been clamped to 0 by the caller (`clampIdx`) -/
def setActiveSheet (s : St) (index : Nat) : St :=
  let s1 := if index < s.sheets.length then { s with activeTab := index } else s
  setSelLoop index 0 (s1.sheets.map (·.name)) s1

/-- Go's `if index < 0 { index = 0 }` applied to the -1 of a failed lookup -/
def clampIdx : Option Nat → Nat
  | some i => i
  | none => 0

/-! ## UngroupSheets / GroupSheets -/

def ungroupLoop (active : Nat) : Nat → List Name → St → Except Err St
  | _, [], s => .ok s
  | idx, n :: ns, s =>
    if active = idx then ungroupLoop active (idx + 1) ns s else
    match workSheetReader s n with
    | .error _ => .error .panic   -- `ws, _ :=` then `ws.SheetViews` on a nil pointer
    | .ok (p, w) => ungroupLoop active (idx + 1) ns { s with parts := partSet s.parts p { w with sel := false } }

/-- `UngroupSheets` -/
def ungroupSheets (s : St) : Except Err St :=
  ungroupLoop (getActiveSheetIndex s) 0 (s.sheets.map (·.name)) s

def groupRead (s : St) : List Name → Except Err (List Nat)
  | [] => .ok []
  | n :: ns =>
    match workSheetReader s n with
    | .error e => .error e
    | .ok (p, _) =>
      match groupRead s ns with
      | .error e => .error e
      | .ok ps => .ok (p :: ps)

/-- `GroupSheets` -/
def groupSheets (s : St) (names : List Name) : Except Err St :=
  let active := getActiveSheetIndex s
  let inActive := match s.sheets[active]? with
    | some sh => names.any fun n => nameEq Facts.C16.foldGroupSheets n sh.name
    | none => false
  if !inActive then .error .group else
  match groupRead s names with
  | .error e => .error e
  | .ok ps => .ok { s with parts := s.parts.map fun e => if ps.contains e.1 then (e.1, { e.2 with sel := true }) else e }

/-! ## NewSheet / DeleteSheet -/

/-- `deleteAndAdjustDefinedNames` -/
def deleteAndAdjustDefinedNames (defs : List DefName) (del : Nat) : List DefName :=
  if Facts.C16.deleteAdjustsDefinedNames then
    defs.filterMap fun d =>
      match d.loc with
      | none => some d
      | some l => if l = del then none else if l > del then some { d with loc := some (l - 1) } else some d
  else defs

/-- the cascade of `DeleteSheet` for the sheet found at `idx` -/
def deleteCascade (s : St) (idx : Nat) (v : Sheet) : St :=
  let sheetXML := match s.rels.find? (·.rid == v.rid) with
    | some r => r.part
    | none => 0
  let target := sheetXML   -- deleteSheetFromWorkbookRels returns the same relationship's target
  { s with
    sheets := s.sheets.eraseIdx idx
    rels := match idxOf? (fun r : Rel => r.rid == v.rid) s.rels with
      | some k => s.rels.eraseIdx k
      | none => s.rels
    ctypes := s.ctypes.erase target
    sheetMap := mapErase s.sheetMap v.name
    pkg := s.pkg.erase sheetXML
    parts := partErase s.parts sheetXML
    count := s.count - 1 }

/-- `DeleteSheet` -/
def deleteSheet (s : St) (n : Name) : Except Err St :=
  match checkSheetName n with
  | .error e => .error e
  | .ok _ =>
    match sheetIndexD s n with
    | none => .ok s
    | some _ =>
      if s.count = 1 then .ok s else
      if Facts.C16.deleteKeepsVisible &&
          !(s.sheets.any fun v => !nameEq Facts.C16.foldDeleteSheet v.name n && isVisible v.state) then .ok s else
      let activeName := getSheetName s (getActiveSheetIndex s)
      let s1 := match sheetIndexD s n with
        | some d => { s with defs := deleteAndAdjustDefinedNames s.defs d }
        | none => s
      -- `for idx, v := range wb.Sheets.Sheet { if EqualFold(v.Name, sheet) {…} }`: names are
      -- case-insensitively unique, the first match is the only one
      match idxOf? (fun v => nameEq Facts.C16.foldDeleteSheet v.name n) s1.sheets with
      | none => .error .gap
      | some idx =>
        match s1.sheets[idx]? with
        | none => .error .gap
        | some v =>
          let s2 := deleteCascade s1 idx v
          match getSheetIndex s2 activeName with
          | .error e => .error e   -- state discarded by the driver on error: see `Drv`
          | .ok i => .ok (setActiveSheet s2 (clampIdx i))

/-- the loop `for { if part sheet<id>.xml exists in Pkg or Sheet { id++ } else break }` of `NewSheet`:
at most `taken.length` ids can be occupied, so `fuel = taken.length + 1` iterations reach the exit -/
def skipTaken (taken : List Nat) : Nat → Nat → Nat
  | 0, id => id
  | fuel + 1, id => if taken.contains id then skipTaken taken fuel (id + 1) else id

/-- the sheet id (= part number) `NewSheet` allocates: max + 1, then past every existing part -/
def newSheetID (s : St) : Nat :=
  let first := maxOf (s.sheets.map (·.id)) + 1
  if Facts.C16.newSheetSkipsExistingParts then
    skipTaken (s.parts.map (·.1) ++ s.pkg) ((s.parts.map (·.1) ++ s.pkg).length + 1) first
  else first

/-- `NewSheet`; the result is the new state and the returned index (`none` = -1) -/
def newSheet (s : St) (n : Name) : Except Err (St × Option Nat) :=
  match getSheetIndex s n with
  | .error e => .error e
  | .ok (some i) => .ok (s, some i)
  | .ok none =>
    match deleteSheet s n with       -- `_ = f.DeleteSheet(sheet)`
    | .error _ => .error .gap
    | .ok s0 =>
      let sheetID := newSheetID s0
      let rID := maxOf (s0.rels.map (·.rid)) + 1
      let s1 : St := { s0 with
        count := s0.count + 1
        ctypes := s0.ctypes ++ [sheetID]
        sheetMap := mapSet s0.sheetMap n sheetID
        parts := partSet s0.parts sheetID ⟨false, 0⟩
        rels := s0.rels ++ [⟨rID, sheetID⟩]
        sheets := s0.sheets ++ [⟨n, sheetID, rID, .visible⟩] }
      match getSheetIndex s1 n with
      | .error e => .error e
      | .ok i => .ok (s1, i)

/-! ## MoveSheet -/

/-- the renumbering of `localSheetId` added to `MoveSheet` (`t` = final position) -/
def moveLoc (src t l : Nat) : Nat :=
  if l = src then t
  else if src < l ∧ l ≤ t then l - 1
  else if t ≤ l ∧ l < src then l + 1
  else l

/-- `MoveSheet` -/
def moveSheet (s : St) (source target : Name) : Except Err St :=
  if nameEq Facts.C16.foldMoveSheet source target then .ok s else
  match getSheetIndex s source with
  | .error e => .error e
  | .ok si =>
    match getSheetIndex s target with
    | .error e => .error e
    | .ok ti =>
      match si, ti with
      | none, _ => .error .notExist
      | _, none => .error .notExist
      | some si, some ti =>
        match ungroupSheets s with
        | .error e => .error e
        | .ok s1 =>
          let activeName := getSheetName s1 (getActiveSheetIndex s1)
          match s1.sheets[si]? with
          | none => .error .panic
          | some src =>
            let rest := s1.sheets.eraseIdx si
            let t := if ti > si then ti - 1 else ti
            let s2 : St := { s1 with
              sheets := rest.take t ++ src :: rest.drop t
              defs := if Facts.C16.moveRenumbersLocalSheetId then
                  s1.defs.map fun d => match d.loc with
                    | some l => { d with loc := some (moveLoc si t l) }
                    | none => d
                else s1.defs }
            .ok (setActiveSheet s2 (clampIdx (sheetIndexD s2 activeName)))

/-! ## CopySheet -/

/-- `CopySheet(from, to)` with Go `int` arguments.  `copySheet` reads the source worksheet, checks that
the target is a worksheet too, and stores the copy under the target's part path (`getSheetXMLPath`). -/
def copySheet (s : St) (frm to : Int) : Except Err St :=
  if frm < 0 ∨ to < 0 ∨ frm = to ∨ getSheetName s frm.toNat = [] ∨ getSheetName s to.toNat = [] then .error .sheetIdx else
  if !Facts.C16.copyTargetByPartPath then .error .gap else
  let fromSheet := getSheetName s frm.toNat
  match workSheetReader s fromSheet with
  | .error e => .error e
  | .ok (_, w) =>
    match workSheetReader s (getSheetName s to.toNat) with
    | .error e => .error e
    | .ok (p, _) => .ok { s with parts := partSet s.parts p { w with sel := false } }

/-! ## the refers-to text of defined names under SetSheetName (adjust.go adjustRangeSheetName) -/

/-- `strings.Split(s, sep)` for a one-byte separator: at least one piece, pieces never contain `c` -/
def splitOn (c : Char) : List Char → List (List Char)
  | [] => [[]]
  | x :: xs =>
    if x = c then [] :: splitOn c xs
    else match splitOn c xs with
      | h :: t => (x :: h) :: t
      | [] => [[x]]

/-- `strings.Join(parts, sep)` -/
def joinWith (c : Char) : List (List Char) → List Char
  | [] => []
  | [p] => p
  | p :: q :: r => p ++ c :: joinWith c (q :: r)

/-- `HasPrefix(part, "'") && HasSuffix(part, "'")` -/
def isQuoted (part : Name) : Bool := part.head? == some quoteChar && part.getLast? == some quoteChar

/-- `TrimPrefix(TrimSuffix(part, "'"), "'")` -/
def unquote (part : Name) : Name :=
  let p1 := if part.getLast? == some quoteChar then part.dropLast else part
  if p1.head? == some quoteChar then p1.drop 1 else p1

/-- one `!`-separated component: compared with `source` without its quotes, renamed when equal, and
(since the repair) quoted again exactly when it was quoted -/
def adjustPart (source target : Name) (part : Name) : Name :=
  let q := isQuoted part
  let inner := if q then unquote part else part
  let renamed := if inner == source then target else inner
  if q && (Facts.C16.renameKeepsQuotes || inner == source) then quoteChar :: renamed ++ [quoteChar] else renamed

/-- the three-level structure `adjustRangeSheetName` works on: `,` then `:` then `!` -/
def parseRef (data : Name) : List (List (List Name)) :=
  (splitOn ',' data).map fun cellRef => (splitOn ':' cellRef).map fun rangeRef => splitOn '!' rangeRef

def renderRef (t : List (List (List Name))) : Name :=
  joinWith ',' (t.map fun cellRef => joinWith ':' (cellRef.map fun rangeRef => joinWith '!' rangeRef))

/-- `adjustRangeSheetName(rng, source, target)` -/
def adjustRange (data source target : Name) : Name :=
  renderRef ((parseRef data).map fun cellRef => cellRef.map fun rangeRef => rangeRef.map (adjustPart source target))

/-- the loop over `wb.DefinedNames.DefinedName` at the end of `SetSheetName` -/
def adjustDefs (defs : List DefName) (source target : Name) : List DefName :=
  if Facts.C16.renameRewritesDefinedNames then
    defs.map fun d => { d with data := adjustRange d.data source target }
  else defs

/-! ## SetSheetName -/

/-- `SetSheetName` -/
def setSheetName (s : St) (source target : Name) : Except Err St :=
  match checkSheetName source with
  | .error e => .error e
  | .ok _ =>
    match checkSheetName target with
    | .error e => .error e
    | .ok _ =>
      if target = source then .ok s else
      if Facts.C16.renameClashCheck && !eqFold target source && (sheetIndexD s target).isSome then .error .exists else
      if !Facts.C16.renameSourceExact then .error .gap else
      if s.sheets.any (·.name == source) then
        match mapGetExact s.sheetMap source with
        | none => .error .gap
        | some p => .ok { s with
            sheets := s.sheets.map fun v => if v.name == source then { v with name := target } else v
            sheetMap := mapErase (mapSet s.sheetMap target p) source
            defs := adjustDefs s.defs source target }
      else .ok { s with defs := adjustDefs s.defs source target }

/-! ## SetSheetVisible -/

def visLoop (s : St) (target : Name) (st : Vis) (count : Nat) : List Sheet → List Sheet × Option Err
  | [] => ([], none)
  | v :: vs =>
    match workSheetReader s v.name with
    | .error e => (v :: vs, some e)
    | .ok (_, w) =>
      let v' := if nameEq Facts.C16.foldSetSheetVisible v.name target && decide (count > 1) && !w.sel
        then { v with state := st } else v
      let r := visLoop s target st count vs
      (v' :: r.1, r.2)

/-- the counting rule of `SetSheetVisible` -/
def visCount (s : St) (n : Name) (st : Vis) : Nat :=
  if Facts.C16.hideCountsVisibleOthers then
    1 + (s.sheets.filter fun v => !nameEq Facts.C16.foldSetSheetVisible v.name n && isVisible v.state).length
  else (s.sheets.filter fun v => v.state != st).length

/-- `SetSheetVisible(sheet, visible, veryHidden)`; on an error inside the loop the
sheets already updated stay updated (second component) -/
def setSheetVisible (s : St) (n : Name) (visible veryHidden : Bool) : St × Option Err :=
  match checkSheetName n with
  | .error e => (s, some e)
  | .ok _ =>
    if visible then
      ({ s with sheets := s.sheets.map fun v =>
          if nameEq Facts.C16.foldSetSheetVisible v.name n then { v with state := .visible } else v }, none)
    else
      let st := if veryHidden then Vis.veryHidden else Vis.hidden
      let r := visLoop s n st (visCount s n st) s.sheets
      ({ s with sheets := r.1 }, r.2)

/-! ## SetDefinedName (scope resolution), cell content, save -/

/-- `getDefinedNameScope`: "" and "Workbook" are the workbook scope, otherwise the sheet must exist -/
def getDefinedNameScope (s : St) (scope : Name) : Except Err (Option Nat) :=
  if scope = [] ∨ scope = bytesOf Facts.C16.workbookScopeName then .ok none else
  match getSheetIndex s scope with
  | .error e => .error e
  | .ok none => .error .notExist
  | .ok (some i) => .ok (some i)

/-- `SetDefinedName{Name: "dn_<name>", RefersTo: const, Scope: scope}`: the scope is resolved once to a
local sheet id, a name already present in that scope (names compared case-insensitively; the
transcript's names `dn_<k>` differ in more than case) is a duplicate -/
def setDefinedName (s : St) (name : Nat) (scope : Name) (data : Name) : Except Err St :=
  if data = [] then .error .param else      -- `definedName.RefersTo == ""`
  if !Facts.C16.definedNameScopeResolved then .error .gap else
  match getDefinedNameScope s scope with
  | .error e => .error e
  | .ok loc =>
    if s.defs.any (fun d => d.loc == loc && d.name == name) then .error .dupDefName
    else .ok { s with defs := s.defs ++ [⟨name, loc, data⟩] }

/-- `DeleteDefinedName{Name: "dn_<name>", Scope: scope}`: the first name with that (exact) name in the
resolved scope is removed; an unresolvable scope or no such name is `ErrDefinedNameScope` -/
def deleteDefinedName (s : St) (name : Nat) (scope : Name) : Except Err St :=
  if !Facts.C16.deleteDefinedNameByScope then .error .gap else
  match getDefinedNameScope s scope with
  | .error _ => .error .defScope
  | .ok loc =>
    match idxOf? (fun d : DefName => d.loc == loc && d.name == name) s.defs with
    | none => .error .defScope
    | some i => .ok { s with defs := s.defs.eraseIdx i }

/-- `SetCellInt(sheet, "A1", v)` -/
def setCell (s : St) (n : Name) (v : Nat) : Except Err St :=
  match workSheetReader s n with
  | .error e => .error e
  | .ok (p, w) => .ok { s with parts := partSet s.parts p { w with content := v } }

/-- `WriteToBuffer`: every decoded worksheet is stored into the package -/
def save (s : St) : St := { s with pkg := (s.parts.map (·.1)).foldr insSorted s.pkg }

/-- `WriteToBuffer` followed by `OpenReader` on the written bytes, the history continuing on the opened
workbook: every worksheet is a package part, the sheet list with its ids and rIds, the relationships,
content types, defined names, active tab and tab selection are read back as written (ids may have gaps
and any order), `sheetMap` is rebuilt from the relationships, worksheets are decoded on demand. -/
def reopen (s : St) : St := save s

/-- What an observer does after a call: `GetCellValue(sheet, "A1")` for every listed sheet.  The first
read of a stored cell loads the shared strings (`sharedStringsReader`) and registers their
relationship in workbook.xml.rels, which shifts the rIds of sheets created later. -/
def observe (s : St) : St :=
  if !s.ssLoaded && (s.sheets.any fun sh =>
      match workSheetReader s sh.name with
      | .ok (_, w) => w.content != 0
      | .error _ => false)
  then { s with ssLoaded := true, rels := s.rels ++ [⟨maxOf (s.rels.map (·.rid)) + 1, 0⟩] }
  else s

/-! ## operations as data -/

inductive Op
  | new (n : Name) | delete (n : Name) | copy (frm to : Int) | move (src tgt : Name)
  | rename (src tgt : Name) | visible (n : Name) (v vh : Bool) | active (i : Int)
  | group (ns : List Name) | ungroup | defname (k : Nat) (scope : Name) (data : Name) | deldef (k : Nat) (scope : Name)
  | setcell (n : Name) (v : Nat)
  | save | observe | reopen
  deriving Repr

/-- one API call: new state (the old one when the call is rejected) and whether it returned an error -/
def step (s : St) : Op → St × Option Err
  | .new n => match newSheet s n with
    | .ok (s', _) => (s', none)
    | .error e => (s, some e)
  | .delete n => match deleteSheet s n with
    | .ok s' => (s', none)
    | .error e => (s, some e)
  | .copy f t => match copySheet s f t with
    | .ok s' => (s', none)
    | .error e => (s, some e)
  | .move a b => match moveSheet s a b with
    | .ok s' => (s', none)
    | .error e => (s, some e)
  | .rename a b => match setSheetName s a b with
    | .ok s' => (s', none)
    | .error e => (s, some e)
  | .visible n v vh => setSheetVisible s n v vh
  | .active i => (setActiveSheet s (if i < 0 then 0 else i.toNat), none)
  | .group ns => match groupSheets s ns with
    | .ok s' => (s', none)
    | .error e => (s, some e)
  | .ungroup => match ungroupSheets s with
    | .ok s' => (s', none)
    | .error e => (s, some e)
  | .defname k sc dt => match setDefinedName s k sc dt with
    | .ok s' => (s', none)
    | .error e => (s, some e)
  | .deldef k sc => match deleteDefinedName s k sc with
    | .ok s' => (s', none)
    | .error e => (s, some e)
  | .setcell n v => match setCell s n v with
    | .ok s' => (s', none)
    | .error e => (s, some e)
  | .save => (save s, none)
  | .observe => (observe s, none)
  | .reopen => (reopen s, none)

def run (s : St) (ops : List Op) : St := ops.foldl (fun s o => (step s o).1) s

/-! ## Spec: the ordered list the property speaks about -/

namespace Spec

structure Entry where
  name : Name
  visible : Bool
  content : Nat
  selected : Bool
  deriving DecidableEq, Repr

structure Book where
  sheets : List Entry
  active : Nat
  deriving DecidableEq, Repr

def init : Book := ⟨[⟨bytesOf "Sheet1", true, 0, true⟩], 0⟩

def find (b : Book) (n : Name) : Option Nat := idxOf? (fun e => eqFold e.name n) b.sheets

/-- index of the sheet that was active before, 0 when it is gone -/
def follow (old : Book) (sheets : List Entry) : Nat :=
  match old.sheets[old.active]? with
  | some a => match idxOf? (fun e => eqFold e.name a.name) sheets with
    | some i => i
    | none => 0
  | none => 0

/-- only the sheet at position `i` is selected (`k` = position of the head) -/
def selFrom (i : Nat) : Nat → List Entry → List Entry
  | _, [] => []
  | k, e :: es => { e with selected := i == k } :: selFrom i (k + 1) es

def selectOnly (sheets : List Entry) (i : Nat) : List Entry := selFrom i 0 sheets

/-- every sheet but the one at position `a` is deselected -/
def unselFrom (a : Nat) : Nat → List Entry → List Entry
  | _, [] => []
  | k, e :: es => (if a = k then e else { e with selected := false }) :: unselFrom a (k + 1) es

def otherVisible (b : Book) (n : Name) : Bool :=
  b.sheets.any fun e => !eqFold e.name n && e.visible

/-- the list operations; `none` = the call is rejected with an error (book unchanged) -/
def new (b : Book) (n : Name) : Option (Book × Nat) :=
  if !validName n then none else
  match find b n with
  | some i => some (b, i)
  | none => some ({ b with sheets := b.sheets ++ [⟨n, true, 0, false⟩] }, b.sheets.length)

def delete (b : Book) (n : Name) : Option Book :=
  if !validName n then none else
  match find b n with
  | none => some b
  | some i =>
    if b.sheets.length = 1 || !otherVisible b n then some b else
    let rest := b.sheets.eraseIdx i
    let a := follow b rest
    some ⟨selectOnly rest a, a⟩

def copy (b : Book) (frm to : Int) : Option Book :=
  if frm < 0 ∨ to < 0 ∨ frm = to then none else
  match b.sheets[frm.toNat]?, b.sheets[to.toNat]? with
  | some f, some _ => some { b with sheets := b.sheets.modify to.toNat fun t => { t with content := f.content, selected := false } }
  | _, _ => none

def move (b : Book) (src tgt : Name) : Option Book :=
  if eqFold src tgt then some b else
  if !validName src || !validName tgt then none else
  match find b src, find b tgt with
  | some si, some ti =>
    match b.sheets[si]? with
    | none => none
    | some e =>
      let rest := b.sheets.eraseIdx si
      let t := if ti > si then ti - 1 else ti
      let sheets := rest.take t ++ e :: rest.drop t
      let a := follow b sheets
      some ⟨selectOnly sheets a, a⟩
  | _, _ => none

def rename (b : Book) (src tgt : Name) : Option Book :=
  if !validName src || !validName tgt then none else
  if tgt = src then some b else
  if !eqFold tgt src && (find b tgt).isSome then none else
  some { b with sheets := b.sheets.map fun e => if e.name == src then { e with name := tgt } else e }

def setVisible (b : Book) (n : Name) (v : Bool) : Option Book :=
  if !validName n then none else
  if v then some { b with sheets := b.sheets.map fun e => if eqFold e.name n then { e with visible := true } else e }
  else
    let ov := otherVisible b n
    some { b with sheets := b.sheets.map fun e =>
      if (eqFold e.name n && ov && !e.selected) then { e with visible := false } else e }

def setActive (b : Book) (i : Int) : Book :=
  let k := if i < 0 then 0 else i.toNat
  ⟨selectOnly b.sheets k, if k < b.sheets.length then k else b.active⟩

def group (b : Book) (ns : List Name) : Option Book :=
  match b.sheets[b.active]? with
  | none => none
  | some a =>
    if !(ns.any fun n => eqFold n a.name) then none else
    if !(ns.all fun n => validName n && (find b n).isSome) then none else
    some { b with sheets := b.sheets.map fun e => if ns.any (fun n => eqFold n e.name) then { e with selected := true } else e }

def ungroup (b : Book) : Book :=
  { b with sheets := unselFrom b.active 0 b.sheets }

def setCell (b : Book) (n : Name) (v : Nat) : Option Book :=
  if !validName n then none else
  match find b n with
  | none => none
  | some i => some { b with sheets := b.sheets.modify i fun e => { e with content := v } }

/-- one call on the list model (defined names and saving do not touch the list) -/
def step (b : Book) : Op → Book × Bool
  | .new n => match new b n with
    | some (b', _) => (b', true)
    | none => (b, false)
  | .delete n => match delete b n with
    | some b' => (b', true)
    | none => (b, false)
  | .copy f t => match copy b f t with
    | some b' => (b', true)
    | none => (b, false)
  | .move a c => match move b a c with
    | some b' => (b', true)
    | none => (b, false)
  | .rename a c => match rename b a c with
    | some b' => (b', true)
    | none => (b, false)
  | .visible n v _ => match setVisible b n v with
    | some b' => (b', true)
    | none => (b, false)
  | .active i => (setActive b i, true)
  | .group ns => match group b ns with
    | some b' => (b', true)
    | none => (b, false)
  | .ungroup => (ungroup b, true)
  | .defname _ _ _ => (b, true)
  | .deldef _ _ => (b, true)
  | .setcell n v => match setCell b n v with
    | some b' => (b', true)
    | none => (b, false)
  | .save => (b, true)
  | .observe => (b, true)
  | .reopen => (b, true)

end Spec

end XlModel.Sheets
