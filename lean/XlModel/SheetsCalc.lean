import XlModel.Sheets
/-!
C16, calculation chain: transcription of `deleteCalcChain` (calcchain.go) as `DeleteSheet` calls it
(`f.deleteCalcChain(v.SheetID, "")`).  Core Lean only (linked into the driver).

An entry of `xl/calcChain.xml` is `<c r=… i=…/>`: cell reference and sheet id (`i` omitted decodes to 0).
`Filter` keeps the entries for which the predicate is true, in order; when nothing is left the Go code
sets `f.CalcChain = nil` and drops the part (the driver prints `nil`).
-/
namespace XlModel.Sheets

structure CalcC where
  r : Name
  i : Nat
  deriving DecidableEq, Repr

/-- `deleteCalcChain(index, cell)`: the filter predicate is copied from the Go source -/
def deleteCalcChain (cs : List CalcC) (index : Nat) (cell : Name) : List CalcC :=
  cs.filter fun c =>
    !((c.i == index && c.r == cell) || (c.i == index && cell == []) || (c.i == 0 && c.r == cell))

/-- the calcChain effect of `copySheet(from, to)`:
`_ = f.deleteCalcChain(f.getSheetID(f.GetSheetName(to)), "")` (Go's -1 for an unknown name matches no entry) -/
def copySheetCalc (s : St) (to : Nat) (cs : List CalcC) : List CalcC :=
  match getSheetID s (getSheetName s to) with
  | some id => deleteCalcChain cs id []
  | none => cs

end XlModel.Sheets
