/-
C12 — the shared-string table as an object across the two tiers.

`Impl` (namespace `XlModel.Sst`): the *decoded* content of xl/sharedStrings.xml wherever its bytes
are (memory `Pkg` or temp file), `File.SharedStrings` (nil / decoded table, incl. the empty
placeholder decoded while the part is spilled), the shared-string index temp file
(`sharedStringTemp` + `sharedStringItem`), `File.sharedStringsMap`, and the functions
  rows.go  sharedStringsReader, getFromStringItem
  cell.go  getValueFrom (case "s"), sharedStringsLoader, setSharedString, GetCellRichText (loader-then-reader)
  styles.go sharedStringsWriter / file.go writeToZip (loader before writer)
`Spec`: a plain list of items; no tiers, no table object, no index file.
Strings are opaque tokens (hex text on the transcript).  Core Lean only.
-/
import XlModel.Store

namespace XlModel.Sst
open XlModel XlModel.Store

/-- one `<si>`: `key` = `T.Val` for a plain item (what sharedStringsMap is keyed by), `text` = `xlsxSI.String()` -/
structure Item where
  key : Option String
  text : String
deriving DecidableEq, Repr

abbrev Tab := List Item

structure St where
  part : Tab                               -- decode(bytes of xl/sharedStrings.xml), wherever they are
  spilled : Bool                           -- tempFiles has the part
  inPkg : Bool                             -- Pkg has the bytes of the part
  table : Option Tab := none               -- File.SharedStrings
  index : Option (List String) := none     -- sharedStringTemp + sharedStringItem (flattened texts)
  map : List (String × Nat) := []          -- File.sharedStringsMap
deriving Repr

/-- `f.sharedStringsMap[SI[i].T.Val] = i` for a plain item -/
def stepItem (m : List (String × Nat)) (i : Nat) (it : Item) : List (String × Nat) :=
  match it.key with
  | some k => AMap.store m k i
  | none => m

/-- the loop of sharedStringsReader that fills sharedStringsMap (it is never cleared) -/
def mapFold : List (String × Nat) → Nat → Tab → List (String × Nat)
  | m, _, [] => m
  | m, i, it :: r => mapFold (stepItem m i it) (i + 1) r

/-- what sharedStringsReader decodes: `readXML` sees the memory tier only -/
def rdTab (st : St) : Tab := if st.inPkg then st.part else []

/-- rows.go sharedStringsReader: decodes `readXML` (memory tier only: empty while the part is only spilled) -/
def sstRead (st : St) : St :=
  match st.table with
  | some _ => st
  | none => { st with table := some (rdTab st), map := mapFold st.map 0 (rdTab st) }

/-- text for an index that is out of range (`strconv.Itoa(index)` resp. the raw `<v>`) -/
def fallback (i : Nat) : String := toString i

/-- the flattened index: the open one, else built from the temp file of the part -/
def idxOf (st : St) : List String :=
  match st.index with
  | some x => x
  | none => st.part.map (·.text)

/-- cell.go getValueFrom case "s" after sharedStringsReader: through the index temp file when the part
is spilled (rows.go getFromStringItem builds it on first use), else through File.SharedStrings -/
def getStr (st : St) (i : Nat) : St × String :=
  if st.spilled then
    ({ st with index := some (idxOf st) }, ((idxOf st)[i]?).getD (fallback i))
  else
    (st, match st.table with
      | some t => (t[i]?.map (·.text)).getD (fallback i)
      | none => fallback i)

/-- cell.go sharedStringsLoader: promote the spilled part (Pkg now has it, SharedStrings reset), drop the index file -/
def sstLoad (st : St) : St :=
  let st1 := if st.spilled then { st with spilled := false, inPkg := true, table := none } else st
  { st1 with index := none }

/-- `sst.SI = append(sst.SI, xlsxSI{T: &t}); f.sharedStringsMap[t.Val] = len - 1` -/
def appendSt (s : St) (t : Tab) (key text : String) : St :=
  { s with table := some (t ++ [⟨some key, text⟩]), map := AMap.store s.map key t.length }

/-- cell.go setSharedString: loader, reader, look up sharedStringsMap, else append -/
def setStr (st : St) (key text : String) : St × Nat :=
  let s := sstRead (sstLoad st)
  match AMap.load s.map key with
  | some i => (s, i)
  | none =>
    match s.table with
    | some t => (appendSt s t key text, t.length)
    | none => (s, 0)

/-- file.go writeToZip: sharedStringsLoader, then sharedStringsWriter re-marshals File.SharedStrings when
it is not nil (`decode (marshal t) = t`) -/
def savedSt (s : St) (t : Tab) : St := { s with part := t, inPkg := true }

def save (st : St) : St :=
  let s := sstLoad st
  match s.table with
  | some t => savedSt s t
  | none => s

inductive Op where
  | read                          -- sharedStringsReader alone (any cell read)
  | get (i : Nat)                 -- GetCellValue / Rows.Columns / Cols.Rows of a shared-string cell
  | load                          -- sharedStringsLoader (GetCellRichText, SetCellRichText prelude)
  | set (key text : String)       -- SetCellStr / SetCellValue(string)
  | save
deriving Repr

inductive Out where
  | none
  | str (s : String)
  | idx (i : Nat)
deriving DecidableEq, Repr

def step (st : St) : Op → St × Out
  | .read => (sstRead st, .none)
  | .get i => let r := getStr (sstRead st) i; (r.1, .str r.2)
  | .load => (sstRead (sstLoad st), .none)
  | .set k t => let r := setStr st k t; (r.1, .idx r.2)
  | .save => (save st, .none)

def run (st : St) : List Op → St × List Out
  | [] => (st, [])
  | op :: r => ((run (step st op).1 r).1, (step st op).2 :: (run (step st op).1 r).2)

/-- the table a reader sees -/
def abs (st : St) : Tab := if st.spilled then st.part else st.table.getD st.part

namespace Spec

/-- index of the last plain item with that raw text -/
def find (strs : Tab) (key : String) : Option Nat := AMap.load (mapFold [] 0 strs) key

def step (strs : Tab) : Op → Tab × Out
  | .read => (strs, .none)
  | .get i => (strs, .str ((strs[i]?.map (·.text)).getD (fallback i)))
  | .load => (strs, .none)
  | .set k t =>
    match find strs k with
    | some i => (strs, .idx i)
    | none => (strs ++ [⟨some k, t⟩], .idx strs.length)
  | .save => (strs, .none)

def run (strs : Tab) : List Op → Tab × List Out
  | [] => (strs, [])
  | op :: r => ((run (step strs op).1 r).1, (step strs op).2 :: (run (step strs op).1 r).2)

end Spec

end XlModel.Sst
