/-
C12 — the two-tier part store of an opened workbook.

`Impl` side (this file, namespace `XlModel.Store`): a transcription of
  lib.go      ReadZipReader, unzipToTemp, readXML, readBytes, readTemp, saveFileList, readFile
  excelize.go checkOpenReaderOptions, OpenReader (error path), workSheetReader (store part)
  rows.go     Rows() (flush + xmlDecoder), getFromStringItem (index temp file), sharedStringsReader (flag)
  cell.go     sharedStringsLoader, setSharedString (store part)
  file.go     Close, writeToZip (writer order, Pkg branch, temp branch)
over the regenerated facts `XlModel.Facts.C12`.  File contents are opaque
`Blob`s (digest + length): XML decoding/encoding, archive/zip and the OS are
parameters.  The disk is an explicit map file-id -> content; every
create/remove is a step of the model.

`Spec` side (namespace `XlModel.Store.Spec`): a plain map part-name -> bytes
that never mentions a limit, a temp file or the disk.

Core Lean only (linked into the driver).
-/
import XlModel.Basic
import XlModel.Generated.FactsC12

namespace XlModel.Store
open XlModel

/-- opaque file content: a digest and the byte length (`len(content)` is all the code inspects) -/
structure Blob where
  tag : String
  len : Nat
deriving DecidableEq, Repr, Inhabited

/-! ## association maps (sync.Map / Go map / directory), keys unique by construction of `store` -/

abbrev AMap (κ : Type) (α : Type) := List (κ × α)

namespace AMap
variable {κ α : Type} [DecidableEq κ]

def load : AMap κ α → κ → Option α
  | [], _ => none
  | (k, v) :: m, n => if k = n then some v else load m n

def erase : AMap κ α → κ → AMap κ α
  | [], _ => []
  | (k, v) :: m, n => if k = n then erase m n else (k, v) :: erase m n

def store (m : AMap κ α) (n : κ) (v : α) : AMap κ α := (n, v) :: erase m n

def has (m : AMap κ α) (n : κ) : Bool := (load m n).isSome

def keys (m : AMap κ α) : List κ := m.map (·.1)

def vals (m : AMap κ α) : List α := m.map (·.2)

end AMap

abbrev Map (α : Type) := AMap String α
abbrev Disk := AMap Nat Blob

/-! ## names -/

def lowerAscii (s : String) : String :=
  String.ofList (s.toList.map fun c => if 'A' ≤ c ∧ c ≤ 'Z' then Char.ofNat (c.toNat + 32) else c)

def replaceBackslash (s : String) : String :=
  String.ofList (s.toList.map fun c => if c = '\\' then '/' else c)

/-- `fileName` as computed at the top of the loop body of ReadZipReader (ASCII names) -/
def normName (raw : String) : String :=
  let n := if Facts.C12.normBackslash then replaceBackslash raw else raw
  match AMap.load Facts.C12.docPart (lowerAscii n) with
  | some p => p
  | none => n

/-- `strings.EqualFold(fileName, defaultXMLPathSharedStrings)` on ASCII names -/
def isSST (n : String) : Bool := lowerAscii n = lowerAscii Facts.C12.sstPath

/-- `strings.HasPrefix(strings.ToLower(fileName), "xl/worksheets/sheet")` -/
def isSheet (n : String) : Bool := Facts.C12.sheetPrefix.toList.isPrefixOf (lowerAscii n).toList

/-- a comparison operator as it is written in the source -/
def cmpOp (op : String) (a b : Int) : Bool :=
  if op = ">" then decide (a > b)
  else if op = ">=" then decide (a ≥ b)
  else if op = "<" then decide (a < b)
  else if op = "<=" then decide (a ≤ b)
  else if op = "==" then decide (a = b)
  else if op = "!=" then decide (a ≠ b)
  else false

/-! ## options -/

structure Limits where
  xml : Int    -- Options.UnzipXMLSizeLimit
  size : Int   -- Options.UnzipSizeLimit
deriving DecidableEq, Repr

/-- excelize.go checkOpenReaderOptions (the limit part): defaulting, then the order check -/
def checkOptions (l : Limits) : Option Limits :=
  let size1 := if l.size = 0 then
      (if l.xml > (Facts.C12.defaultUnzipSizeLimit : Int) then l.xml else (Facts.C12.defaultUnzipSizeLimit : Int))
    else l.size
  let xml1 := if l.xml = 0 then
      (if size1 < (Facts.C12.defaultUnzipXMLSizeLimit : Int) then size1 else (Facts.C12.defaultUnzipXMLSizeLimit : Int))
    else l.xml
  if xml1 > size1 then none else some ⟨xml1, size1⟩

/-! ## zip entries -/

inductive IoErr where
  | none      -- entry inflates cleanly
  | copy      -- all bytes are delivered, then the zip reader reports an error (CRC mismatch)
  | «open»    -- `zip.File.Open` fails (unsupported method): nothing is delivered
deriving DecidableEq, Repr

structure Entry where
  name : String       -- raw entry name
  declared : Int      -- v.FileInfo().Size(): the *declared* uncompressed size
  isDir : Bool
  io : IoErr
  content : Blob      -- what io.Copy delivers from the entry
deriving Repr

/-! ## state -/

structure St where
  pkg : Map Blob := []              -- File.Pkg
  temp : Map Nat := []              -- File.tempFiles : part name -> temp file (id)
  disk : Disk := []                 -- files existing in os.TempDir() created for this workbook
  next : Nat := 0                   -- fresh file id
  sstTemp : Option Nat := none      -- File.sharedStringTemp
  loaded : List String := []        -- keys of File.Sheet (decoded worksheets)
  sstLoaded : Bool := false         -- File.SharedStrings != nil
  dirty : Bool := false             -- a string was appended to File.SharedStrings
  inflated : List String := []      -- event log: entries inflated (newest first)
deriving Repr

def emptyBlob : Blob := ⟨"", 0⟩

/-- lib.go unzipToTemp (os.CreateTemp assumed to succeed): creates a file, copies the entry.
Returns the new state, the file id, and whether an error is returned along with the path
(`Open` failure: the file stays empty; CRC failure: all bytes were copied). -/
def unzipToTemp (st : St) (e : Entry) : St × Nat × Bool :=
  let id := st.next
  let body := match e.io with | .open => emptyBlob | _ => e.content
  let infl := match e.io with | .open => st.inflated | _ => e.name :: st.inflated
  ({ st with disk := st.disk.store id body, next := id + 1, inflated := infl }, id,
    match e.io with | .none => false | _ => true)

/-- `tempFile, err := f.unzipToTemp(v); f.tempFiles.Store(fileName, tempFile); if err == nil { continue }` -/
def spillOne (st : St) (fileName : String) (e : Entry) : St × Bool :=
  let r := unzipToTemp st e
  ({ r.1 with temp := r.1.temp.store fileName r.2.1 }, !r.2.2)

inductive ZRes where
  | ok (st : St) (worksheets : Nat)
  | sizeErr (st : St)     -- newUnzipSizeLimitError
  | readErr (st : St)     -- readFile failed
  | panic (st : St)       -- make([]byte, 0, negative)
deriving Repr

def ZRes.st : ZRes → St
  | .ok s _ => s | .sizeErr s => s | .readErr s => s | .panic s => s

/-- lib.go readFile + `fileList[fileName] = …` -/
def readFileInto (st : St) (fileName : String) (e : Entry) : Option St ⊕ Unit :=
  match e.io with
  | .open => .inl none
  | _ =>
    if e.declared < 0 then .inr ()
    else .inl (some { st with pkg := st.pkg.store fileName e.content, inflated := e.name :: st.inflated })

def sstGuard (l : Limits) (fileName : String) (e : Entry) : Bool :=
  isSST fileName && cmpOp Facts.C12.sstGuardOp e.declared l.xml && (!Facts.C12.sstGuardExcludesDir || !e.isDir)

def sheetGuard (l : Limits) (e : Entry) : Bool :=
  cmpOp Facts.C12.sheetGuardOp e.declared l.xml && (!Facts.C12.sheetGuardExcludesDir || !e.isDir)

/-- the worksheet `if` of the loop body -/
def sheetStep (l : Limits) (st : St) (fileName : String) (e : Entry) : St × Bool :=
  if isSheet fileName then (if sheetGuard l e then spillOne st fileName e else (st, false)) else (st, false)

/-- the two spill `if`s of the loop body of ReadZipReader; the flag is `continue` -/
def spillStep (l : Limits) (st : St) (fileName : String) (e : Entry) : St × Bool :=
  if sstGuard l fileName e then
    let r := spillOne st fileName e
    if r.2 then r else sheetStep l r.1 fileName e
  else sheetStep l st fileName e

/-- an entry replaces any earlier entry of the same name: the earlier temp file is removed and
its tempFiles / fileList entries are deleted -/
def dropPart (st : St) (n : String) : St :=
  match st.temp.load n with
  | some id => { st with temp := st.temp.erase n, disk := st.disk.erase id, pkg := st.pkg.erase n }
  | none => { st with pkg := st.pkg.erase n }

/-- the size guard of ReadZipReader, `fileSize < 0 || unzipSize < 0 || unzipSize > limit` after
`unzipSize += fileSize`.  `declared` is `FileInfo().Size()` (negative when the entry declares
2^63 bytes or more); the running total is kept as an exact integer: for int64-valued sizes and
limits the wrapped test `unzipSize < 0 || unzipSize > limit` coincides with the exact
`total > limit` (lemma `guard_wrap_exact`). -/
def sizeGuard (l : Limits) (total : Int) (e : Entry) : Bool :=
  (Facts.C12.sizeGuardRejectsNegative && decide (e.declared < 0)) ||
    cmpOp Facts.C12.sizeGuardOp (total + e.declared) l.size

/-- lib.go ReadZipReader: fold over the entries with the running declared total -/
def readZip (l : Limits) : St → Int → Nat → List Entry → ZRes
  | st, _, ws, [] => .ok st ws
  | st, total, ws, e :: rest =>
    let total' := total + e.declared
    if sizeGuard l total e then .sizeErr st else
    let fileName := normName e.name
    let ws' := if isSheet fileName then ws + 1 else ws
    let st0 := if Facts.C12.dupReplaces then dropPart st fileName else st
    let r := spillStep l st0 fileName e
    if r.2 then readZip l r.1 total' ws' rest else
    match readFileInto r.1 fileName e with
    | .inl none => .readErr r.1
    | .inr () => .panic r.1
    | .inl (some st2) => readZip l st2 total' ws' rest

/-! ## Close -/

/-- file.go Close: `tempFiles.Range(os.Remove)`, stopping at the first error -/
def closeLoop : List (String × Nat) → Disk → Disk × Bool
  | [], d => (d, false)
  | (_, id) :: r, d =>
    if d.has id then closeLoop r (d.erase id)
    else if Facts.C12.closeStopsAtFirstError then (d, true) else
      let (d', _) := closeLoop r d
      (d', true)

/-- file.go Close: returns the state and whether an error was returned -/
def close (st : St) : St × Bool :=
  if Facts.C12.closeRemovesTemp then
    let (d, err) := closeLoop st.temp st.disk
    ({ st with disk := d, sstTemp := none }, err)
  else ({ st with sstTemp := none }, false)

/-! ## OpenReader -/

inductive OpenRes where
  | ok (st : St)
  | optErr                 -- ErrOptionsUnzipSizeLimit, before anything is read
  | err (disk : Disk)      -- (nil, err): the File is dropped; `disk` is what stays behind
  | panic (disk : Disk)
deriving Repr

/-- excelize.go OpenReader, store part.  On a ReadZipReader error the File is not
returned; whether its temp files are removed first is a regenerated fact. -/
def openReader (l0 : Limits) (es : List Entry) : OpenRes :=
  match checkOptions l0 with
  | none => .optErr
  | some l =>
    match readZip l {} 0 0 es with
    | .ok st _ => .ok st
    | .panic st => .panic st.disk
    | .sizeErr st => .err (if Facts.C12.openErrCleanup then (close st).1.disk else st.disk)
    | .readErr st => .err (if Facts.C12.openErrCleanup then (close st).1.disk else st.disk)

/-! ## reads -/

/-- lib.go readXML (streams not modelled): `content != nil` — an absent part reads as empty -/
def readXML (st : St) (n : String) : Blob := (st.pkg.load n).getD emptyBlob

/-- lib.go readTemp + io.ReadAll: `none` when the part is not spilled or the file is gone -/
def readTemp (st : St) (n : String) : Option Blob :=
  match st.temp.load n with
  | none => none
  | some id => st.disk.load id

/-- lib.go readBytes: memory tier if non-empty; else readTemp.  readTemp returns `(nil, nil)`
for a part that is not spilled, so `io.ReadAll(nil)` yields an empty slice which is stored
into Pkg (reading a missing part creates it, empty); for a spilled part the file content is
promoted into Pkg; when the file cannot be opened nothing is stored. -/
def readBytes (st : St) (n : String) : St × Blob :=
  let c := readXML st n
  if c.len ≠ 0 then (st, c) else
  match st.temp.load n with
  | none => if Facts.C12.readBytesPromotes then ({ st with pkg := st.pkg.store n c }, c) else (st, c)
  | some id =>
    match st.disk.load id with
    | none => (st, c)
    | some b => if Facts.C12.readBytesPromotes then ({ st with pkg := st.pkg.store n b }, b) else (st, b)

/-- rows.go xmlDecoder: memory tier if non-empty, else a reader on the temp file (no promotion) -/
def stream (st : St) (n : String) : Blob :=
  let c := readXML st n
  if c.len ≠ 0 then c else (readTemp st n).getD c

/-- second half of sharedStringsLoader: drop the shared-string index file -/
def sstLoad2 (st : St) : St :=
  match st.sstTemp with
  | some id => { st with temp := st.temp.erase Facts.C12.sstTempKey, disk := st.disk.erase id, sstTemp := none }
  | none => st

/-- cell.go sharedStringsLoader: promote the spilled shared strings part into Pkg, delete its
tempFiles entry, remove the file (an error returns early), reset File.SharedStrings; then
drop the index file -/
def sstLoad (st : St) : St :=
  match st.temp.load Facts.C12.sstPath with
  | some id =>
    let (s, b) := readBytes st Facts.C12.sstPath
    let s := { s with pkg := s.pkg.store Facts.C12.sstPath b, temp := s.temp.erase Facts.C12.sstPath }
    if s.disk.has id then sstLoad2 { s with disk := s.disk.erase id, sstLoaded := false }
    else s
  | none => sstLoad2 st

/-- rows.go getFromStringItem, called only when tempFiles has the shared strings part:
first use creates the flattened index file -/
def sstItem (st : St) (flat : Blob) : St :=
  if st.temp.has Facts.C12.sstPath then
    match st.sstTemp with
    | some _ => st
    | none =>
      let id := st.next
      { st with disk := st.disk.store id flat, next := id + 1,
                temp := st.temp.store Facts.C12.sstTempKey id, sstTemp := some id }
  else st

/-! ## operations after open -/

inductive Op where
  | readBytes (n : String)                       -- any reader going through readBytes
  | wsRead (n : String)                          -- workSheetReader: readBytes + File.Sheet.Store
  | flush (n : String) (ser : Blob)              -- Rows()/SearchSheet prelude: re-marshal a decoded sheet into Pkg
  | stream (n : String)                          -- xmlDecoder: streaming read
  | sstRead                                      -- sharedStringsReader
  | sstItem (flat : Blob)                        -- getFromStringItem
  | sstLoad                                      -- sharedStringsLoader
  | sstSet                                       -- setSharedString / SetCellRichText: loader, reader, append
  | save (wsSer : Map Blob) (sstSer : Blob) (others : Map Blob)   -- writeToZip
  | forget (n rels : String)                     -- DeleteSheet: Pkg.Delete(sheetXML), Pkg.Delete(rels), Sheet.Delete
deriving Repr

/-- what an operation returns to its caller -/
inductive Out where
  | none
  | blob (b : Blob)
  | zip (parts : List (String × Blob))
deriving DecidableEq, Repr

def storeAll (m : Map Blob) : List (String × Blob) → Map Blob
  | [] => m
  | (n, b) :: r => storeAll (m.store n b) r

/-- sheet.go workSheetWriter (store part): every decoded sheet is marshalled into Pkg and dropped from File.Sheet -/
def wsWrite (pkg : Map Blob) (wsSer : Map Blob) : List String → Map Blob
  | [] => pkg
  | n :: r => wsWrite (pkg.store n ((wsSer.load n).getD ⟨"unserialised", 1⟩)) wsSer r

/-- one writer call of writeToZip, by its name in the regenerated call order -/
def saveCall (wsSer : Map Blob) (sstSer : Blob) (st : St) (call : String) : St :=
  if call = "workSheetWriter" then { st with pkg := wsWrite st.pkg wsSer st.loaded, loaded := [] }
  else if call = "sharedStringsLoader" then sstLoad st
  else if call = "sharedStringsWriter" then
    (if st.sstLoaded then { st with pkg := st.pkg.store Facts.C12.sstPath sstSer } else st)
  else st

def insertDesc (x : String × Blob) : List (String × Blob) → List (String × Blob)
  | [] => [x]
  | y :: r => if y.1 < x.1 then x :: y :: r else y :: insertDesc x r

/-- `sort.Sort(sort.Reverse(sort.StringSlice(names)))` -/
def sortDesc (l : List (String × Blob)) : List (String × Blob) := l.foldr insertDesc []

/-- the temp branch of writeToZip: parts that are only in tempFiles, written through readBytes -/
def zipTemp : St → List String → St × List (String × Blob)
  | st, [] => (st, [])
  | st, n :: r =>
    let (s1, b) := if Facts.C12.zipTempBranchViaReadBytes then readBytes st n else (st, (readTemp st n).getD emptyBlob)
    let (s2, l) := zipTemp s1 r
    (s2, (n, b) :: l)

/-- file.go writeToZip (streams not modelled) -/
def save (st : St) (wsSer : Map Blob) (sstSer : Blob) (others : Map Blob) : St × List (String × Blob) :=
  -- writers of the other cached parts: each stores its own part
  let st0 := { st with pkg := storeAll st.pkg others }
  let st1 := Facts.C12.saveOrder.foldl (saveCall wsSer sstSer) st0
  let files := sortDesc st1.pkg
  let tnames := (sortDesc ((st1.temp.filter fun p => !(st1.pkg.has p.1)).map fun p => (p.1, emptyBlob))).map (·.1)
  let (st2, tparts) := zipTemp st1 tnames
  (st2, files ++ tparts)

def insertNew (n : String) (l : List String) : List String := if n ∈ l then l else n :: l

/-- sheet.go DeleteSheet, store part: the worksheet and its rels part are deleted from Pkg and the
decoded sheet is dropped.  Whether the tempFiles entry of a spilled worksheet is deleted, and whether
its file is removed with it, are regenerated facts (the current code does neither). -/
def forget (st : St) (n rels : String) : St :=
  let st1 := { st with pkg := (st.pkg.erase n).erase rels, loaded := st.loaded.filter (fun x => x != n) }
  if Facts.C12.deleteSheetDropsTemp then
    match st1.temp.load n with
    | some id =>
      if Facts.C12.deleteSheetRemovesFile then { st1 with temp := st1.temp.erase n, disk := st1.disk.erase id }
      else { st1 with temp := st1.temp.erase n }
    | none => st1
  else st1

def step (st : St) : Op → St × Out
  | .readBytes n => let (s, b) := readBytes st n; (s, .blob b)
  | .wsRead n => let (s, b) := readBytes st n; ({ s with loaded := insertNew n s.loaded }, .blob b)
  | .flush n ser => (if n ∈ st.loaded then { st with pkg := st.pkg.store n ser } else st, .none)
  | .stream n => (st, .blob (stream st n))
  | .sstRead => ({ st with sstLoaded := true }, .none)
  | .sstItem flat => (sstItem st flat, .none)
  | .sstLoad => (sstLoad st, .none)
  | .sstSet => ({ sstLoad st with sstLoaded := true, dirty := true }, .none)
  | .save w s o => let (s', z) := save st w s o; (s', .zip z)
  | .forget n rels => (forget st n rels, .none)

def run (st : St) : List Op → St × List Out
  | [] => (st, [])
  | op :: r =>
    let (s1, o) := step st op
    let (s2, os) := run s1 r
    (s2, o :: os)

/-- the bytes `readBytes` would deliver for a part, `none` if the part does not exist at all.
The key of the shared-string index file is not a part name. -/
def absAt (st : St) (n : String) : Option Blob :=
  match st.pkg.load n with
  | some b => if b.len ≠ 0 then some b else some ((readTemp st n).getD b)
  | none => readTemp st n

/-! ## Spec: a plain map, no limits, no temp files -/

namespace Spec

structure S where
  m : Map Blob := []
  loaded : List String := []
  sstLoaded : Bool := false
  dirty : Bool := false
deriving Repr

/-- the parts of a package: entry name ↦ content, later entries win -/
def parts : List Entry → Map Blob → Map Blob
  | [], m => m
  | e :: r, m => parts r (m.store (normName e.name) e.content)

def get (s : S) (n : String) : Blob := (s.m.load n).getD emptyBlob

/-- reading a part that does not exist creates it, empty (limit-independent quirk of readBytes) -/
def touch (s : S) (n : String) : S :=
  if (s.m.load n).isNone then { s with m := s.m.store n emptyBlob } else s

def wsWrite (m : Map Blob) (wsSer : Map Blob) : List String → Map Blob
  | [] => m
  | n :: r => wsWrite (m.store n ((wsSer.load n).getD ⟨"unserialised", 1⟩)) wsSer r

def step (s : S) : Op → S × Out
  | .readBytes n => (touch s n, .blob (get s n))
  | .wsRead n => ({ touch s n with loaded := insertNew n s.loaded }, .blob (get s n))
  | .flush n ser => (if n ∈ s.loaded then { s with m := s.m.store n ser } else s, .none)
  | .stream n => (s, .blob (get s n))
  | .sstRead => ({ s with sstLoaded := true }, .none)
  | .sstItem _ => (s, .none)
  | .sstLoad => (s, .none)
  | .sstSet => ({ s with sstLoaded := true, dirty := true }, .none)
  | .save w sst o =>
    let m0 := storeAll s.m o
    let m1 := wsWrite m0 w s.loaded
    let m2 := if s.sstLoaded then m1.store Facts.C12.sstPath sst else m1
    ({ s with m := m2, loaded := [] }, .zip m2)
  | .forget n rels => ({ s with m := (s.m.erase n).erase rels, loaded := s.loaded.filter (fun x => x != n) }, .none)

def run (s : S) : List Op → S × List Out
  | [] => (s, [])
  | op :: r =>
    let (s1, o) := step s op
    let (s2, os) := run s1 r
    (s2, o :: os)

end Spec

end XlModel.Store
