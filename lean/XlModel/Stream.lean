/-
Model of the stream writer of stream.go (property C11).

`Impl` part — a transcription of
  * `bufferedWriter` (`Write`/`WriteString`, `Sync`, `Flush`, `Reader`): a pair
    `(tmp, buf)`; the observable content is `abs = tmp ++ buf`;
  * `StreamWriter.SetRow` (order guard, row options, roll-back of a rejected
    row, `writeSheetData` once, per-cell reference / style / value / formula,
    `writeCell`), `RowOpts.marshalAttrs`, `setCellFormula`, `setCellValFunc`
    (int, bool, float/duration as already formatted text, string, rich text,
    nil), `xlsxC.setCellValue / setInlineStr / setStr`, `trimCellValue`,
    `prepareCellStyle` (row style, then the style of the cell's own column);
  * `MergeCell`, `SetColWidth`, `SetColStyle`, `SetPanes` (ordering guards and
    limit checks), `writeSheetData`, `Flush`.

External code is a parameter: what reflection + `encoding/xml` render for the
worksheet fields before and after `sheetData` (`pre`, `Epilog`), the marshalled
rich-text runs, `strconv.FormatFloat` results and `bstrMarshal` come with the
operation; `xml.EscapeText` and `bstrMarshal` are transcribed for valid UTF-8 input
(the theorems keep `bstrMarshal`/`bstrUnmarshal` as the parameter `Ext`).

Byte strings are `List Char` with byte-valued characters (as in `XlModel.Ref`).

One deliberate re-association: `setInlineStr` escapes the text
(`trimCellValue(v, true)`) and `writeCell` writes it raw; the model keeps the
trimmed text in the cell record and escapes in `writeCell`. The bytes written
are the same (this is what the transcript compares); the cell record then
carries the value a reader gets back, given the XML escaping law.

`Spec` part — what the in-memory API stores for the same rows
(`SetSheetRow`/`SetCellValue`, `SetCellFormula`, `SetCellStyle`,
`SetRowStyle`, `SetColStyle`): a partial map position → observation.
-/
import XlModel.Ref
import XlModel.Generated.FactsC11

namespace XlModel.Stream
open XlModel XlModel.Ref

abbrev Bytes := List Char

/-- an ASCII literal as bytes -/
def lit (s : String) : Bytes := s.toList

/-! ## bufferedWriter -/

structure BW where
  tmp : Option Bytes   -- content of the temporary file, `none` = no file in use
  buf : Bytes          -- in-memory buffer
  deriving DecidableEq, Repr

/-- run-time configuration the result must not depend on: the spill threshold
(`StreamChunkSize` in the code) and whether a temporary file can be created. -/
structure Cfg where
  chunk : Nat
  tmpOK : Bool
  deriving DecidableEq, Repr

/-- the configuration of the code: threshold from the regenerated facts -/
def Cfg.code : Cfg := { chunk := Facts.StreamChunkSize, tmpOK := true }

/-- everything written so far, in order: temp-file content followed by the buffer -/
def BW.abs (w : BW) : Bytes :=
  match w.tmp with
  | none => w.buf
  | some t => t ++ w.buf

/-- `Write` / `WriteString` -/
def BW.write (w : BW) (s : Bytes) : BW := { w with buf := w.buf ++ s }

/-- `Flush`: move the buffer to the temp file if one is in use -/
def BW.flush (w : BW) : BW :=
  match w.tmp with
  | none => w
  | some t => { tmp := some (t ++ w.buf), buf := [] }

/-- `Sync`: spill once the buffer has reached the threshold -/
def BW.sync (cfg : Cfg) (w : BW) : BW :=
  if w.buf.length < cfg.chunk then w
  else match w.tmp with
    | none => if cfg.tmpOK then BW.flush { w with tmp := some [] } else w
    | some _ => BW.flush w

/-- `Reader`: flushes when a temp file is in use; yields `abs` -/
def BW.reader (w : BW) : BW × Bytes := (w.flush, w.abs)

/-- the same machine on sizes only (used for the large-volume transcript) -/
structure BWn where
  tmp : Option Nat
  buf : Nat
  deriving DecidableEq, Repr

def BWn.write (w : BWn) (n : Nat) : BWn := { w with buf := w.buf + n }
def BWn.flush (w : BWn) : BWn :=
  match w.tmp with
  | none => w
  | some t => { tmp := some (t + w.buf), buf := 0 }
def BWn.sync (cfg : Cfg) (w : BWn) : BWn :=
  if w.buf < cfg.chunk then w
  else match w.tmp with
    | none => if cfg.tmpOK then BWn.flush { w with tmp := some 0 } else w
    | some _ => BWn.flush w
def BW.sizes (w : BW) : BWn := { tmp := w.tmp.map List.length, buf := w.buf.length }

/-! ## text helpers -/

/-- `xml.EscapeText` on valid UTF-8 without U+FFFE/U+FFFF: the eight escapes,
other C0 controls become U+FFFD, everything else is copied -/
def escByte (c : Char) : Bytes :=
  let n := c.toNat
  if n = 34 then lit "&#34;" else if n = 39 then lit "&#39;" else if n = 38 then lit "&amp;"
  else if n = 60 then lit "&lt;" else if n = 62 then lit "&gt;" else if n = 9 then lit "&#x9;"
  else if n = 10 then lit "&#xA;" else if n = 13 then lit "&#xD;"
  else if n < 32 then [Char.ofNat 239, Char.ofNat 191, Char.ofNat 189]
  else [c]

def escapeText (s : Bytes) : Bytes := s.flatMap escByte

/-- `strings.ReplaceAll(s, "&#xA;", "\n")` -/
def replaceNL : Bytes → Bytes
  | [] => []
  | c :: rest =>
    if c = '&' ∧ rest.take 4 = ['#', 'x', 'A', ';'] then Char.ofNat 10 :: replaceNL (rest.drop 4)
    else c :: replaceNL rest
termination_by s => s.length
decreasing_by all_goals simp_wf <;> omega

def isCont (c : Char) : Bool := 128 ≤ c.toNat && c.toNat < 192

/-- `utf8.RuneCountInString` on valid UTF-8 -/
def runeCount (s : Bytes) : Nat := (s.filter (fun c => !isCont c)).length

/-- the first `k` runes of valid UTF-8 -/
def takeRunes : Nat → Bytes → Bytes
  | _, [] => []
  | k, c :: cs =>
    if isCont c then c :: takeRunes k cs
    else match k with
      | 0 => []
      | k + 1 => c :: takeRunes k cs

def isWs (c : Char) : Bool := c.toNat = 9 || c.toNat = 10 || c.toNat = 13 || c.toNat = 32

/-- the length cut of `trimCellValue` -/
def cutCell (value : Bytes) : Bytes :=
  if runeCount value > Facts.TotalCellChars then takeRunes Facts.TotalCellChars value else value

/-- the `xml:space="preserve"` test of `trimCellValue` (on the cut value) -/
def needSpace (value : Bytes) : Bool :=
  match value, value.getLast? with
  | first :: _, some last => isWs first || isWs last
  | _, _ => false

/-- external text functions: `bstrMarshal`, `bstrUnmarshal` (the theorems are parametric in them;
the driver runs with the transcription `bstrMarshal` below) -/
structure Ext where
  bstr : Bytes → Bytes
  unbstr : Bytes → Bytes

def isHexC (c : Char) : Bool :=
  let n := c.toNat
  (48 ≤ n && n ≤ 57) || (65 ≤ n && n ≤ 70) || (97 ≤ n && n ≤ 102)

def hexUp (n : Nat) : Char := if n < 10 then Char.ofNat (48 + n) else Char.ofNat (55 + n)

/-- `bstrIllegalChar` at the head of valid UTF-8: width and code of a character outside XML 1.0
(C0 controls other than TAB/LF/CR, U+FFFE, U+FFFF) -/
def illegalHead : Bytes → Option (Nat × Nat)
  | [] => none
  | c :: rest =>
    let n := c.toNat
    if n < 32 && n != 9 && n != 10 && n != 13 then some (1, n)
    else if n = 239 then
      match rest with
      | b :: d :: _ =>
        if b.toNat = 191 && d.toNat = 190 then some (3, 65534)
        else if b.toNat = 191 && d.toNat = 191 then some (3, 65535)
        else none
      | _ => none
    else none

/-- `bstrEscapeAhead` on what follows an underscore: `xHHHH` and then `_` or an escaped character -/
def escapeAhead : Bytes → Bool
  | x :: a :: b :: c :: d :: r :: rest =>
    x = 'x' && isHexC a && isHexC b && isHexC c && isHexC d && (r = '_' || (illegalHead (r :: rest)).isSome)
  | _ => false

/-- `bstrMarshal` (lib.go) on valid UTF-8; invalid bytes are copied -/
def bstrMarshal : Bytes → Bytes
  | [] => []
  | c :: rest =>
    if c = '_' && escapeAhead rest then lit "_x005F_" ++ bstrMarshal rest
    else match illegalHead (c :: rest) with
      | some (w, code) =>
        ['_', 'x', hexUp (code / 4096 % 16), hexUp (code / 256 % 16), hexUp (code / 16 % 16), hexUp (code % 16), '_']
          ++ bstrMarshal (rest.drop (w - 1))
      | none => c :: bstrMarshal rest
termination_by s => s.length
decreasing_by all_goals simp_wf <;> omega

/-- what `trimCellValue(value, true)` returns as text, given the cut value: marshal first, then
escape the result for XML (order after `fix: inline strings keep characters not permitted in XML 1.0`) -/
def inlineText (x : Ext) (cut : Bytes) : Bytes :=
  match x.bstr cut with
  | [] => []
  | v => replaceNL (escapeText v)

/-! ## cells -/

/-- a value handed to `SetRow` -/
inductive Val
  | nil
  | int (i : Int)          -- every Go integer type
  | bool (b : Bool)
  | num (text : Bytes)     -- finite float32/float64/time.Duration, text = strconv.FormatFloat result
  | str (s : Bytes)        -- string / []byte
  | rich (xml : Bytes)     -- []RichTextRun accepted by setRichText; xml = marshalled runs ([] when there are none)
  | richErr                -- []RichTextRun rejected by setRichText (too long)
  /-- `time.Time`: `isNum` = the serial number is positive (`timeToExcelTime`, C19's model), `text` = its
  `FormatFloat` text, or the RFC 3339 text when it is not; `nf` = the id `NewStyle(&Style{NumFmt: 22})` returns on
  this workbook (fresh or existing — the style registry is C17's), `nfMem` = the id of the default date style the
  in-memory `SetCellValue` picks for this value (`getTimeNumFmt`: 14, 17 or 22) -/
  | time (isNum : Bool) (text : Bytes) (nf nfMem : Int)
  /-- `time.Duration`: `text` = `FormatFloat(seconds/86400, 'f', -1, 32)` (`setCellDuration`); the stream writer assigns no
  style, `nfMem` = the id of the default duration style the in-memory `SetCellValue` adds (`getDurationNumFmt`: 20, 21 or 46) -/
  | dur (text : Bytes) (nfMem : Int)
  deriving DecidableEq, Repr

/-- one element of the `values` slice -/
inductive Item
  | skip                                              -- untyped nil: no cell is written
  | plain (v : Val)                                   -- a bare value
  | cell (style : Int) (formula : Bytes) (v : Val)    -- excelize.Cell{StyleID, Formula, Value}
  deriving DecidableEq, Repr

/-- inline string part of `xlsxC` -/
inductive IS
  | none
  | text (val : Bytes) (space : Bool)   -- `<is><t>`: value *before* escaping (see file header)
  | runs (xml : Bytes)                  -- `<is>` + marshalled runs
  deriving DecidableEq, Repr

/-- the fields of `xlsxC` the stream writer uses -/
structure XC where
  r : Bytes
  s : Int
  t : Bytes
  v : Bytes
  f : Option Bytes
  is : IS
  space : Bool
  deriving DecidableEq, Repr

inductive E
  | ref (e : Ref.Err) | order | height | outline | richText
  | colOrder | colNumber | colWidth | style | panes
  deriving DecidableEq, Repr

def E.tag : E → String
  | .ref e => e.tag | .order => "E_ORDER" | .height => "E_HEIGHT" | .outline => "E_OUTLINE"
  | .richText => "E_RICHTEXT" | .colOrder => "E_COLORDER" | .colNumber => "E_COLNUMBER"
  | .colWidth => "E_COLWIDTH" | .style => "E_STYLE" | .panes => "E_PANES"

/-- `setCellFormula` -/
def setCellFormula (c : XC) (formula : Bytes) : XC :=
  if formula ≠ [] then { c with t := lit "str", f := some formula } else c

/-- `setCellValFunc` (with `setCellValue`, `setInlineStr`, `setStr`, `setCellInt`,
`setCellBool`, `setCellFloat` for finite values) -/
def setCellVal (x : Ext) (c : XC) : Val → Except E XC
  | .nil => .ok c
  | .int i => .ok { c with t := [], v := itoaInt i }
  | .bool b => .ok { c with t := lit "b", v := if b then lit "1" else lit "0" }
  | .num text => .ok { c with t := [], v := text, is := .none }
  | .str s =>
    let cut := cutCell s
    if c.f.isSome then
      .ok { c with t := lit "str", is := .none, v := x.bstr cut, space := needSpace cut }
    else
      .ok { c with t := lit "inlineStr", v := [], is := .text cut (needSpace cut) }
  | .rich xml => .ok { c with t := lit "inlineStr", is := .runs xml }
  | .richErr => .error .richText
  | .dur text _ => .ok { c with t := [], v := text }
  | .time isNum text nf _ =>
    -- `setCellTime`: `setCellDefault` of the serial number, default date-time format when the cell has no style;
    -- a time that is not a positive serial is stored as its RFC 3339 text (inline string, written raw: the text has
    -- no character that escaping or bstrMarshal would change)
    if isNum then .ok { c with t := [], v := text, s := if c.s = 0 then nf else c.s }
    else .ok { c with t := lit "inlineStr", v := [], is := .text text (needSpace text) }

def spaceAttr (b : Bool) : Bytes := if b then lit " xml:space=\"preserve\"" else []

/-- `writeCell` -/
def writeCell (x : Ext) (c : XC) : Bytes :=
  lit "<c" ++ spaceAttr c.space ++ lit " r=\"" ++ c.r ++ lit "\""
  ++ (if c.s ≠ 0 then lit " s=\"" ++ itoaInt c.s ++ lit "\"" else [])
  ++ (if c.t ≠ [] then lit " t=\"" ++ c.t ++ lit "\"" else [])
  ++ lit ">"
  ++ (match c.f with
      | some f => lit "<f>" ++ escapeText f ++ lit "</f>"
      | none => [])
  ++ (if c.v ≠ [] then lit "<v>" ++ escapeText c.v ++ lit "</v>" else [])
  ++ (match c.is with
      | .none => []
      | .runs xml => lit "<is>" ++ xml ++ lit "</is>"
      | .text val sp => lit "<is><t" ++ spaceAttr sp ++ lit ">" ++ inlineText x val ++ lit "</t></is>")
  ++ lit "</c>"

/-! ## rows -/

/-- `RowOpts`; the height is given in quarter points (the harness only uses
multiples of 0.25, whose `FormatFloat(…, 'f', -1, 64)` text is exact) -/
structure RowOpts where
  style : Int
  h4 : Int
  outline : Int
  hidden : Bool
  deriving DecidableEq, Repr

def RowOpts.zero : RowOpts := { style := 0, h4 := 0, outline := 0, hidden := false }

/-- `strconv.FormatFloat(q/4, 'f', -1, 64)` for a natural number of quarters -/
def fmtQuarter (q : Nat) : Bytes :=
  itoa (q / 4) ++ (if q % 4 = 0 then [] else if q % 4 = 1 then lit ".25" else if q % 4 = 2 then lit ".5" else lit ".75")

/-- `RowOpts.marshalAttrs` -/
def marshalAttrs (o : RowOpts) : Except E Bytes :=
  if o.h4 > 4 * (Facts.MaxRowHeight : Int) then .error .height
  else if o.outline > (Facts.C11.MaxOutlineLevel : Int) then .error .outline
  else .ok (
    (if o.style > 0 then lit " s=\"" ++ itoaInt o.style ++ lit "\" customFormat=\"1\"" else [])
    ++ (if o.h4 > 0 then lit " ht=\"" ++ fmtQuarter o.h4.toNat ++ lit "\" customHeight=\"1\"" else [])
    ++ (if o.outline > 0 then lit " outlineLevel=\"" ++ itoaInt o.outline ++ lit "\"" else [])
    ++ (if o.hidden then lit " hidden=\"1\"" else []))

/-- the fields of `xlsxCol` the stream writer can set (`BestFit`, `Collapsed`, `Hidden`, `OutlineLevel`, `Phonetic`
stay zero on a worksheet the stream writer fills); the width is its `FormatFloat(…, 'f', -1, 64)` text -/
structure Col where
  min : Int
  max : Int
  width : Option Bytes
  custom : Bool
  style : Int
  deriving DecidableEq, Repr

/-- `ws.Cols.Col` (`[]` = `ws.Cols == nil`: the column functions never leave an empty list behind) -/
abbrev ColStyles := List Col

def Col.covers (e : Col) (c : Int) : Bool := e.min ≤ c && c ≤ e.max
def Col.isSingle (e : Col) (i : Int) : Bool := e.min == i && e.max == i
def Col.single (e : Col) (i : Int) : Col := { e with min := i, max := i }

/-- `for i := a; i <= b; i++` -/
def rangeInt (a b : Int) : List Int := (List.range (b + 1 - a).toNat).map (fun (k : Nat) => a + (k : Int))

/-- `fc[idx] = replacer(fc[idx], column)` at the first `idx` with `Min == Max == i` (`inFlat`), if there is one -/
def updFirst (p : Col → Bool) (f : Col → Col) : List Col → Option (List Col)
  | [] => none
  | x :: xs => if p x then some (f x :: xs) else (updFirst p f xs).map (x :: ·)

/-- one iteration of the inner loop of `flatCols` -/
def flatStep (repl : Col → Col → Col) (fc : List Col) (p : Int × Col) : List Col :=
  match updFirst (fun e => e.isSingle p.1) (fun e => repl e p.2) fc with
  | some fc' => fc'
  | none => fc ++ [p.2.single p.1]

/-- `flatCols(col, cols, replacer)` (col.go) -/
def flatCols (col : Col) (cols : List Col) (repl : Col → Col → Col) : List Col :=
  (cols.flatMap fun column => (rangeInt column.min column.max).map fun i => (i, column)).foldl (flatStep repl)
    ((rangeInt col.min col.max).map col.single)

/-- the replacer of `setColWidth`: the new width, the old style -/
def replWidth (fc c : Col) : Col := { fc with style := c.style }
/-- the replacer of `setColStyle`: the new style, the old width -/
def replStyle (fc c : Col) : Col := { fc with custom := c.custom, width := c.width }

/-- `ws.setColWidth(min, max, width)` -/
def wsSetColWidth (cols : List Col) (lo hi : Int) (w : Bytes) : List Col :=
  let col : Col := { min := lo, max := hi, width := some w, custom := true, style := 0 }
  match cols with
  | [] => [col]
  | _ => flatCols col cols replWidth

/-- `ws.setColStyle(min, max, style)`; the width of a column without one is the default column width -/
def wsSetColStyle (cols : List Col) (lo hi st : Int) : List Col :=
  flatCols { min := lo, max := hi, width := some (lit Facts.C11.defaultColWidth), custom := false, style := st } cols replStyle

/-- the `<cols>` element `writeSheetData` writes by hand -/
def renderCol (e : Col) : Bytes :=
  lit "<col min=\"" ++ itoaInt e.min ++ lit "\" max=\"" ++ itoaInt e.max ++ lit "\""
  ++ (match e.width with | some w => lit " width=\"" ++ w ++ lit "\" customWidth=\"1\"" | none => [])
  ++ (if e.style ≠ 0 then lit " style=\"" ++ itoaInt e.style ++ lit "\"" else [])
  ++ lit "/>"

def renderCols (cols : List Col) : Bytes :=
  match cols with
  | [] => []
  | _ => lit "<cols>" ++ cols.flatMap renderCol ++ lit "</cols>"

/-- everything `writeSheetData` writes: fields 4..5 (external `sv`), the columns, the `sheetData` start tag -/
def preData (sv : Bytes) (cols : List Col) : Bytes := sv ++ renderCols cols ++ lit "<sheetData>"

/-- the column part of `prepareCellStyle`: the style of the first column entry that covers `col` and has a style -/
def colStyleAt (cs : ColStyles) (col : Int) : Int :=
  match cs.find? (fun e => e.covers col && e.style != 0) with
  | some e => e.style
  | none => 0

/-- `prepareCellStyle(col, row, style)` on a worksheet without stored rows -/
def prepareCellStyle (cs : ColStyles) (col : Int) (style : Int) : Int :=
  if style ≠ 0 then style else colStyleAt cs col

/-- the cell record `SetRow` builds for one non-nil element -/
def mkCell (x : Ext) (cs : ColStyles) (rowStyle : Int) (ref : Bytes) (col : Int) (it : Item) : Except E XC :=
  let c0 : XC := { r := ref, s := prepareCellStyle cs col rowStyle, t := [], v := [], f := none, is := .none, space := false }
  match it with
  | .skip => .ok c0
  | .plain v => setCellVal x c0 v
  | .cell style formula v =>
    let c1 := setCellFormula c0 formula
    let c2 := if style > 0 then { c1 with s := style } else c1
    setCellVal x c2 v

def Item.isSkip : Item → Bool
  | .skip => true
  | .plain .nil => true
  | _ => false

/-- the loop of `SetRow` over `values`, starting at column `col` -/
def rowCells (x : Ext) (cs : ColStyles) (rowStyle : Int) (row : Int) : Int → List Item → Except E (List XC)
  | _, [] => .ok []
  | col, it :: rest =>
    if it.isSkip then rowCells x cs rowStyle row (col + 1) rest
    else match coordinatesToCellName col row false with
      | .error e => .error (.ref e)
      | .ok ref =>
        match mkCell x cs rowStyle ref col it with
        | .error e => .error e
        | .ok c =>
          match rowCells x cs rowStyle row (col + 1) rest with
          | .error e => .error e
          | .ok cells => .ok (c :: cells)

/-- an accepted row as it was written -/
structure RowRec where
  row : Int
  attrs : Bytes
  cells : List XC
  deriving DecidableEq, Repr

def renderRow (x : Ext) (r : RowRec) : Bytes :=
  lit "<row r=\"" ++ itoaInt r.row ++ lit "\"" ++ r.attrs ++ lit ">"
  ++ r.cells.flatMap (writeCell x) ++ lit "</row>"

/-! ## the stream writer -/

structure SW where
  raw : BW
  rows : Int
  sheetWritten : Bool
  mergeCount : Nat
  mergeCells : Bytes
  colStyles : ColStyles
  nStyles : Int          -- len(styles.CellXfs.Xf)
  pre : Bytes            -- external: what writeSheetData renders for the current worksheet settings
  -- ghost (not in the code, never read by a step): accepted rows and the `pre` that was written
  log : List RowRec
  preW : Bytes
  deriving DecidableEq, Repr

/-- `NewStreamWriter`; `prolog` = XML header, worksheet start tag, fields 2..3 (external) -/
def SW.init (prolog pre : Bytes) (nStyles : Int) : SW :=
  { raw := { tmp := none, buf := prolog }, rows := 0, sheetWritten := false, mergeCount := 0,
    mergeCells := [], colStyles := [], nStyles := nStyles, pre := pre, log := [], preW := [] }

/-- `writeSheetData` -/
def writeSheetData (s : SW) : SW :=
  if s.sheetWritten then s
  else { s with raw := s.raw.write s.pre, sheetWritten := true, preW := s.pre }

/-- `SetRow` (with the roll-back of rejected rows) -/
def setRow (x : Ext) (cfg : Cfg) (s : SW) (cell : Bytes) (values : List Item) (o : RowOpts) : SW × Option E :=
  match cellNameToCoordinates cell with
  | .error e => (s, some (.ref e))
  | .ok (col, row) =>
    if row ≤ s.rows then (s, some .order)
    else match marshalAttrs o with
      | .error e => (s, some e)
      | .ok attrs =>
        match rowCells x s.colStyles o.style row col values with
        | .error e => (s, some e)      -- rolled back: nothing of the row stays
        | .ok cells =>
          let rec_ : RowRec := { row := row, attrs := attrs, cells := cells }
          let s1 := writeSheetData s
          ({ s1 with rows := row, raw := (s1.raw.write (renderRow x rec_)).sync cfg,
                     log := s1.log ++ [rec_] }, none)

/-! ### `SetRow` as the code runs it: write as you go, roll back on a rejected cell

`setRow` above states the *effect* of the roll-back (a rejected row returns the old state). `setRowRaw` is the code's own
order of events: remember `sheetWritten` and `buf.Len()`, `writeSheetData`, write the row start, write cell after cell, and
on a rejected cell restore the flag and `buf.Truncate(size)`. `Lemmas/Stream2.lean: setRowRaw_eq_setRow` proves the two equal. -/

/-- `bytes.Buffer.Truncate(n)` on the in-memory buffer -/
def BW.truncate (w : BW) (n : Nat) : BW := { w with buf := w.buf.take n }

/-- the cell loop of `SetRow`, writing each accepted cell at once; stops at the first rejected cell -/
def rowLoop (x : Ext) (cs : ColStyles) (rowStyle : Int) (row : Int) : Int → List Item → BW → BW × Option E
  | _, [], w => (w, none)
  | col, it :: rest, w =>
    if it.isSkip then rowLoop x cs rowStyle row (col + 1) rest w
    else match coordinatesToCellName col row false with
      | .error e => (w, some (.ref e))
      | .ok ref =>
        match mkCell x cs rowStyle ref col it with
        | .error e => (w, some e)
        | .ok c => rowLoop x cs rowStyle row (col + 1) rest (w.write (writeCell x c))

/-- `SetRow` with the explicit `rollback` closure (`sw.sheetWritten = sheetWritten; sw.rawData.buf.Truncate(size)`);
the ghost `preW` follows the bytes -/
def setRowRaw (x : Ext) (cfg : Cfg) (s : SW) (cell : Bytes) (values : List Item) (o : RowOpts) : SW × Option E :=
  match cellNameToCoordinates cell with
  | .error e => (s, some (.ref e))
  | .ok (col, row) =>
    if row ≤ s.rows then (s, some .order)
    else match marshalAttrs o with
      | .error e => (s, some e)
      | .ok attrs =>
        let sheetWritten := s.sheetWritten
        let size := s.raw.buf.length
        let s1 := writeSheetData s
        let w1 := s1.raw.write (lit "<row r=\"" ++ itoaInt row ++ lit "\"" ++ attrs ++ lit ">")
        match rowLoop x s.colStyles o.style row col values w1 with
        | (w2, some e) => ({ s1 with sheetWritten := sheetWritten, raw := w2.truncate size, preW := s.preW }, some e)
        | (w2, none) =>
          ({ s1 with rows := row, raw := (w2.write (lit "</row>")).sync cfg,
                     log := s1.log ++ [{ row := row, attrs := attrs, cells := (match rowCells x s.colStyles o.style row col values with | .ok cells => cells | .error _ => []) }] }, none)

/-- `MergeCell` -/
def mergeCell (s : SW) (tl br : Bytes) : SW × Option E :=
  match cellNameToCoordinates tl with
  | .error e => (s, some (.ref e))
  | .ok _ =>
    match cellNameToCoordinates br with
    | .error e => (s, some (.ref e))
    | .ok _ =>
      ({ s with mergeCount := s.mergeCount + 1,
                mergeCells := s.mergeCells ++ lit "<mergeCell ref=\"" ++ tl ++ lit ":" ++ br ++ lit "\"/>" }, none)

def badCol (c : Int) : Bool := c < (Facts.MinColumns : Int) || c > (Facts.MaxColumns : Int)

/-- `SetColWidth`; width in quarters (non-negative in the transcript); `sv` = fields 4..5 of the worksheet as
rendered now (external) -/
def setColWidth (s : SW) (a b w4 : Int) (sv : Bytes) : SW × Option E :=
  if s.sheetWritten then (s, some .colOrder)
  else if badCol a || badCol b then (s, some .colNumber)
  else if w4 > 4 * (Facts.MaxColumnWidth : Int) then (s, some .colWidth)
  else
    let lo := if a > b then b else a
    let hi := if a > b then a else b
    let cols := wsSetColWidth s.colStyles lo hi (fmtQuarter w4.toNat)
    ({ s with colStyles := cols, pre := preData sv cols }, none)

/-- `SetColStyle` -/
def setColStyle (s : SW) (a b st : Int) (sv : Bytes) : SW × Option E :=
  if s.sheetWritten then (s, some .colOrder)
  else if badCol a || badCol b then (s, some .colNumber)
  else if st < 0 || s.nStyles ≤ st then (s, some .style)
  else
    let lo := if b < a then b else a
    let hi := if b < a then a else b
    let cols := wsSetColStyle s.colStyles lo hi st
    ({ s with colStyles := cols, pre := preData sv cols }, none)

/-- `SetPanes`; `ok` = whether `ws.setPanes` accepts the options, `sv` = fields 4..5 afterwards (external) -/
def setPanes (s : SW) (ok : Bool) (sv : Bytes) : SW × Option E :=
  if s.sheetWritten then (s, some .colOrder)
  else if ok then ({ s with pre := preData sv s.colStyles }, none) else (s, some .panes)

/-- external at Flush: `fields[i]` = what `bulkAppendFields(ws, i, i)` (reflection + `encoding/xml`) renders for
field `i` of `xlsxWorksheet` (index 0 is the mutex), and the `<tableParts>` string `AddTable` left in the writer -/
structure Epilog where
  fields : List Bytes
  tableParts : Bytes
  deriving DecidableEq, Repr

def fieldBytes (e : Epilog) (i : Nat) : Bytes :=
  match e.fields[i]? with
  | some b => b
  | none => []

/-- `bulkAppendFields(w, ws, from, to)`: the fields with index `from ≤ i ≤ to`, ascending -/
def bulk (e : Epilog) (r : Nat × Nat) : Bytes :=
  (List.range' r.1 (r.2 + 1 - r.1)).flatMap (fieldBytes e)

def mergeBlock (s : SW) : Bytes :=
  if s.mergeCount > 0 then
    lit "<mergeCells count=\"" ++ itoa s.mergeCount ++ lit "\">" ++ s.mergeCells ++ lit "</mergeCells>"
  else []

/-- what `Flush` writes: the `bulkAppendFields` ranges are the regenerated literals of the Go function
(`Facts.C11.bulk_Flush`); the merge block is hand-written between the first two; the table parts are written once —
`AddTable`'s element if there is one, otherwise the worksheet's own field — and the extension list follows -/
def epilogBytes (s : SW) (e : Epilog) : Bytes :=
  match Facts.C11.bulk_Flush with
  | [r1, r2, r3, r4] =>
    lit "</sheetData>" ++ bulk e r1 ++ mergeBlock s ++ bulk e r2
      ++ (if e.tableParts ≠ [] then e.tableParts else bulk e r3) ++ bulk e r4 ++ lit "</worksheet>"
  | _ => []

/-- `Flush` -/
def flush (s : SW) (e : Epilog) : SW :=
  let s1 := writeSheetData s
  { s1 with raw := (s1.raw.write (epilogBytes s1 e)).flush }

/-- `rawData.Reader()` as used by `AddTable` -/
def reader (s : SW) : SW × Bytes := ({ s with raw := s.raw.flush }, s.raw.abs)

/-! ## operation sequences -/

inductive Op
  | setRow (cell : Bytes) (values : List Item) (o : RowOpts)
  | merge (tl br : Bytes)
  | colWidth (a b w4 : Int) (pre' : Bytes)
  | colStyle (a b st : Int) (pre' : Bytes)
  | panes (ok : Bool) (pre' : Bytes)
  | reader
  | flush (e : Epilog)
  deriving DecidableEq, Repr

def step (x : Ext) (cfg : Cfg) (s : SW) : Op → SW × Option E
  | .setRow cell values o => setRow x cfg s cell values o
  | .merge tl br => mergeCell s tl br
  | .colWidth a b w pre' => setColWidth s a b w pre'
  | .colStyle a b st pre' => setColStyle s a b st pre'
  | .panes ok pre' => setPanes s ok pre'
  | .reader => ((reader s).1, none)
  | .flush e => (flush s e, none)

/-- run a call sequence, collecting the results -/
def run (x : Ext) (cfg : Cfg) (s : SW) : List Op → SW × List (Option E)
  | [] => (s, [])
  | op :: ops =>
    let r := step x cfg s op
    let rr := run x cfg r.1 ops
    (rr.1, r.2 :: rr.2)

/-! ## Spec: what the in-memory API stores -/

inductive Kind | number | boolean | text | formula | blank
  deriving DecidableEq, Repr

/-- what a reader observes of a cell: kind class, stored value, formula, style -/
structure Obs where
  kind : Kind
  value : Bytes
  formula : Bytes
  style : Int
  deriving DecidableEq, Repr

namespace Spec

/-- stored value and kind of a bare value (`SetCellValue`) -/
def valObs : Val → Kind × Bytes
  | .nil => (.blank, [])
  | .int i => (.number, itoaInt i)
  | .bool b => (.boolean, if b then lit "1" else lit "0")
  | .num text => (.number, text)
  | .str s => (.text, cutCell s)
  | .rich xml => (.text, xml)
  | .richErr => (.blank, [])
  | .time isNum text _ _ => (if isNum then .number else .text, text)
  | .dur text _ => (.number, text)

/-- the default date style `SetCellValue` adds to a time stored as a number when the cell has no style of its own -/
def valStyle : Val → Int → Int
  | .time true _ _ nfMem, s => if s = 0 then nfMem else s
  | .dur _ nfMem, s => if s = 0 then nfMem else s
  | _, s => s

/-- the cell the in-memory calls leave at a position: `SetCellValue`, then
`SetCellFormula` when a formula is given, then `SetCellStyle` when a style is
given; otherwise the style is inherited from the row, then from the cell's own
column (`prepareCellStyle` at that position). -/
def cellObs (cs : ColStyles) (rowStyle : Int) (col : Int) : Item → Option Obs
  | .skip => none
  | .plain .nil => none
  | .plain v =>
    some { kind := (valObs v).1, value := (valObs v).2, formula := [],
           style := valStyle v (if rowStyle ≠ 0 then rowStyle else colStyleAt cs col) }
  | .cell style formula v =>
    some { kind := if formula ≠ [] then .formula else (valObs v).1,
           value := (valObs v).2, formula := formula,
           style := valStyle v (if style > 0 then style else if rowStyle ≠ 0 then rowStyle else colStyleAt cs col) }

/-- a row handed to either API -/
structure RowIn where
  col : Int
  row : Int
  items : List Item
  opts : RowOpts
  deriving DecidableEq, Repr

/-- the in-memory sheet as a partial map: the cell at (`r`, `c`) -/
def lookup (cs : ColStyles) (rows : List RowIn) (r c : Int) : Option Obs :=
  match rows.find? (fun ri => ri.row = r) with
  | none => none
  | some ri =>
    if c < ri.col then none
    else match ri.items[(c - ri.col).toNat]? with
      | none => none
      | some it => cellObs cs ri.opts.style c it

end Spec

/-! ## reading the stream output back -/

/-- what a reader makes of a cell record (kind class from `f`/`t`, value from `v` or the inline string) -/
def readCell (x : Ext) (c : XC) : Obs :=
  let kv : Kind × Bytes :=
    if c.t = lit "b" then (.boolean, c.v)
    else if c.t = lit "inlineStr" then
      (.text, match c.is with | .text val _ => val | .runs xml => xml | .none => [])
    else if c.t = lit "str" then (.text, x.unbstr c.v)
    else if c.v = [] then (.blank, [])
    else (.number, c.v)
  { kind := if c.f.isSome then .formula else kv.1, value := kv.2,
    formula := match c.f with | some f => f | none => [], style := c.s }

/-- does the reference decode (`CellNameToCoordinates`) to column `c`, row `r`? -/
def refIs (ref : Bytes) (c r : Int) : Bool :=
  match cellNameToCoordinates ref with
  | .ok (c', r') => c' == c && r' == r
  | .error _ => false

/-- the cell of the written rows at (`r`, `c`): the row record with number `r`, the cell whose reference decodes to (`c`, `r`) -/
def lookupLog (x : Ext) (log : List RowRec) (r c : Int) : Option Obs :=
  match log.find? (fun rr => rr.row = r) with
  | none => none
  | some rr =>
    match rr.cells.find? (fun xc => refIs xc.r c r) with
    | none => none
    | some xc => some (readCell x xc)

end XlModel.Stream
