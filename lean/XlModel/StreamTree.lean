/-
Abstract element trees for one worksheet cell (C11, `writeCell_eq_marshal`).

Two producers of the `<c>` element for the same cell record `XC`:
  * `writeCellTree` — the element that the hand-assembled XML of stream.go `writeCell`
    denotes (attributes in the order written, children f, v, is);
  * `marshalTree`   — what `encoding/xml` produces for `xlsxC` from its struct tags
    (`xml:"space,attr,omitempty"`, `r,attr,omitempty`, `s,attr,omitempty`, `t,attr,omitempty`,
    `cm/vm/ph` nil pointers, `f`, `v,omitempty`, `is`; `xlsxSI`: `t,omitempty`, `r`; `xlsxT`: `space,attr,omitempty`,
    chardata; `xlsxF`: chardata + attributes that are all zero in the stream writer). The tags are regenerated
    facts (`Facts.C11.tags_xlsxC` …), the order and `omitempty` rules used here are checked against them in
    `Props/C11.lean`.
Text nodes hold the character data after XML un-escaping (the shared escaping law is the parameter);
marshalled rich-text runs are opaque (`xml.Marshal` of the same `[]xlsxR` in both paths).
The tree has the fixed depth of the `c` element (c → f|v|is → t|runs → text), so it is not a nested inductive type.
-/
import XlModel.Stream
namespace XlModel.Stream
open XlModel XlModel.Ref

abbrev Attrs := List (Bytes × Bytes)

/-- an element whose content is character data only (`f`, `v`, `t`); empty text = no text node -/
structure TextElem where
  name : Bytes
  attrs : Attrs
  text : Bytes
  deriving DecidableEq, Repr

/-- child of `<is>` -/
inductive IsKid
  | t (e : TextElem)
  | runs (xml : Bytes)     -- one or more marshalled `<r>` elements, opaque
  deriving DecidableEq, Repr

/-- child of `<c>` -/
inductive Kid
  | leaf (e : TextElem)
  | is (kids : List IsKid)
  deriving DecidableEq, Repr

structure CellTree where
  attrs : Attrs
  kids : List Kid
  deriving DecidableEq, Repr

def spaceAttrs (b : Bool) : Attrs := if b then [(lit "xml:space", lit "preserve")] else []

/-- the element denoted by what `writeCell` writes -/
def writeCellTree (x : Ext) (c : XC) : CellTree :=
  { attrs := spaceAttrs c.space ++ [(lit "r", c.r)]
      ++ (if c.s ≠ 0 then [(lit "s", itoaInt c.s)] else [])
      ++ (if c.t ≠ [] then [(lit "t", c.t)] else []),
    kids := (match c.f with
        | some f => [Kid.leaf { name := lit "f", attrs := [], text := f }]
        | none => [])
      ++ (if c.v ≠ [] then [Kid.leaf { name := lit "v", attrs := [], text := c.v }] else [])
      ++ (match c.is with
        | .none => []
        | .runs xml => [Kid.is (if xml ≠ [] then [IsKid.runs xml] else [])]
        | .text val sp => [Kid.is [IsKid.t { name := lit "t", attrs := spaceAttrs sp, text := x.bstr val }]]) }

/-- the element `encoding/xml` marshals for the `xlsxC` holding the same record
(`IS.T.Val` = the stored text `bstr val`, as the in-memory API and a decoder have it) -/
def marshalTree (x : Ext) (c : XC) : CellTree :=
  { attrs := spaceAttrs c.space                                      -- XMLSpace xml.Attr: present iff it has a name
      ++ (if c.r ≠ [] then [(lit "r", c.r)] else [])                 -- r,attr,omitempty
      ++ (if c.s ≠ 0 then [(lit "s", itoaInt c.s)] else [])          -- s,attr,omitempty
      ++ (if c.t ≠ [] then [(lit "t", c.t)] else []),                -- t,attr,omitempty; cm, vm, ph: nil pointers
    kids := (match c.f with                                          -- F *xlsxF: nil omitted; its attributes are all zero here
        | some f => [Kid.leaf { name := lit "f", attrs := [], text := f }]
        | none => [])
      ++ (if c.v ≠ [] then [Kid.leaf { name := lit "v", attrs := [], text := c.v }] else [])   -- v,omitempty
      ++ (match c.is with                                            -- IS *xlsxSI: nil omitted, otherwise always an element
        | .none => []
        | .runs xml => [Kid.is (if xml ≠ [] then [IsKid.runs xml] else [])]
        | .text val sp => [Kid.is [IsKid.t { name := lit "t", attrs := spaceAttrs sp, text := x.bstr val }]]) }

/-- the record a decoder (`xml.Unmarshal` into `xlsxC`) gets from what `writeCell` wrote: nothing is lost
(an inline-string part without content is written as an empty element since the repair of `writeCell`) -/
def reparse (c : XC) : XC := c

/-- serialisation of the tree with the two text escapers of the stream writer
(`xml.EscapeText` for `f`/`v`, escape-then-keep-line-feeds for the inline `t`) -/
def renderAttrs (a : Attrs) : Bytes :=
  a.flatMap fun p => lit " " ++ p.1 ++ lit "=\"" ++ p.2 ++ lit "\""

def renderTextElem (esc : Bytes → Bytes) (e : TextElem) : Bytes :=
  lit "<" ++ e.name ++ renderAttrs e.attrs ++ lit ">" ++ esc e.text ++ lit "</" ++ e.name ++ lit ">"

def escInline (t : Bytes) : Bytes := match t with | [] => [] | v => replaceNL (escapeText v)

def renderIsKid : IsKid → Bytes
  | .t e => renderTextElem escInline e
  | .runs xml => xml

def renderKid : Kid → Bytes
  | .leaf e => renderTextElem escapeText e
  | .is kids => lit "<is>" ++ kids.flatMap renderIsKid ++ lit "</is>"

def renderCell (t : CellTree) : Bytes :=
  lit "<c" ++ renderAttrs t.attrs ++ lit ">" ++ t.kids.flatMap renderKid ++ lit "</c>"

/-! canonical text of a tree for the transcript: `c[k=hex;…]{f[]{#hex};is[]{t[…]{#hex};R}}` -/

def canonAttrs (a : Attrs) : String :=
  "[" ++ String.intercalate ";" (a.map fun p => String.ofList p.1 ++ "=" ++ hex p.2) ++ "]"

def canonTextElem (e : TextElem) : String :=
  String.ofList e.name ++ canonAttrs e.attrs ++ "{" ++ (if e.text = [] then "" else "#" ++ hex e.text) ++ "}"

def canonIsKid : IsKid → String
  | .t e => canonTextElem e
  | .runs _ => "R"

def canonKid : Kid → String
  | .leaf e => canonTextElem e
  | .is kids => "is[]{" ++ String.intercalate ";" (kids.map canonIsKid) ++ "}"

def canonCell (t : CellTree) : String :=
  "c" ++ canonAttrs t.attrs ++ "{" ++ String.intercalate ";" (t.kids.map canonKid) ++ "}"

/-! ## row attributes -/

/-- the attributes `RowOpts.marshalAttrs` writes on the `<row>` element, in the order written -/
def rowAttrList (o : RowOpts) : Attrs :=
  (if o.style > 0 then [(lit "s", itoaInt o.style), (lit "customFormat", lit "1")] else [])
  ++ (if o.h4 > 0 then [(lit "ht", fmtQuarter o.h4.toNat), (lit "customHeight", lit "1")] else [])
  ++ (if o.outline > 0 then [(lit "outlineLevel", itoaInt o.outline)] else [])
  ++ (if o.hidden then [(lit "hidden", lit "1")] else [])

/-- the `xlsxRow` fields the in-memory setters leave for the same options: `SetRowStyle` (when a style is given),
`SetRowHeight` (when a height is given), `SetRowOutlineLevel` (when a level is given), `SetRowVisible(!hidden)` -/
structure RowRecMem where
  s : Int
  customFormat : Bool
  ht : Option Nat          -- quarter points
  hidden : Bool
  customHeight : Bool
  outlineLevel : Int
  deriving DecidableEq, Repr

def Spec.rowRec (o : RowOpts) : RowRecMem :=
  { s := if o.style > 0 then o.style else 0, customFormat := o.style > 0,
    ht := if o.h4 > 0 then some o.h4.toNat else none, customHeight := o.h4 > 0,
    hidden := o.hidden, outlineLevel := if o.outline > 0 then o.outline else 0 }

/-- what `encoding/xml` marshals for those fields, in the order of the struct tags of `xlsxRow`
(`s`, `customFormat`, `ht`, `hidden`, `customHeight`, `outlineLevel`; all `omitempty` or nil pointer) -/
def marshalRowAttrs (r : RowRecMem) : Attrs :=
  (if r.s ≠ 0 then [(lit "s", itoaInt r.s)] else [])
  ++ (if r.customFormat then [(lit "customFormat", lit "1")] else [])
  ++ (match r.ht with | some q => [(lit "ht", fmtQuarter q)] | none => [])
  ++ (if r.hidden then [(lit "hidden", lit "1")] else [])
  ++ (if r.customHeight then [(lit "customHeight", lit "1")] else [])
  ++ (if r.outlineLevel ≠ 0 then [(lit "outlineLevel", itoaInt r.outlineLevel)] else [])

/-- attribute lookup (an element's attributes are a finite map) -/
def attrOf (a : Attrs) (k : Bytes) : Option Bytes := (a.find? (fun p => p.1 = k)).map (·.2)

/-! ## panes: the sheet view `ws.setPanes` leaves and its rendering (fields 4..5 of the worksheet) -/

/-- `excelize.Panes` (+ `Selection` entries as (activeCell, pane, sqref)) -/
structure PaneOpts where
  freeze : Bool
  split : Bool
  xSplit : Int
  ySplit : Int
  topLeftCell : Bytes
  activePane : Bytes
  selection : List (Bytes × Bytes × Bytes)
  deriving DecidableEq, Repr

def strAttr (k : String) (v : Bytes) : Attrs := if v ≠ [] then [(lit k, escapeText v)] else []

/-- the attributes `encoding/xml` writes for the `xlsxPane` `ws.setPanes` builds, in struct-tag order, all `omitempty`
(`activePane`, `state` = "frozen" for a frozen pane, `topLeftCell`, `xSplit`, `ySplit`; whole numbers print as integers) -/
def paneAttrs (p : PaneOpts) : Attrs :=
  strAttr "activePane" p.activePane ++ (if p.freeze then [(lit "state", lit "frozen")] else [])
  ++ strAttr "topLeftCell" p.topLeftCell
  ++ (if p.xSplit ≠ 0 then [(lit "xSplit", itoaInt p.xSplit)] else [])
  ++ (if p.ySplit ≠ 0 then [(lit "ySplit", itoaInt p.ySplit)] else [])

/-- the `<pane>` element: none when the options neither freeze nor split (`setPanes` removes the pane then) -/
def paneElem (p : PaneOpts) : Bytes :=
  if !p.freeze && !p.split then [] else lit "<pane" ++ renderAttrs (paneAttrs p) ++ lit "></pane>"

def selectionElem (s : Bytes × Bytes × Bytes) : Bytes :=
  lit "<selection" ++ renderAttrs (strAttr "activeCell" s.1 ++ strAttr "pane" s.2.1 ++ strAttr "sqref" s.2.2)
    ++ lit "></selection>"

/-- fields 4..5 after `ws.setPanes(p)`: the last (here: only) sheet view keeps its attributes `viewAttrs` (external) and
gets the pane and the selections; `f5` = `sheetFormatPr` (external) -/
def panesSV (viewAttrs f5 : Bytes) (p : PaneOpts) : Bytes :=
  lit "<sheetViews><sheetView" ++ viewAttrs ++ lit ">" ++ paneElem p ++ p.selection.flatMap selectionElem
    ++ lit "</sheetView></sheetViews>" ++ f5

/-- cells that survive a load/save cycle (`trimCell` drops cells with no style, value, type or formula) -/
def XC.kept (c : XC) : Bool := c.s ≠ 0 || c.v ≠ [] || c.f.isSome || c.t ≠ []

end XlModel.Stream
