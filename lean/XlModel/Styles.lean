import XlModel.Basic
import XlModel.Generated.Facts
import XlModel.Generated.FactsC17
/-!
# Style registry and three-level style resolution (property C17)

`Impl` part 1 (registry): transcription of styles.go `NewStyle`, `parseFormatStyleSet`,
`getStyleID`, `getXfIDFuncs`, `getFontID`/`newFont`/`newFontColor`, `getFillID`/`newFills`,
`getBorderID`/`newBorders`, `getNumFmtID`/`newNumFmt`/`setCustomNumFmt`/`getCustomNumFmtID`/
`setLangNumFmt`, `setCellXfs`, `GetStyle`, `extractStyleCondFuncs`, `extractFont`/`extractFills`/
`extractBorders`/`extractNumFmt`/`extractAlignment`/`extractProtection`, `getThemeColor` (tint 0,
no theme index).

`Impl` part 2 (grid): `prepareSheetXML`, `fillColumns`, `makeContiguousColumns`,
`prepareCellStyle`, `GetCellStyle` (`getCell`, read-only), `SetCellStyle`, `SetRowStyle`, `SetColStyle`/`setColStyle`/
`flatCols`, `GetColStyle`, the `c.S = prepareCellStyle(..)` step of every cell setter.

`Spec`: `normalize` (what `GetStyle (NewStyle s)` must be) and the three total maps
cell / row / column with `resolve`.

Strings are byte lists (`List Char` with byte-valued chars, as in `XlModel.Ref`). Font sizes are
integers in quarter points, tints in eighths (only compared with constants and for equality).
The nfp-based `extractNumFmtDecimal` is a parameter `dec : Str → Int` (external code).
Core Lean only.
-/
namespace XlModel.Styles
open XlModel

abbrev Str := List Char

inductive Err
  | fontLength | fontSize | customNumFmt | cellStyles | invalidStyle | rowNumber | maxRows | panic
  deriving DecidableEq, Repr

def Err.tag : Err → String
  | .fontLength => "E_FONTLENGTH"
  | .fontSize => "E_FONTSIZE"
  | .customNumFmt => "E_CUSTOMNUMFMT"
  | .cellStyles => "E_CELLSTYLES"
  | .invalidStyle => "E_INVALIDSTYLE"
  | .rowNumber => "E_ROWNUMBER"
  | .maxRows => "E_MAXROWS"
  | .panic => "PANIC"

/-! ## byte-string helpers (strings.ToUpper / ReplaceAll / Contains / TrimPrefix, ASCII) -/

def upperC (c : Char) : Char :=
  if 97 ≤ c.toNat ∧ c.toNat ≤ 122 then Char.ofNat (c.toNat - 32) else c

def upper (s : Str) : Str := s.map upperC

/-- `strings.EqualFold` restricted to ASCII -/
def foldEq (a b : Str) : Bool := upper a == upper b

def dropPrefix? : Str → Str → Option Str
  | [], s => some s
  | _ :: _, [] => none
  | p :: ps, c :: cs => if p = c then dropPrefix? ps cs else none

def containsStr (pat : Str) : Str → Bool
  | [] => pat.isEmpty
  | c :: cs => (dropPrefix? pat (c :: cs)).isSome || containsStr pat cs

/-- `strings.ReplaceAll` for a non-empty pattern (left to right, non-overlapping) -/
def replaceAllFuel (pat rep : Str) : Nat → Str → Str
  | 0, s => s
  | _, [] => []
  | n + 1, c :: cs =>
    match dropPrefix? pat (c :: cs) with
    | some rest => rep ++ replaceAllFuel pat rep n rest
    | none => c :: replaceAllFuel pat rep n cs

def replaceAll (pat rep s : Str) : Str :=
  if pat.isEmpty then s else replaceAllFuel pat rep (s.length + 1) s

/-- `strings.TrimPrefix(s, "FF")` -/
def trimFF : Str → Str
  | 'F' :: 'F' :: r => r
  | s => s

/-- styles.go `getPaletteColor` -/
def paletteColor (c : Str) : Str := 'F' :: 'F' :: (upper c).filter (· ≠ '#')

/-- lib.go `inStrSlice(a, x, true)` -/
def idxOf (a : List Str) (x : Str) : Option Nat := a.findIdx? (· == x)

/-- lib.go `inStrSlice(a, x, false)`; `-1` when absent -/
def idxOfFold (a : List Str) (x : Str) : Int :=
  match a.findIdx? (fun n => foldEq x n || x == n) with
  | some i => (i : Int)
  | none => -1

def lookupI {β} (k : Int) : List (Int × β) → Option β
  | [] => none
  | (k', v) :: r => if k = k' then some v else lookupI k r

def inRanges (x : Int) (rs : List (Int × Int)) : Bool := rs.any fun (lo, hi) => lo ≤ x && x ≤ hi

/-! ## user-facing style definition (xmlStyles.go `Style`) -/

structure Border where
  typ : Str
  color : Str
  style : Int
  deriving DecidableEq, Repr

structure Fill where
  typ : Str
  pattern : Int
  colors : List Str
  shading : Int
  deriving DecidableEq, Repr

structure Font where
  bold : Bool
  italic : Bool
  strike : Bool
  underline : Str
  family : Str
  size : Int          -- quarter points
  color : Str
  colorIndexed : Int
  colorTheme : Option Int
  colorTint : Int     -- eighths
  vertAlign : Str
  deriving DecidableEq, Repr

structure Style where
  border : List Border
  fill : Fill
  font : Option Font
  alignment : Option Str            -- opaque token; "z" = zero value
  protection : Option (Bool × Bool) -- hidden, locked
  numFmt : Int
  decimalPlaces : Option Int
  customNumFmt : Option Str
  negRed : Bool
  deriving DecidableEq, Repr

def Fill.zero : Fill := ⟨[], 0, [], 0⟩
def Style.zero : Style := ⟨[], Fill.zero, none, none, none, 0, none, none, false⟩
def zeroAlign : Str := ['z']

/-! ## stored records (xmlStyles.go `xlsx*`) -/

structure XColor where
  rgb : Str
  indexed : Int
  theme : Option Int
  tint : Int
  deriving DecidableEq, Repr

structure XFont where
  b : Bool
  i : Bool
  strike : Bool
  u : Option Str
  sz : Int
  color : Option XColor
  name : Str
  family : Int
  deriving DecidableEq, Repr

inductive XFill
  | empty
  | pattern (ptype : Str) (fg : Option Str)
  | gradient (shading : Nat) (c0 c1 : Str)
  deriving DecidableEq, Repr

structure XLine where
  style : Str
  color : Option Str
  deriving DecidableEq, Repr

structure XBorder where
  up : Bool
  down : Bool
  left : Option XLine
  right : Option XLine
  top : Option XLine
  bottom : Option XLine
  diagonal : Option XLine
  deriving DecidableEq, Repr

structure XNumFmt where
  id : Nat
  code : Str
  deriving DecidableEq, Repr

structure Xf where
  numFmtId : Option Nat
  fontId : Option Nat
  fillId : Option Nat
  borderId : Option Nat
  applyNumFmt : Option Bool
  applyFont : Option Bool
  applyFill : Option Bool
  applyBorder : Option Bool
  applyAlignment : Option Bool
  applyProtection : Option Bool
  alignment : Option Str
  protection : Option (Bool × Bool)
  deriving DecidableEq, Repr

/-- the style sheet tables with their `Count` fields -/
structure Reg where
  fonts : List XFont
  fontsCount : Nat
  fills : List XFill
  fillsCount : Nat
  borders : List XBorder
  bordersCount : Nat
  numFmts : Option (List XNumFmt × Nat)
  xfs : List Xf
  xfsCount : Nat
  deriving DecidableEq, Repr

/-! ## the registry of `NewFile()` (from templates.go `templateStyles`, regenerated) -/

def emptyLine : XLine := ⟨[], none⟩
def templateBorder : XBorder := ⟨false, false, some emptyLine, some emptyLine, some emptyLine, some emptyLine, some emptyLine⟩

def initReg : Reg :=
  { fonts := Facts.C17.tplFonts.map fun (sz, col, name, fam) =>
      { b := false, i := false, strike := false, u := none, sz := sz,
        color := col.map (fun (rgb, idx, th, tint) => ⟨rgb, idx, th, tint⟩), name := name, family := fam }
    fontsCount := Facts.C17.tplFontsCount
    fills := Facts.C17.tplFills.map fun p => XFill.pattern p none
    fillsCount := Facts.C17.tplFillsCount
    borders := List.replicate Facts.C17.tplBorders templateBorder
    bordersCount := Facts.C17.tplBordersCount
    numFmts := none
    xfs := Facts.C17.tplXfs.map fun (n, f, l, b) =>
      { numFmtId := some n, fontId := some f, fillId := some l, borderId := some b,
        applyNumFmt := none, applyFont := none, applyFill := none, applyBorder := none,
        applyAlignment := none, applyProtection := none, alignment := none, protection := none }
    xfsCount := Facts.C17.tplXfsCount }

/-! ## Impl: components -/
namespace Impl

/-- styles.go `newFontColor` -/
def newFontColor (f : Font) : Option XColor :=
  let c0 : Option XColor := if f.color ≠ [] then some ⟨paletteColor f.color, 0, none, 0⟩ else none
  let c1 : Option XColor :=
    if 0 ≤ f.colorIndexed ∧ f.colorIndexed ≤ (Facts.C17.indexedColorCount : Int) + 1 then
      some { (c0.getD ⟨[], 0, none, 0⟩) with indexed := f.colorIndexed }
    else c0
  let c2 : Option XColor :=
    match f.colorTheme with
    | some t => some { (c1.getD ⟨[], 0, none, 0⟩) with theme := some t }
    | none => c1
  if f.colorTint ≠ 0 then some { (c2.getD ⟨[], 0, none, 0⟩) with tint := f.colorTint } else c2

/-- `MinFontSize` in quarter points and the replacement size 11 -/
def minSizeQ : Int := 4 * (Facts.MinFontSize : Int)
def maxSizeQ : Int := 4 * (Facts.MaxFontSize : Int)
def defaultSizeQ : Int := 44

/-- the size mutation `newFont` performs on the caller's `Style` -/
def fixSize (f : Font) : Font := if f.size < minSizeQ then { f with size := defaultSizeQ } else f

/-- styles.go `newFont` (returns the record and the mutated font); `GetDefaultFont` reads
`Fonts.Font[0].Name` without a guard -/
def newFont (r : Reg) (f : Font) : Except Err (XFont × Font) :=
  let f' := fixSize f
  let mk (name : Str) : XFont :=
    { b := f'.bold, i := f'.italic, strike := f'.strike,
      u := if Facts.C17.underlineTypes.contains f'.underline then some f'.underline else none,
      sz := f'.size, color := newFontColor f', name := name, family := 2 }
  if f'.family = [] then
    match r.fonts with
    | [] => .error .panic
    | d :: _ => .ok (mk d.name, f')
  else .ok (mk f'.family, f')

/-- styles.go `getFontID`: first equal font; mutates `style.Font.Size` (only when the loop runs) -/
def getFontID (r : Reg) (s : Style) : Except Err (Option Nat × Style) :=
  match s.font with
  | none => .ok (none, s)
  | some f =>
    if r.fonts = [] then .ok (none, s) else
    match newFont r f with
    | .error e => .error e
    | .ok (xf, f') => .ok (r.fonts.findIdx? (· == xf), { s with font := some f' })

/-- styles.go `newFills(style, true)`; `none` = nil (no fill, unknown fill type, out-of-range pattern,
malformed gradient: no fill is created) -/
def newFills (fl : Fill) : Option XFill :=
  if fl.typ = "gradient".toList then
    if fl.colors.length ≠ 2 ∨ fl.shading < 0 ∨ fl.shading > 16 then none
    else match fl.colors with
      | [a, b] => some (.gradient fl.shading.toNat (paletteColor a) (paletteColor b))
      | _ => none
  else if fl.typ = "pattern".toList then
    if fl.pattern > 18 ∨ fl.pattern < 0 then none
    else match Facts.C17.styleFillPatterns[fl.pattern.toNat]? with
      | none => none  -- index out of range: guarded by `patterns_cover_guard`
      | some p => match fl.colors with
        | [] => some (.pattern p none)
        | c :: _ => some (.pattern p (some (paletteColor c)))
  else none

/-- styles.go `getFillID` -/
def getFillID (r : Reg) (s : Style) : Option Nat :=
  if s.fill.typ = [] then none else
  match newFills s.fill with
  | none => none
  | some x => r.fills.findIdx? (· == x)

def setLine (b : XBorder) (typ : Str) (line : XLine) : XBorder :=
  if typ = "left".toList then { b with left := some line }
  else if typ = "right".toList then { b with right := some line }
  else if typ = "top".toList then { b with top := some line }
  else if typ = "bottom".toList then { b with bottom := some line }
  else if typ = "diagonalUp".toList then { b with diagonal := some line, up := true }
  else if typ = "diagonalDown".toList then { b with diagonal := some line, down := true }
  else b

def emptyBorder : XBorder := ⟨false, false, none, none, none, none, none⟩

/-- styles.go `newBorders` -/
def newBorders (bs : List Border) : XBorder :=
  bs.foldl (fun acc v =>
    if (0 : Int) ≤ v.style ∧ v.style < (14 : Int) then
      match Facts.C17.styleBorders[v.style.toNat]? with
      | some nm => setLine acc v.typ ⟨nm, some (paletteColor v.color)⟩
      | none => acc
    else acc) emptyBorder

/-- styles.go `getBorderID` -/
def getBorderID (r : Reg) (s : Style) : Option Nat :=
  if s.border = [] then none else r.borders.findIdx? (· == newBorders s.border)

/-! ### number formats -/

def builtIn (id : Int) : Option Str := lookupI id Facts.C17.builtInNumFmt
def currency (id : Int) : Option Str := lookupI id Facts.C17.currencyNumFmt
def isLangNumFmt (id : Int) : Bool := inRanges id Facts.C17.langRanges

def numFmtList (r : Reg) : List XNumFmt := match r.numFmts with | some (l, _) => l | none => []

def dpString (dp : Option Int) : Str :=
  match dp with
  | some d => if d > 0 then '0' :: '.' :: List.replicate d.toNat '0' else ['0']
  | none => ['0']

/-- the currency format code `newNumFmt` builds -/
def currencyCode (fc : Str) (s : Style) : Str :=
  let fc1 := if s.decimalPlaces.isSome then replaceAll "0.00".toList (dpString s.decimalPlaces) fc else fc
  if s.negRed then fc1 ++ ";[Red]".toList ++ fc1 else fc1

/-- styles.go `getNumFmtID`: the id as Go's `int` — `-1` "does not exist" (read as General by the xf
lookup), `Facts.C17.currencyUnregisteredId` for a currency format whose code is not stored yet (matches
no xf: the index of a currency format is never compared with stored numFmtIds) -/
def getNumFmtID (r : Reg) (s : Style) : Int :=
  if (builtIn s.numFmt).isSome then s.numFmt
  else if inRanges s.numFmt Facts.C17.getNumFmtRanges then s.numFmt
  else match currency s.numFmt with
    | some fc =>
      match (numFmtList r).find? (·.code == currencyCode fc s) with
      | some nf => (nf.id : Int)
      | none => Facts.C17.currencyUnregisteredId
    | none => -1

/-- styles.go `getCustomNumFmtID` -/
def getCustomNumFmtID (r : Reg) (c : Str) : Option Nat :=
  ((numFmtList r).find? (·.code == c)).map (·.id)

/-- styles.go `setCustomNumFmt` -/
def setCustomNumFmt (r : Reg) (c : Str) : Reg × Nat :=
  let l := numFmtList r
  let id := (l.foldl (fun m nf => if m < nf.id then nf.id else m) 163) + 1
  ({ r with numFmts := some (l ++ [⟨id, c⟩], l.length + 1) }, id)

/-- styles.go `newNumFmt` (+ `setLangNumFmt`) -/
def newNumFmt (r : Reg) (s : Style) : Except Err (Reg × Nat) :=
  match s.customNumFmt with
  | some c =>
    match getCustomNumFmtID r c with
    | some id => .ok (r, id)
    | none => .ok (setCustomNumFmt r c)
  | none =>
    if (builtIn s.numFmt).isSome then .ok (r, s.numFmt.toNat) else
    match currency s.numFmt with
    | none => .ok (r, if isLangNumFmt s.numFmt then s.numFmt.toNat else 0)
    | some fc =>
      match r.numFmts with
      | none => .ok ({ r with numFmts := some ([⟨164, currencyCode fc s⟩], 1) }, 164)
      | some (l, cnt) =>
        -- the format code is stored already: reuse its id
        match l.find? (·.code == currencyCode fc s), l.getLast? with
        | some nf, _ => .ok (r, nf.id)
        | none, none => .error .panic   -- `NumFmt[len-1]` on an empty, non-nil list
        | none, some last => .ok ({ r with numFmts := some (l ++ [⟨last.id + 1, currencyCode fc s⟩], cnt + 1) }, last.id + 1)

/-! ### xf lookup (styles.go `getXfIDFuncs`, `getStyleID`) -/

def offOrAbsent (b : Option Bool) : Bool := b != some true
def zeroOrAbsent (i : Option Nat) : Bool := i == none || i == some 0

def xfNumFmt (numFmtID : Int) (xf : Xf) (s : Style) : Bool :=
  if s.customNumFmt.isNone ∧ numFmtID = -1 then xf.numFmtId == some 0
  else if numFmtID < 0 then false
  else xf.numFmtId == some numFmtID.toNat

/-- styles.go `xfApplied`: the apply flag if present, otherwise only the default component (id 0) applies -/
def xfApplied (id : Nat) (apply : Option Bool) : Bool :=
  match apply with
  | some b => b
  | none => id == 0

def xfFont (fontID : Option Nat) (xf : Xf) (s : Style) : Bool :=
  if s.font.isNone then zeroOrAbsent xf.fontId && offOrAbsent xf.applyFont
  else match fontID with
    | some n => xf.fontId == some n && xfApplied n xf.applyFont
    | none => false

def xfFill (fillID : Option Nat) (xf : Xf) (s : Style) : Bool :=
  if (newFills s.fill).isNone then zeroOrAbsent xf.fillId && offOrAbsent xf.applyFill
  else match fillID with
    | some n => xf.fillId == some n && xfApplied n xf.applyFill
    | none => false

def xfBorder (borderID : Option Nat) (xf : Xf) (s : Style) : Bool :=
  if s.border = [] then zeroOrAbsent xf.borderId && offOrAbsent xf.applyBorder
  else match borderID with
    | some n => xf.borderId == some n && xfApplied n xf.applyBorder
    | none => false

def xfAlignment (xf : Xf) (s : Style) : Bool :=
  match s.alignment with
  | none => offOrAbsent xf.applyAlignment
  | some a => xf.alignment == some a

def xfProtection (xf : Xf) (s : Style) : Bool :=
  match s.protection with
  | none => offOrAbsent xf.applyProtection
  | some p => xf.protection == some p && xf.applyProtection == some true

def xfMatches (numFmtID : Int) (fontID fillID borderID : Option Nat) (s : Style) (xf : Xf) : Bool :=
  xfNumFmt numFmtID xf s && xfFont fontID xf s && xfFill fillID xf s && xfBorder borderID xf s &&
  xfAlignment xf s && xfProtection xf s

/-- styles.go `getStyleID`; returns the (size-mutated) style as well -/
def getStyleID (r : Reg) (s : Style) : Except Err (Option Nat × Style) :=
  let numFmtID0 := getNumFmtID r s
  let borderID := getBorderID r s
  let fillID := getFillID r s
  match getFontID r s with
  | .error e => .error e
  | .ok (fontID, s') =>
    let numFmtID : Int := match s.customNumFmt with
      | some c => (match getCustomNumFmtID r c with | some n => (n : Int) | none => -1)
      | none => numFmtID0
    .ok (r.xfs.findIdx? (xfMatches numFmtID fontID fillID borderID s'), s')

/-- styles.go `setCellXfs` -/
def setCellXfs (r : Reg) (fontID numFmtID fillID borderID : Nat) (applyAlignment applyProtection : Bool)
    (alignment : Str) (protection : Bool × Bool) : Except Err (Reg × Nat) :=
  let flag (n : Nat) : Option Bool := if n ≠ 0 then some true else none
  if r.xfs.length = Facts.MaxCellStyles then .error .cellStyles else
  let xf : Xf :=
    { numFmtId := some numFmtID, fontId := some fontID, fillId := some fillID, borderId := some borderID,
      applyNumFmt := flag numFmtID, applyFont := flag fontID, applyFill := flag fillID, applyBorder := flag borderID,
      applyAlignment := some applyAlignment,
      applyProtection := if applyProtection then some true else none,
      alignment := some alignment,
      protection := if applyProtection then some protection else none }
  .ok ({ r with xfs := r.xfs ++ [xf], xfsCount := r.xfs.length + 1 }, (r.xfs.length + 1) - 1)

/-- styles.go `parseFormatStyleSet` + the `DecimalPlaces` clamp of `NewStyle` -/
def parseFormatStyleSet (s : Style) : Except Err Style :=
  match s.font with
  | some f =>
    if f.family.length > Facts.MaxFontFamilyLength then .error .fontLength
    else if f.size > maxSizeQ then .error .fontSize
    else if s.customNumFmt = some [] then .error .customNumFmt else .ok s
  | none => if s.customNumFmt = some [] then .error .customNumFmt else .ok s

def clampDecimal (s : Style) : Style :=
  match s.decimalPlaces with
  | some d => if d < 0 ∨ d > 30 then { s with decimalPlaces := some 2 } else s
  | none => s

/-- the font step of `NewStyle`: look up, else append; the id is the position in the list and `Count`
is set to the element count (also for a style sheet whose count attribute was wrong) -/
def addFont (r : Reg) (s : Style) : Except Err (Reg × Nat × Style) :=
  match s.font with
  | none => .ok (r, 0, s)
  | some _ =>
    match getFontID r s with
    | .error e => .error e
    | .ok (some i, s') => .ok (r, i, s')
    | .ok (none, s') =>
      match s'.font with
      | none => .ok (r, 0, s')
      | some f =>
        match newFont r f with
        | .error e => .error e
        | .ok (xf, f') =>
          -- `append`, then `Count = len(Font)`, id `Count - 1` (position in the list)
          .ok ({ r with fontsCount := r.fonts.length + 1, fonts := r.fonts ++ [xf] },
               (r.fonts.length + 1) - 1, { s' with font := some f' })

/-- the border step of `NewStyle` -/
def addBorder (r : Reg) (s : Style) : Reg × Nat :=
  match getBorderID r s with
  | some i => (r, i)
  | none =>
    if s.border = [] then (r, 0)
    else ({ r with bordersCount := r.borders.length + 1, borders := r.borders ++ [newBorders s.border] },
          (r.borders.length + 1) - 1)

/-- the fill step of `NewStyle` -/
def addFill (r : Reg) (s : Style) : Reg × Nat :=
  match getFillID r s with
  | some i => (r, i)
  | none =>
    match newFills s.fill with
    | some x => ({ r with fillsCount := r.fills.length + 1, fills := r.fills ++ [x] }, (r.fills.length + 1) - 1)
    | none => (r, 0)

/-- `NewStyle` after `getStyleID` found nothing -/
def createStyle (r : Reg) (s : Style) : Except Err (Reg × Nat × Style) :=
  match newNumFmt r s with
  | .error e => .error e
  | .ok (r1, numFmtID) =>
    match addFont r1 s with
    | .error e => .error e
    | .ok (r2, fontID, s') =>
      let (r3, borderID) := addBorder r2 s'
      let (r4, fillID) := addFill r3 s'
      match setCellXfs r4 fontID numFmtID fillID borderID s'.alignment.isSome s'.protection.isSome
          (s'.alignment.getD zeroAlign) (s'.protection.getD (false, false)) with
      | .error e => .error e
      | .ok (r5, id) => .ok (r5, id, s')

/-- styles.go `NewStyle` (non-nil style): new registry, id, and the caller's style as mutated -/
def newStyle (r : Reg) (s0 : Style) : Except Err (Reg × Nat × Style) :=
  match parseFormatStyleSet s0 with
  | .error e => .error e
  | .ok s1 =>
    match getStyleID r (clampDecimal s1) with
    | .error e => .error e
    | .ok (some id, s3) => .ok (r, id, s3)
    | .ok (none, s3) => createStyle r s3

/-! ### GetStyle -/

def onOrAbsent (b : Option Bool) : Bool := b != some false

/-- styles.go `getThemeColor` for a colour carrying only `RGB` (tint 0, no theme index), with a
theme part present: `GetBaseColor` then `ThemeColor(_, 0)` then `TrimPrefix "FF"` -/
def themeColor (rgb : Str) : Str :=
  if rgb.length = 6 then rgb
  else if rgb.length = 8 then trimFF rgb
  else Facts.C17.indexedColor0

def extractLine (typ : Str) (l : Option XLine) : List Border :=
  match l with
  | some ln =>
    if ln.style ≠ [] then
      [⟨typ, (match ln.color with | some c => themeColor c | none => []), idxOfFold Facts.C17.styleBorders ln.style⟩]
    else []
  | none => []

/-- styles.go `extractBorders` -/
def extractBorders (b : XBorder) : List Border :=
  extractLine "left".toList b.left ++ extractLine "right".toList b.right ++
  extractLine "top".toList b.top ++ extractLine "bottom".toList b.bottom ++
  (if b.up then extractLine "diagonalUp".toList b.diagonal else []) ++
  (if b.down then extractLine "diagonalDown".toList b.diagonal else [])

/-- first preset variant with the attributes and the number of stops of variant `sh` -/
def readShading (sh : Nat) : Int :=
  match Facts.C17.fillVariants[sh]? with
  | none => 0
  | some (key, _, n) =>
    match Facts.C17.fillVariants.findIdx? (fun v => v.1 == key && v.2.2 == n) with
    | some i => (i : Int)
    | none => 0

/-- styles.go `extractFills` -/
def extractFills (x : XFill) : Fill :=
  match x with
  | .empty => Fill.zero
  | .pattern p fg =>
    ⟨"pattern".toList, idxOfFold Facts.C17.styleFillPatterns p,
      (match fg with | some c => [themeColor c] | none => []), 0⟩
  | .gradient sh c0 c1 =>
    -- a three-stop preset variant repeats the first colour in its last stop; that stop is not reported
    ⟨"gradient".toList, 0, [themeColor c0, themeColor c1], readShading sh⟩

/-- styles.go `extractFont` -/
def extractFont (x : XFont) : Font :=
  { bold := x.b, italic := x.i, strike := x.strike,
    underline := (match x.u with | some u => if u = [] then "single".toList else u | none => []),
    family := x.name, size := x.sz,
    color := (match x.color with | some c => trimFF c.rgb | none => []),
    colorIndexed := (match x.color with | some c => c.indexed | none => 0),
    colorTheme := (match x.color with | some c => c.theme | none => none),
    colorTint := (match x.color with | some c => c.tint | none => 0),
    vertAlign := [] }

/-- styles.go `extractNumFmt`; `dec` is `extractNumFmtDecimal` (nfp) -/
def extractNumFmt (dec : Str → Int) (r : Reg) (n : Option Nat) (st : Style) : Style :=
  match n with
  | none => st
  | some id =>
    let withDec (st : Style) (code : Str) : Style :=
      if dec code ≠ -1 then { st with decimalPlaces := some (dec code) } else st
    match builtIn id with
    | some code => withDec { st with numFmt := id } code
    | none =>
      if isLangNumFmt id then withDec { st with numFmt := id } []
      else
        (numFmtList r).foldl (fun st nf =>
          if nf.id ≠ id then st else
          let st1 := withDec st nf.code
          let st2 := { st1 with customNumFmt := some nf.code }
          let st3 := if containsStr ";[Red]".toList nf.code then { st2 with negRed := true } else st2
          match Facts.C17.currencyNumFmt.find? (fun (_, c) =>
              (if st3.negRed then c ++ ";[Red]".toList ++ c else c) == nf.code) with
          | some (cid, _) => { st3 with numFmt := cid }
          | none => st3) st

/-- styles.go `GetStyle` -/
def getStyle (dec : Str → Int) (r : Reg) (idx : Int) : Except Err Style :=
  if idx < 0 ∨ (r.xfs.length : Int) ≤ idx then .error .invalidStyle else
  match r.xfs[idx.toNat]? with
  | none => .error .panic
  | some xf =>
    let st := Style.zero
    let st := match (if onOrAbsent xf.applyFill then xf.fillId.bind (r.fills[·]?) else none) with
      | some x => { st with fill := extractFills x } | none => st
    let st := match (if onOrAbsent xf.applyBorder then xf.borderId.bind (r.borders[·]?) else none) with
      | some x => { st with border := extractBorders x } | none => st
    let st := match (if onOrAbsent xf.applyFont then xf.fontId.bind (r.fonts[·]?) else none) with
      | some x => { st with font := some (extractFont x) } | none => st
    let st := if onOrAbsent xf.applyAlignment then
        (match xf.alignment with | some a => { st with alignment := some a } | none => st) else st
    let st := if onOrAbsent xf.applyProtection then
        (match xf.protection with | some p => { st with protection := some p } | none => st) else st
    .ok (extractNumFmt dec r xf.numFmtId st)

/-- id validation shared by SetCellStyle / SetRowStyle / SetColStyle -/
def validId (r : Reg) (sid : Int) : Bool := !(sid < 0 || (r.xfs.length : Int) ≤ sid)

end Impl

/-! ## Impl: the worksheet grid and the three levels of style attachment -/

structure Row where
  s : Nat
  cells : List Nat
  deriving DecidableEq, Repr

structure Col where
  min : Nat
  max : Nat
  style : Nat
  deriving DecidableEq, Repr

structure Grid where
  rows : List Row
  cols : List Col
  deriving DecidableEq, Repr

def Grid.empty : Grid := ⟨[], []⟩

namespace Impl

def padTo {α} (l : List α) (n : Nat) (a : α) : List α := l ++ List.replicate (n - l.length) a

/-- sheet.go `fillColumns` -/
def fillColumns (r : Row) (col : Nat) : Row := { r with cells := padTo r.cells col 0 }

/-- sheet.go `prepareSheetXML(col, row)`; `row ≥ 1` (indexing `Row[row-1]` panics otherwise) -/
def prepareSheetXML (g : Grid) (col row : Nat) : Grid :=
  let rows := padTo g.rows row ⟨0, []⟩
  { g with rows := rows.modify (row - 1) (fillColumns · col) }

/-- sheet.go `makeContiguousColumns(fromRow, toRow, colCount)` -/
def makeContiguousColumns (g : Grid) (fromRow toRow col : Nat) : Grid :=
  { g with rows := g.rows.mapIdx fun i r => if fromRow ≤ i + 1 ∧ i + 1 < toRow then fillColumns r col else r }

/-- cell.go `prepareCellStyle` -/
def prepareCellStyle (g : Grid) (col row style : Nat) : Nat :=
  if style ≠ 0 then style else
  match (if row ≤ g.rows.length then (g.rows[row - 1]?).map (·.s) else none) with
  | some rs =>
    if rs ≠ 0 then rs else
    match g.cols.find? (fun c => c.min ≤ col && col ≤ c.max && c.style != 0) with
    | some c => c.style
    | none => style
  | none =>
    match g.cols.find? (fun c => c.min ≤ col && col ≤ c.max && c.style != 0) with
    | some c => c.style
    | none => style

def cellS (g : Grid) (col row : Nat) : Nat :=
  match g.rows[row - 1]? with
  | some r => (r.cells[col - 1]?).getD 0
  | none => 0

/-- styles.go `GetCellStyle` (valid coordinates, `col,row ≥ 1`): read-only — `getCell` returns the
stored cell or nil (style 0) without creating rows or cells, then `prepareCellStyle` resolves -/
def getCellStyle (g : Grid) (col row : Nat) : Nat :=
  prepareCellStyle g col row (cellS g col row)

/-- the style step of every cell setter: `prepareCell` then `c.S = prepareCellStyle(col,row,c.S)` -/
def writeCell (g : Grid) (col row : Nat) : Grid :=
  let g' := prepareSheetXML g col row
  let s := prepareCellStyle g' col row (cellS g' col row)
  { g' with rows := g'.rows.modify (row - 1) fun r => { r with cells := r.cells.set (col - 1) s } }

def setRect (g : Grid) (c1 r1 c2 r2 sid : Nat) : Grid :=
  { g with rows := g.rows.mapIdx fun i r =>
      if r1 ≤ i + 1 ∧ i + 1 ≤ r2 then
        { r with cells := r.cells.mapIdx fun j s => if c1 ≤ j + 1 ∧ j + 1 ≤ c2 then sid else s }
      else r }

/-- styles.go `SetCellStyle` on valid coordinates: the grid grows *before* the id is validated -/
def setCellStyle (reg : Reg) (g : Grid) (hc hr vc vr : Nat) (sid : Int) : Grid × Except Err Unit :=
  let (hc, vc) := if vc < hc then (vc, hc) else (hc, vc)
  let (hr, vr) := if vr < hr then (vr, hr) else (hr, vr)
  let g1 := makeContiguousColumns (prepareSheetXML g vc vr) hr vr vc
  if !validId reg sid then (g1, .error .invalidStyle)
  else (setRect g1 hc hr vc vr sid.toNat, .ok ())

/-- rows.go `SetRowStyle` -/
def setRowStyle (reg : Reg) (g : Grid) (start end_ : Int) (sid : Int) : Grid × Except Err Unit :=
  let (start, end_) := if end_ < start then (end_, start) else (start, end_)
  if start < 1 then (g, .error .rowNumber)
  else if end_ > (Facts.TotalRows : Int) then (g, .error .maxRows)
  else if !validId reg sid then (g, .error .invalidStyle)
  else
    let g1 := prepareSheetXML g 0 end_.toNat
    ({ g1 with rows := g1.rows.mapIdx fun i r =>
        if start.toNat ≤ i + 1 ∧ i + 1 ≤ end_.toNat then ⟨sid.toNat, r.cells.map fun _ => sid.toNat⟩ else r }, .ok ())

/-- col.go `flatCols` with the replacer of `setColStyle` (style of the new range wins) -/
def flatCols (mn mx sid : Nat) (cols : List Col) : List Col :=
  let fc : List Col := (List.range (mx + 1 - mn)).map fun k => ⟨mn + k, mn + k, sid⟩
  cols.foldl (fun fc column =>
    (List.range (column.max + 1 - column.min)).foldl (fun fc k =>
      let i := column.min + k
      if fc.any (fun c => c.max == i && c.min == i) then fc else fc ++ [⟨i, i, column.style⟩]) fc) fc

/-- col.go `SetColStyle` on a valid column range `mn ≤ mx` -/
def setColStyle (reg : Reg) (g : Grid) (mn mx : Nat) (sid : Int) : Grid × Except Err Unit :=
  if !validId reg sid then (g, .error .invalidStyle) else
  let g1 : Grid := { g with cols := flatCols mn mx sid.toNat g.cols }
  let rows := g1.rows.length
  if rows > 0 then
    ((List.range (mx + 1 - mn)).foldl (fun g k => (setCellStyle reg g (mn + k) 1 (mn + k) rows sid).1) g1, .ok ())
  else (g1, .ok ())

/-- col.go `GetColStyle`: the *last* covering range -/
def getColStyle (g : Grid) (col : Nat) : Nat :=
  g.cols.foldl (fun acc c => if c.min ≤ col ∧ col ≤ c.max then c.style else acc) 0

end Impl

/-! ## Spec -/
namespace Spec

/-- three total maps: explicit cell style, row style, column style (`0` = unset) -/
structure Levels where
  cell : Nat → Nat → Nat   -- col row
  row : Nat → Nat
  col : Nat → Nat

def Levels.empty : Levels := ⟨fun _ _ => 0, fun _ => 0, fun _ => 0⟩

/-- the style a cell reports: its own, otherwise its row's, otherwise its column's -/
def resolve (l : Levels) (c r : Nat) : Nat :=
  if l.cell c r ≠ 0 then l.cell c r else if l.row r ≠ 0 then l.row r else l.col c

def inRect (c1 r1 c2 r2 c r : Nat) : Prop := c1 ≤ c ∧ c ≤ c2 ∧ r1 ≤ r ∧ r ≤ r2

instance (c1 r1 c2 r2 c r : Nat) : Decidable (inRect c1 r1 c2 r2 c r) := by unfold inRect; infer_instance

def setCell (l : Levels) (c1 r1 c2 r2 sid : Nat) : Levels :=
  { l with cell := fun c r => if inRect c1 r1 c2 r2 c r then sid else l.cell c r }

/-- a row assignment also overwrites the explicit styles in the row -/
def setRow (l : Levels) (r1 r2 sid : Nat) : Levels :=
  { l with row := fun r => if r1 ≤ r ∧ r ≤ r2 then sid else l.row r
           cell := fun c r => if r1 ≤ r ∧ r ≤ r2 then sid else l.cell c r }

/-- a column assignment also overwrites the explicit styles in the column -/
def setCol (l : Levels) (c1 c2 sid : Nat) : Levels :=
  { l with col := fun c => if c1 ≤ c ∧ c ≤ c2 then sid else l.col c
           cell := fun c r => if c1 ≤ c ∧ c ≤ c2 then sid else l.cell c r }

/-- a later cell write materialises the inherited style on the cell -/
def write (l : Levels) (c r : Nat) : Levels :=
  { l with cell := fun c' r' => if c' = c ∧ r' = r then resolve l c r else l.cell c' r' }

/-! ### default-normalisation of a style definition

what `GetStyle (NewStyle s)` must report: the requested definition with the
defaults the library applies (font size below `MinFontSize` → 11, empty family → default font,
unknown underline dropped, colours upper-cased without `#`, out-of-range indexed colour → 0,
`VertAlign` is not a cell attribute, unknown border types / styles dropped, last border of a kind
wins, fixed read order of borders, second pattern colour dropped, number-format fields as
stored). Components not requested report the workbook defaults (table entry 0). -/

def normColor (c : Str) : Str := Impl.themeColor (paletteColor c)

def normFont (defaultFamily : Str) (f : Font) : Font :=
  let f' := Impl.fixSize f
  { bold := f'.bold, italic := f'.italic, strike := f'.strike,
    underline := if Facts.C17.underlineTypes.contains f'.underline then
        (if f'.underline = [] then "single".toList else f'.underline) else [],
    family := if f'.family = [] then defaultFamily else f'.family,
    size := f'.size,
    color := if f'.color ≠ [] then (upper f'.color).filter (· ≠ '#') else [],
    colorIndexed := if 0 ≤ f'.colorIndexed ∧ f'.colorIndexed ≤ (Facts.C17.indexedColorCount : Int) + 1 then f'.colorIndexed else 0,
    colorTheme := f'.colorTheme, colorTint := f'.colorTint, vertAlign := [] }

/-- normalised fill of a request; `none` = the workbook's default fill (entry 0): valid pattern /
gradient fills keep pattern index, shading and (normalised) colours — one colour for a pattern,
two for a gradient; no fill, unknown fill types, an out-of-range pattern and a malformed gradient
give the default (no fill is created for them) -/
def normFill (fl : Fill) : Option Fill :=
  if fl.typ = "gradient".toList then
    match fl.colors with
    | [a, b] =>
      if 0 ≤ fl.shading ∧ fl.shading ≤ 16 then some ⟨"gradient".toList, 0, [normColor a, normColor b], fl.shading⟩
      else none
    | _ => none
  else if fl.typ = "pattern".toList then
    if 0 ≤ fl.pattern ∧ fl.pattern ≤ 18 then
      some ⟨"pattern".toList, fl.pattern, (match fl.colors with | [] => [] | c :: _ => [normColor c]), 0⟩
    else none
  else none

end Spec

end XlModel.Styles
