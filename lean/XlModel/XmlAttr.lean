/-
C18 — persistence of attribute-backed records: how `encoding/xml` writes and reads
the attribute fields of a tagged struct, as far as the struct TAGS decide it (the
excelize-specific part): field ↔ attribute name, declaration order, `omitempty`
dropping zero values, nil pointers dropping the attribute, absent attributes reading
as the zero value / nil.  The scalar text codecs (bool, int, string with XML
escaping) are `encoding/xml`'s and are not modelled: attribute values are typed.
Tag tables are regenerated facts.  Core Lean only.
-/
import XlModel.Settings

namespace XlModel.XmlAttr
open XlModel XlModel.Settings

structure Tag where
  go : String
  xml : String
  attr : Bool
  omitempty : Bool
  ptr : Bool
  kind : Kind
  deriving Repr

def tagsOf (tbl : List (String × String × Bool × Bool × Bool × String)) : List Tag :=
  tbl.map fun (g, x, a, o, p, t) => ⟨g, x, a, o, p, kindOfType t⟩

/-- the attribute fields of modelled kinds, in declaration order -/
def attrTags (tbl : List (String × String × Bool × Bool × Bool × String)) : List Tag :=
  (tagsOf tbl).filter fun t => t.attr && t.kind != .other

/-- what `xml.Marshal` writes for one attribute field -/
def marshalField (t : Tag) (v : Option FVal) : Option (String × Val) :=
  match v with
  | some (.ptr _ none) => none
  | some (.ptr _ (some x)) => some (t.xml, x)
  | some (.plain x) => if t.omitempty && x.isZero then none else some (t.xml, x)
  | none => none

/-- the attributes of the element, in order: one (tag, field value) pair per attribute field -/
def marshal (fields : List (Tag × FVal)) : List (String × Val) :=
  fields.filterMap fun p => marshalField p.1 (some p.2)

/-- what `xml.Unmarshal` leaves in one attribute field of a fresh struct -/
def unmarshalField (t : Tag) (attrs : List (String × Val)) : FVal :=
  match attrs.lookup t.xml with
  | some v => if t.ptr then .ptr t.kind (some v) else .plain v
  | none => if t.ptr then .ptr t.kind none else .plain t.kind.zero

def unmarshal (tags : List Tag) (attrs : List (String × Val)) : Rec :=
  tags.map fun t => (t.go, unmarshalField t attrs)

/-- a field value that fits its tag: right shape and kind; a plain zero is THE zero of its kind
(this excludes only the float -0.0, which `omitempty` drops and which reads back as +0.0) -/
def Fits (t : Tag) (v : FVal) : Prop :=
  match v with
  | .plain x => t.ptr = false ∧ x.kind = t.kind ∧ (x.isZero = true → x = t.kind.zero)
  | .ptr k ov => t.ptr = true ∧ k = t.kind ∧ ∀ x, ov = some x → x.kind = k

end XlModel.XmlAttr
