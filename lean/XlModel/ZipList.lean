/-
C12 — the entry names written by file.go writeToZip, all three loops: parts held by stream
writers (File.streams), parts in File.Pkg, parts that are only in File.tempFiles.  A small model
next to `XlModel.Store` (which does not have File.streams).  Core Lean only.
-/
import XlModel.Basic
import XlModel.Generated.FactsC12

namespace XlModel.ZipList

def insDesc (x : String) : List String → List String
  | [] => [x]
  | y :: r => if y < x then x :: y :: r else y :: insDesc x r

/-- `sort.Sort(sort.Reverse(sort.StringSlice(names)))` -/
def sortDesc (l : List String) : List String := l.foldr insDesc []

/-- names in the order of the three loops of writeToZip: stream parts (map order: as given), then the
Pkg keys that are not stream parts, then the tempFiles keys that are neither in Pkg nor (regenerated
fact) stream parts -/
def zipNames (streams pkg temp : List String) : List String :=
  streams ++
  sortDesc (pkg.filter fun n => !(Facts.C12.zipPkgBranchSkipsStreams && decide (n ∈ streams))) ++
  sortDesc (temp.filter fun n => !(decide (n ∈ pkg)) && !(Facts.C12.zipTempBranchSkipsStreams && decide (n ∈ streams)))

/-- the temp loop as it was before the repair (no test against File.streams) -/
def zipNamesOld (streams pkg temp : List String) : List String :=
  streams ++
  sortDesc (pkg.filter fun n => !(decide (n ∈ streams))) ++
  sortDesc (temp.filter fun n => !(decide (n ∈ pkg)))

end XlModel.ZipList
