#!/usr/bin/env python3
"""Build known_findings.d/C09.json from one or more c09_failures.json files written by the
C09 harness (work/.../c09_failures.json).  Run by hand after a discovery run
(VH_C09_DISCOVER=1); never at check time.  Fixed entries of the existing file are kept."""
import json, re, sys, os

root = os.path.dirname(os.path.dirname(os.path.abspath(__file__)))
out = os.path.join(root, "known_findings.d", "C09.json")
old = json.load(open(out)) if os.path.exists(out) else []
# kept as they are: fixed entries and the hand-written evaluator-core entries (ev / deterministic witnesses)
fixed = [e for e in old if e.get("status") == "fixed" or e["key"].startswith("ev:") or e["key"].startswith("txt/witness#")]
merged = {}
for p in sys.argv[1:]:
    for sig, g in json.load(open(p)).items():
        m = merged.setdefault(sig, {"what": g["What"], "replay": g["Replay"], "tuples": set()})
        m["tuples"].update(g["Tuples"])
entries = list(fixed)
for sig in sorted(merged):
    g = merged[sig]
    if sig.startswith("fn:") and sig.endswith(" timeout"):
        # a hang without a huge-number argument seen in a discovery run on a loaded box is not
        # believed (the harness now confirms such hangs on a fresh worker): keep only groups
        # with a huge-number witness
        big = sorted(t for t in g["tuples"] if {"nb", "ni"} & set(t.split(",")))
        if not big:
            continue
        g["replay"] = "fn %s %s" % (sig[3:].split("/")[0], big[0].replace(",", " "))
    e = {"property": "C09", "key": sig, "status": "open", "what": "%s  [first witness %s]" % (sig, g["what"]), "replay": g["replay"]}
    if sig.startswith("fn:"):
        e["tuples"] = ["*"] if sig.endswith(" timeout") else sorted(g["tuples"])
    entries.append(e)
json.dump(entries, open(out, "w"), indent=1)
open(out, "a").write("\n")
print("wrote %d entries (%d open) to %s" % (len(entries), len(entries) - len(fixed), out))
