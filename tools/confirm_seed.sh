#!/bin/sh
# tools/confirm_seed.sh <tag> <k> : independently confirm a seeded change produced under /tmp/s/<tag>/_out/<k>
#   1. demo passes on a clean checkout of /repo main   2. patch applies and compiles
#   3. demo fails with the patch                        4. full existing suite passes with the patch (demo removed)
# prints CONFIRMED or REJECTED:<why>; log in /tmp/s/confirm-<tag>-<k>.log
tag="$1"; k="$2"
src="/tmp/s/$tag/_out/$k"
wt="/tmp/s/confirm-$tag-$k"
log="/tmp/s/confirm-$tag-$k.log"
export GOFLAGS=-mod=mod GOPROXY=off GOSUMDB=off GOTOOLCHAIN=local
: > "$log"
fin() { git -C /repo worktree remove --force "$wt" >/dev/null 2>&1; echo "$1" | tee -a "$log"; exit 0; }
[ -f "$src/patch.diff" ] || { echo "REJECTED:no patch.diff"; exit 0; }
git -C /repo worktree remove --force "$wt" >/dev/null 2>&1
git -C /repo worktree add -q --detach "$wt" main || { echo "REJECTED:worktree"; exit 0; }
cd "$wt"
demo=""
if [ -f "$src/demo_test.go" ]; then cp "$src/demo_test.go" ./zz_seeded_demo_test.go; demo="go test -vet=off -count=1 -run TestSeeded ."
elif [ -f "$src/main.go" ]; then mkdir -p zz_seeded_demo && cp "$src/main.go" zz_seeded_demo/main.go; demo="go run ./zz_seeded_demo"
else fin "REJECTED:no demonstration"; fi
echo "== demo on clean tree" >> "$log"
if ! timeout 1200 sh -c "$demo" >> "$log" 2>&1; then fin "REJECTED:demo fails on the clean tree"; fi
git apply "$src/patch.diff" >> "$log" 2>&1 || fin "REJECTED:patch does not apply to /repo main"
go build ./... >> "$log" 2>&1 || fin "REJECTED:does not compile"
echo "== demo with change" >> "$log"
if timeout 1200 sh -c "$demo" >> "$log" 2>&1; then fin "REJECTED:demo passes with the change"; fi
rm -rf zz_seeded_demo_test.go zz_seeded_demo
echo "== full suite with change" >> "$log"
if ! go test -vet=off -count=1 -timeout 30m ./... >> "$log" 2>&1; then fin "REJECTED:existing suite fails with the change"; fi
fin "CONFIRMED"
