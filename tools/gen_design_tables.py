#!/usr/bin/env python3
"""Regenerates the generated part of DESIGN.md (between the markers GENERATED-BEGIN / GENERATED-END):
section 8 (per-property index from props.d, evidence, known_findings.d, design.d) and
section 9 (seeded changes and which checks catch them, from seeded/*/meta.json)."""
import json, os, re, glob, subprocess
R = os.path.dirname(os.path.dirname(os.path.abspath(__file__)))
props = [json.loads(l) for l in open(R + "/properties.jsonl") if l.strip()]
out = []
out.append("## 8. As built: per-property index\n")
out.append("Every property has its own `design.d/Cxx.md` (model scope, theorem list, tie, findings, mutations, costs). "
           "Numbers below are from the committed evidence of the last quick run on the unchanged tree.\n")
out.append("| id | theorems (discharged) | transcript lines / cases per quick run | findings fixed / open | quick wall (s) | model modules | notes |")
out.append("|---|---|---|---|---|---|---|")
for p in props:
    pid = p["id"]
    cf = R + "/props.d/%s.json" % pid
    if not os.path.exists(cf):
        out.append("| %s | — | — | — | — | — | not claimed (see MANIFEST not_applicable) |" % pid); continue
    c = json.load(open(cf))
    ev = {}
    if os.path.exists(R + "/evidence/%s.json" % pid):
        ev = json.load(open(R + "/evidence/%s.json" % pid))
    cov = ev.get("coverage", {})
    kf = json.load(open(R + "/known_findings.d/%s.json" % pid)) if os.path.exists(R + "/known_findings.d/%s.json" % pid) else []
    nfix = sum(1 for e in kf if e.get("status") == "fixed"); nopen = sum(1 for e in kf if e.get("status") == "open")
    mods = ", ".join(m.replace("XlModel.", "") for m in c.get("modules", []) if "Lemmas" not in m)
    note = "claimed" if not c.get("disabled") else "built, not claimed"
    out.append("| %s | %s (%s) | %s / %s | %d / %d | %s | %s | [design.d/%s.md](design.d/%s.md); %s |" % (
        pid, cov.get("obligations", "?"), cov.get("discharged", "?"), cov.get("transcript_lines", "?"), cov.get("evaluations", "?"),
        nfix, nopen, ev.get("wall_s", "?"), mods, pid, pid, note))
out.append("")
# fix commits in /repo
try:
    log = subprocess.run(["git", "-C", "/repo", "log", "--format=%h %s"], capture_output=True, text=True).stdout.splitlines()
    fixes = [l for l in log if l.split(" ", 1)[1].startswith("fix:")]
    hooks = [l for l in log if " verif hooks" in l]
    out.append("Source changes in `/repo`: %d `fix:` commits (each a minimal unguarded repair of a genuine defect reproduced by a check first; "
               "the existing suite passes unedited on the final tree) and %d `verif hooks:` commits (add-only files `verif_hooks*.go`, "
               "build tag `verif`, per-property files additionally `verif_cNN`). The defects are listed per property in "
               "`known_findings.d/Cxx.json` (`status: fixed`, with the commit) and described in `design.d/Cxx.md`.\n" % (len(fixes), len(hooks)))
except Exception:
    pass
out.append("## 9. Seeded changes and which checks catch them\n")
out.append("Each change below was written by a fresh sub-agent that was given only the text of one property and its own scratch worktree of "
           "the repository (nothing from `/verif`), asked for an edit that breaks the property while compiling and passing the existing suite, "
           "and needing something specific to manifest. Each was confirmed by the coordinator (`tools/confirm_seed.sh`: demo passes on the clean "
           "tree, fails with the change, full suite passes with the change) and then run against the property's quick check "
           "(`tools/try_seed.sh`: scratch worktree = `/repo` main + patch, `$VERIF_REPO`). Directory: `seeded/<id>/` (patch.diff, demonstration, meta.json).\n")
out.append("The last column is a re-run of every archived patch against the final `/repo` main (all `fix:` commits in) with the final checks "
           "(`seeded/final_rerun.txt`); `n/a (site rewritten)` means the patch no longer applies because a later `fix:` commit rewrote the edited code, "
           "so the verdict recorded at the time stands.\n")
out.append("| seed | property | what it does / needs | first run | after strengthening | layer(s) that report it | final tree |")
out.append("|---|---|---|---|---|---|---|")
final = {}
try:
    for l in open(R + "/seeded/final_rerun.txt"):
        f = l.split()
        if len(f) >= 3 and f[0].startswith("C"):
            final[f[0]] = "n/a (site rewritten)" if f[2] == "NOAPPLY" else ("caught" + (" (proof/correspondence only)" if "no-failing-input-found" in l else "") if "rc=1" in l else "MISSED")
except Exception:
    pass
nd = nm = 0
for d in sorted(glob.glob(R + "/seeded/*/")):
    mp = d + "meta.json"
    if not os.path.exists(mp): continue
    m = json.load(open(mp))
    sid = os.path.basename(d.rstrip("/"))
    runs = m.get("check_runs", [])
    def verdict(r):
        if "exit 1" in r:
            sigs = re.findall(r"replay=\S*?/C\d\d-\d+-([^ ]+?)\.txt", r)
            nf = "no-failing-input-found" in r
            return ("caught" + (" (proof/correspondence only)" if nf else "")), ", ".join(sorted(set(sigs)))[:90]
        return "MISSED", ""
    first = verdict(runs[0]) if runs else ("?", "")
    last = verdict(runs[-1]) if runs else ("?", "")
    summ = (m.get("summary") or m.get("clause_broken") or "")
    if isinstance(summ, list): summ = " ".join(summ)
    summ = re.sub(r"\s+", " ", str(summ))[:160].replace("|", "/")
    needs = re.sub(r"\s+", " ", str(m.get("needs_to_manifest", "")))[:140].replace("|", "/")
    if m.get("detected_by") and not runs:
        first = ("caught", ""); last = first
    if last[0].startswith("caught"): nd += 1
    else: nm += 1
    out.append("| %s | %s | %s — needs: %s | %s | %s | %s | %s |" % (sid, m.get("property", "?"), summ, needs, first[0],
               (last[0] if len(runs) > 1 else "—") + (" — " + m["strengthening"][:200].replace("|", "/") if m.get("strengthening") else ""), last[1] or m.get("detected_by", "")[:90], final.get(sid, "—")))
out.append("")
out.append("Totals: %d seeded changes kept, %d reported by the current checks, %d not reported.\n" % (nd + nm, nd, nm))
txt = "\n".join(out)
p = R + "/DESIGN.md"
s = open(p).read()
b, e = "<!-- GENERATED-BEGIN -->", "<!-- GENERATED-END -->"
if b in s:
    s = s[:s.index(b)] + b + "\n" + txt + "\n" + e + s[s.index(e) + len(e):]
else:
    s = s.rstrip("\n") + "\n\n\n" + b + "\n" + txt + "\n" + e + "\n"
open(p, "w").write(s)
print("DESIGN.md tables regenerated: %d seeds (%d caught, %d missed)" % (nd + nm, nd, nm))
