#!/bin/sh
# tools/integ.sh Cxx [Cyy…] : merge wip/Cxx follow-up work into main (evidence conflicts: take theirs), run the quick check, commit
cd /verif
git checkout -- evidence 2>/dev/null
for id in "$@"; do
  git merge -q --no-edit "wip/$id" 2>&1 | grep -i conflict
  git status --short | grep "^UU\|^AA" | awk '{print $2}' | while read f; do git checkout --theirs "$f"; git add "$f"; done
  git commit -qm "merge wip/$id" 2>/dev/null
  python3 tools/tagfiles.py >/dev/null
  ./check "$id" quick 2>&1 | grep -E "^VIOLATION|^C[0-9]+ quick" | sed 's/(attributed.*)//' | cut -c1-180
  python3 gen_manifest.py >/dev/null
  git add -A; git commit -qm "$id follow-up merged: evidence, manifest" -q
done
