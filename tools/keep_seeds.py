#!/usr/bin/env python3
"""Copies every CONFIRMED seeded change from /tmp/s/<tag>/_out/<k>/ into /verif/seeded/<Cxx>-<tag>-<k>/
(patch.diff, demonstration, meta.json) and records what the coordinator ran: confirmation result
(tools/confirm_seed.sh) and the verdict of the property's quick check against main+patch
(tools/try_seed.sh). Later entries for the same seed in try_results.txt override earlier ones
(a re-run after the check was strengthened)."""
import json, os, re, shutil
S = "/tmp/s"
conf, tries = {}, {}
for l in open(S + "/confirm_results.txt"):
    m = re.match(r"(\S+)/(\d+) (.*)", l.strip())
    if m: conf[(m.group(1), m.group(2))] = m.group(3)
for l in open(S + "/try_results.txt"):
    m = re.match(r"(\S+)/(\d+) (C\d\d) rc=(\d+) (.*)", l.strip())
    if m: tries.setdefault((m.group(1), m.group(2)), []).append((m.group(3), int(m.group(4)), m.group(5)))
n = 0
for (tag, k), c in sorted(conf.items()):
    src = "%s/%s/_out/%s" % (S, tag, k)
    if not c.startswith("CONFIRMED") or not os.path.isdir(src):
        continue
    prop = tag[:3]
    dst = "/verif/seeded/%s-%s-%s" % (prop, tag[3:], k)
    os.makedirs(dst, exist_ok=True)
    for fn in ("patch.diff", "demo_test.go", "main.go"):
        if fn == "patch.diff" and os.path.exists(dst + "/patch.orig.diff"):
            continue  # ported to the final tree: keep the ported patch, the original is patch.orig.diff
        if os.path.exists(os.path.join(src, fn)):
            shutil.copy(os.path.join(src, fn), dst)
    try:
        meta = json.load(open(os.path.join(src, "meta.json")))
    except Exception:
        meta = {}
    old = {}
    if os.path.exists(dst + "/meta.json"):
        old = json.load(open(dst + "/meta.json"))
    for keep in ("ported_to_final_tree", "obsolete_on_final_tree"):
        if keep in old: meta[keep] = old[keep]
    meta["property"] = prop
    meta["produced_by"] = "independent sub-agent given only the property text and a scratch worktree (/tmp/s/%s)" % tag
    meta["confirmed_by_coordinator"] = "tools/confirm_seed.sh %s %s: demo passes on clean /repo main, patch applies and compiles, demo fails with the patch, full existing suite passes with the patch -> %s" % (tag, k, c)
    runs = tries.get((tag, k), [])
    meta["check_runs"] = ["tools/try_seed.sh (./check %s quick against /repo main + patch): exit %d; %s" % (p, rc, v) for p, rc, v in runs]
    if runs:
        meta["detected"] = runs[-1][1] == 1
    notes = json.load(open("/verif/seeded/notes.json")) if os.path.exists("/verif/seeded/notes.json") else {}
    if os.path.basename(dst) in notes:
        meta["strengthening"] = notes[os.path.basename(dst)]
    json.dump(meta, open(dst + "/meta.json", "w"), indent=1, ensure_ascii=False)
    n += 1
print("kept", n, "seeds")
