#!/bin/sh
# tools/merge.sh Cxx : integrate one property's branches into /verif main and /repo main
set -e
id="$1"
cd /verif
echo "== repo commits on hooks/$id not in main:"
git -C /repo log --oneline --reverse main..hooks/$id
for c in $(git -C /repo rev-list --reverse main..hooks/$id); do
  git -C /repo cherry-pick "$c" >/dev/null || { echo "cherry-pick $c failed"; exit 1; }
done
echo "== merging wip/$id"
git merge --no-edit "wip/$id" || { echo "merge conflict"; exit 1; }
python3 tools/tagfiles.py
if [ -n "$(git -C /repo status --short)" ]; then
  git -C /repo add -A verif_hooks_*.go && git -C /repo commit -qm "verif hooks: per-property build tag for $id hooks" && echo "repo: tagged hooks committed"
fi
python3 gen_manifest.py
git add -A && git commit -qm "merge $id: build tags, manifest" && echo "verif: committed"
echo "== done; now: ./check $id quick"
