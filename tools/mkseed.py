#!/usr/bin/env python3
"""tools/mkseed.py Cxx tag [focus text]: scratch worktree /tmp/s/<tag> of /repo (detached at main) +
TASK.md holding ONLY the property text and the rules for producing a property-breaking change."""
import json, os, subprocess, sys
pid, tag = sys.argv[1], sys.argv[2]
focus = " ".join(sys.argv[3:])
p = [json.loads(l) for l in open('/verif/properties.jsonl') if l.strip() and json.loads(l)['id'] == pid][0]
d = '/tmp/s/' + tag
os.makedirs('/tmp/s', exist_ok=True)
subprocess.run(['git', '-C', '/repo', 'worktree', 'add', '-q', '--detach', d, 'main'], check=True)
os.makedirs(d + '/_out', exist_ok=True)
task = f"""# Task: produce realistic property-breaking changes to excelize

You have a scratch git worktree of the Go library qax-os/excelize (module
github.com/xuri/excelize/v2) at `{d}`. Work ONLY inside `{d}` (never /repo, never /verif; do
not read /verif). There is no network. Every shell call needs:
`export GOFLAGS=-mod=mod GOPROXY=off GOSUMDB=off GOTOOLCHAIN=local` (env does not persist).

## The property (this is all you are given)

id: {p['id']}
title: {p['title']}

statement: {p['statement']}

quantified over: {p['quantifier']['text']}

why the existing tests cannot settle it: {p['why_tests_cant']}

anchors (where the mechanism lives): {json.dumps(p['anchors'], indent=1)}

NEVER use `git stash` (the stash is shared by all worktrees of this repository and other agents work in
sibling worktrees): to test on the clean tree use `git diff > _out/wip.diff; git checkout -- .; …; git apply _out/wip.diff`.

## What to produce

TWO different changes (different mechanisms / different code sites) to the library source
(non-test `.go` files of `{d}`), each of which
1. still compiles (`go build ./...` and `go vet` are not required to be clean beyond compiling),
2. still passes the ENTIRE existing test suite unedited:
   `cd {d} && go test -vet=off -count=1 -timeout 25m ./...` (takes 6–20 minutes; run it for
   each final candidate, and use `-run` subsets while iterating),
3. BREAKS the property above (makes its statement false for some input / history / schedule),
4. needs something SPECIFIC to manifest — a particular multi-step sequence of operations, an
   unusual input or boundary value, a particular interleaving, a fault at a particular point,
   or two cooperating sites that each look fine alone — NOT something ordinary use would
   expose at once (a change that makes every call fail is useless),
5. looks like a plausible maintenance edit (refactor, "optimisation", off-by-one, swapped
   comparison, dropped escape/guard, reordered steps, cache not invalidated, …), small
   (ideally < 30 changed lines), with no comments that announce the bug.
{('Focus suggestion: ' + focus) if focus else ''}

For each change k ∈ {{1,2}} write into `{d}/_out/k/`:
* `patch.diff` — `git diff` of the library change only (must apply with `git apply` to a clean
  checkout of the same commit);
* a demonstration: `demo_test.go` (package excelize, a single `TestSeeded…` function, to be
  copied into the repository root and run with `go test -vet=off -count=1 -run TestSeeded .`)
  or a small `main.go` program (say how to run it) that FAILS with the change applied and
  PASSES without it; it must exercise the public API (or the anchored functions) and state in
  a comment which clause of the property is violated;
* `meta.json` — {{"property": "{p['id']}", "summary": "...", "clause_broken": "...",
  "needs_to_manifest": "...", "files_changed": [...], "suite_result": "PASS (n tests) — command used",
  "demo_with_change": "FAIL: <message>", "demo_without_change": "PASS"}}.

Verify everything yourself: demo fails with the change, passes on the clean tree, full suite
passes with the change (the demo file must NOT be present in the tree while you run the suite).
When done leave the worktree CLEAN (`git -C {d} checkout -- . && git -C {d} clean -fdq -e _out -e TASK.md`),
keeping only `_out/` and TASK.md. Final message: for each change a 3-line summary (what, where, how it manifests)
and the verification results.
"""
open(d + '/TASK.md', 'w').write(task)
print(d)
