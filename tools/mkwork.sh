#!/bin/sh
# tools/mkwork.sh Cxx : private worktrees for building one property's check
#   /tmp/w/Cxx  = worktree of /verif on branch wip/Cxx
#   /tmp/r/Cxx  = worktree of /repo  on branch hooks/Cxx   (use VERIF_REPO=/tmp/r/Cxx)
set -e
id="$1"
mkdir -p /tmp/w /tmp/r
git -C /verif worktree add -q -b "wip/$id" "/tmp/w/$id" HEAD
git -C /repo worktree add -q -b "hooks/$id" "/tmp/r/$id" HEAD
echo "verif worktree /tmp/w/$id (branch wip/$id); repo worktree /tmp/r/$id (branch hooks/$id)"
