#!/usr/bin/env python3
"""Give every per-property harness file (harness/cmd/vh/cNN*.go) the build tag verif_cNN and every
per-property hook file (/repo/verif_hooks_cNN*.go) the constraint `verif && verif_cNN`, so that each
property's harness binary only links its own code. Idempotent."""
import os, re, sys
repo = sys.argv[1] if len(sys.argv) > 1 else "/repo"
root = os.path.dirname(os.path.dirname(os.path.abspath(__file__)))
n = 0
d = os.path.join(root, "harness", "cmd", "vh")
for fn in sorted(os.listdir(d)):
    m = re.match(r"(c\d\d)[^/]*\.go$", fn)
    if not m:
        continue
    p = os.path.join(d, fn); s = open(p).read(); tag = "verif_" + m.group(1)
    if re.search(r"^//go:build ", s, re.M):
        continue
    open(p, "w").write("//go:build %s\n\n%s" % (tag, s)); n += 1
for fn in sorted(os.listdir(repo)):
    m = re.match(r"verif_hooks_(c\d\d)[^/]*\.go$", fn)
    if not m:
        continue
    p = os.path.join(repo, fn); s = open(p).read(); tag = "verif_" + m.group(1)
    if tag in s.split("\n\n")[0]:
        continue
    s2 = re.sub(r"^//go:build verif\s*$", "//go:build verif && " + tag, s, count=1, flags=re.M)
    if s2 == s:
        print("WARNING: no plain `//go:build verif` line in", p); continue
    open(p, "w").write(s2); n += 1
print("tagged", n, "files")
