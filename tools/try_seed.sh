#!/bin/sh
# tools/try_seed.sh <patch.diff> <Cxx> [Cyy ...] : run quick checks against /repo main + patch
# (scratch worktree, $VERIF_REPO), print one verdict line per property; removes the worktree.
patch="$1"; shift
wt="/tmp/s/try-$$"
git -C /repo worktree add -q --detach "$wt" main || exit 2
if ! git -C "$wt" apply "$patch"; then echo "patch does not apply"; git -C /repo worktree remove --force "$wt"; exit 2; fi
cd /verif
for id in "$@"; do
  out=$(VERIF_REPO="$wt" VERIF_EVIDENCE_DIR=/tmp/s/evidence ./check "$id" "${TIER:-quick}" 2>&1)
  rc=$?
  v=$(echo "$out" | grep '^VIOLATION' | head -2 | tr '\n' ' ')
  echo "$id rc=$rc ${v:-no-violation}"
  echo "$out" > "/tmp/s/try-last-$id.log"
done
git -C /repo worktree remove --force "$wt"
